"""Shared helpers for the property modules."""
from __future__ import annotations

import json
from fractions import Fraction


def frac(v) -> Fraction:
    return Fraction(float(v)) if not isinstance(v, Fraction) else v


def rat_str(v) -> str:
    f = Fraction(v) if not isinstance(v, float) else Fraction(v)
    return str(f.numerator) if f.denominator == 1 else f'{f.numerator}/{f.denominator}'


def ring_str(pts) -> str:
    """`x,y;x,y;...` of a vertex list (exact rationals)"""
    return ';'.join(f'{rat_str(x)},{rat_str(y)}' for x, y in pts)


def poly_ring(poly) -> list:
    """exact exterior ring of a shapely polygon, closing vertex removed"""
    coords = [(Fraction(x), Fraction(y)) for x, y in poly.exterior.coords]
    return coords[:-1]


def expected_ring(q) -> list:
    """what shapely stores for a ring built from vertex list q (closing vertex removed):
    shapely closes the ring unless it is already closed"""
    q = list(q)
    return q[:-1] if (len(q) > 1 and q[0] == q[-1]) else q


def generic_replay(ctx, data: dict, run_one) -> int:
    print(f"replay of {data.get('property')} ({data.get('kind')}):")
    if data.get('broken'):
        print('  broken obligations:', *data['broken'], sep='\n    ')
    inputs = []
    if data.get('input'):
        inputs.append(data['input'])
    for d in data.get('disagreements', [])[:3]:
        if d.get('input'):
            inputs.append(d['input'])
    status = 0
    for inp in inputs:
        try:
            res = run_one(ctx, inp)
        except Exception as e:  # noqa
            res = {'error': f'{type(e).__name__}: {e}'}
        print('  input:', json.dumps(inp, default=str)[:600])
        for k, v in res.items():
            print(f'    {k}: {v}')
        if res.get('impl') != res.get('model') and 'model' in res:
            status = 1
    if data.get('message'):
        print('  recorded oracle message:', data['message'])
        status = 1
    return status


EPOCH = None


def as_num(values):
    """numeric view of an array for comparison / printing: datetimes and timedeltas as seconds (since 2000-01-01),
    NaT as NaN; everything else as float64"""
    import numpy as np
    a = np.asarray(values)
    if a.dtype.kind == 'M':
        out = (a.astype('datetime64[ns]') - np.datetime64('2000-01-01T00:00:00', 'ns')) / np.timedelta64(1, 's')
        return np.where(np.isnat(a), np.nan, out).astype('f8')
    if a.dtype.kind == 'm':
        out = a.astype('timedelta64[ns]') / np.timedelta64(1, 's')
        return np.where(np.isnat(a), np.nan, out).astype('f8')
    return np.asarray(a, dtype='f8')
