"""
T — the dimension / shape arithmetic of flattening and winding, translated from the source text on every run.

  utils.move_dimensions_to_end   the new dimension order, the missing-dimension guard, transpose unless already in order
  utils.ravel_dimensions         move first; new shape `shape[:-len(dimensions)] + (-1,)`; kept dims `dims[:-len(dimensions)]`;
                                 new dims `kept + (linear_dimension,)`; the collision test; the default name's prefix
  utils.wind_dimension           position of the linear dimension; new dims / new shape by `splice_tuple`
  utils.splice_tuple             `t[:index] + tuple(values) + t[index:][1:]`
  utils.find_unused_dimension    prefix first, then `prefix_<k>` for k = 0, 1, …

are read with `inspect.getsource` from the emsarray under check and emitted as terms of `Ems.DimsSrc.T`
(lean/EmsModel/Core/DimsSrc.lean) into lean/EmsModel/Gen/DimsSrc.lean; `Props/C03Src.lean` proves they compute the
dimension lists the model functions `NArr.moveToEnd / ravelDims / windDim / splice / findUnused` use, for all arrays.
Locals are inlined (renaming one is invisible); what cannot be rendered becomes `T.unsupported "<python>"`.
Trusted: `tuple(x)`, `list(x)` and `set(x)` are `x` where only order-free membership is asked of the set; numpy's
`reshape(new_shape)` keeps the C-order data (that is what the model's `data := m.data` says; compared by the C03
correspondence on every case).
"""
from __future__ import annotations

import ast
import inspect
import pathlib
import textwrap

VERIF = pathlib.Path(__file__).resolve().parent.parent
OUT = VERIF / 'lean' / 'EmsModel' / 'Gen' / 'DimsSrc.lean'
TARGET = 'EmsModel.Gen.DimsSrc'

PARAMS = {'dimensions', 'sizes', 'linear_dimension', 't', 'index', 'values', 'prefix'}


def lean_str(s: str) -> str:
    return '"' + s.replace('\\', '\\\\').replace('"', '\\"').replace('\n', '\\n') + '"'


def _uns(node) -> str:
    try:
        text = ast.unparse(node)
    except Exception:  # noqa: BLE001
        text = repr(node)
    return f'(.unsupported {lean_str(text[:200])})'


def _chain(node):
    parts = []
    while isinstance(node, ast.Attribute):
        parts.append(node.attr)
        node = node.value
    if isinstance(node, ast.Name):
        parts.append(node.id)
        return tuple(reversed(parts))
    return None


def expr(node, env: dict) -> str:
    if isinstance(node, ast.Name):
        if node.id in env:
            return env[node.id]
        if node.id in PARAMS:
            return f'(.var {lean_str(node.id)})'
        return _uns(node)
    if isinstance(node, ast.Attribute):
        ch = _chain(node)
        if ch == ('data_array', 'dims'):
            return '(.var "dims")'
        if ch == ('data_array', 'shape'):
            return '(.var "shape")'
        return _uns(node)
    if isinstance(node, ast.Constant):
        if isinstance(node.value, bool):
            return _uns(node)
        if isinstance(node.value, int):
            return f'(.intLit ({node.value}))'
        if isinstance(node.value, str):
            return f'(.atomLit (.nm {lean_str(node.value)}))'
        return _uns(node)
    if isinstance(node, ast.UnaryOp) and isinstance(node.op, ast.USub):
        if isinstance(node.operand, ast.Constant) and isinstance(node.operand.value, int) \
                and not isinstance(node.operand.value, bool):
            return f'(.intLit (-{node.operand.value}))'
        return f'(.neg {expr(node.operand, env)})'
    if isinstance(node, ast.Tuple):
        if len(node.elts) == 1 and not isinstance(node.elts[0], ast.Starred):
            return f'(.single {expr(node.elts[0], env)})'
        return _uns(node)
    if isinstance(node, ast.BinOp) and isinstance(node.op, ast.Add):
        return f'(.concat {expr(node.left, env)} {expr(node.right, env)})'
    if isinstance(node, ast.Subscript) and isinstance(node.slice, ast.Slice) and node.slice.step is None:
        lo, hi = node.slice.lower, node.slice.upper
        if lo is None and hi is not None:
            return f'(.sliceTo {expr(node.value, env)} {expr(hi, env)})'
        if hi is None and lo is not None:
            return f'(.sliceFrom {expr(node.value, env)} {expr(lo, env)})'
        return _uns(node)
    if isinstance(node, ast.ListComp) and len(node.generators) == 1:
        g = node.generators[0]
        if isinstance(g.target, ast.Name) and isinstance(node.elt, ast.Name) and node.elt.id == g.target.id \
                and len(g.ifs) == 1 and not g.is_async:
            c = g.ifs[0]
            if isinstance(c, ast.Compare) and len(c.ops) == 1 and isinstance(c.ops[0], ast.NotIn) \
                    and isinstance(c.left, ast.Name) and c.left.id == g.target.id:
                return f'(.filterNotIn {expr(g.iter, env)} {expr(c.comparators[0], env)})'
        return _uns(node)
    if isinstance(node, ast.Compare) and len(node.ops) == 1 and isinstance(node.ops[0], ast.In):
        return f'(.isIn {expr(node.left, env)} {expr(node.comparators[0], env)})'
    if isinstance(node, ast.Call) and not node.keywords and not any(isinstance(a, ast.Starred) for a in node.args):
        f = node.func
        if isinstance(f, ast.Name) and f.id in ('tuple', 'list', 'set') and len(node.args) == 1:
            return expr(node.args[0], env)
        if isinstance(f, ast.Name) and f.id == 'len' and len(node.args) == 1:
            return f'(.len {expr(node.args[0], env)})'
        if isinstance(f, ast.Name) and f.id == 'splice_tuple' and len(node.args) == 3:
            a, b, c = (expr(x, env) for x in node.args)
            return f'(.spliceCall {a} {b} {c})'
        if isinstance(f, ast.Attribute) and f.attr == 'index' and len(node.args) == 1:
            return f'(.indexOf {expr(f.value, env)} {expr(node.args[0], env)})'
        return _uns(node)
    return _uns(node)


def _fn(name: str) -> ast.FunctionDef:
    from emsarray import utils
    node = ast.parse(textwrap.dedent(inspect.getsource(getattr(utils, name)))).body[0]
    assert isinstance(node, ast.FunctionDef)
    return node


def _is_doc(s) -> bool:
    return isinstance(s, ast.Expr) and isinstance(s.value, ast.Constant) and isinstance(s.value.value, str)


def _raises(body) -> bool:
    return len(body) >= 1 and isinstance(body[-1], ast.Raise)


def move_terms() -> dict:
    out = {'moveNewOrder': '(.unsupported "transpose(*order) not found")', 'moveGuard': 'false', 'moveTransposes': 'false'}
    fn = _fn('move_dimensions_to_end')
    env: dict = {}
    for s in fn.body:
        if _is_doc(s):
            continue
        if isinstance(s, ast.Assign) and len(s.targets) == 1 and isinstance(s.targets[0], ast.Name):
            env[s.targets[0].id] = expr(s.value, env)
        elif isinstance(s, ast.If):
            t = s.test
            # if not current_dims.issuperset(dimensions): raise
            if isinstance(t, ast.UnaryOp) and isinstance(t.op, ast.Not) and isinstance(t.operand, ast.Call) \
                    and isinstance(t.operand.func, ast.Attribute) and t.operand.func.attr == 'issuperset' \
                    and len(t.operand.args) == 1 and not t.operand.keywords \
                    and expr(t.operand.func.value, env) == '(.var "dims")' \
                    and expr(t.operand.args[0], env) == '(.var "dimensions")' and _raises(s.body) and not s.orelse:
                out['moveGuard'] = 'true'
            # if <order> == list(data_array.dims): return copy   else: return data_array.transpose(*<order>)
            elif isinstance(t, ast.Compare) and len(t.ops) == 1 and isinstance(t.ops[0], ast.Eq) \
                    and expr(t.comparators[0], env) == '(.var "dims")' \
                    and len(s.body) == 1 and isinstance(s.body[0], ast.Return) \
                    and len(s.orelse) == 1 and isinstance(s.orelse[0], ast.Return):
                r = s.orelse[0].value
                same = s.body[0].value
                ok_same = isinstance(same, ast.Call) and isinstance(same.func, ast.Attribute) and same.func.attr == 'copy' \
                    and _chain(same.func.value) == ('data_array',)
                ok_tr = isinstance(r, ast.Call) and isinstance(r.func, ast.Attribute) and r.func.attr == 'transpose' \
                    and _chain(r.func.value) == ('data_array',) and len(r.args) == 1 and not r.keywords \
                    and isinstance(r.args[0], ast.Starred)
                if ok_tr:
                    # the order handed to transpose is the term of record, whatever the local is called
                    out['moveNewOrder'] = expr(r.args[0].value, env)
                    if ok_same and expr(t.left, env) == out['moveNewOrder']:
                        out['moveTransposes'] = 'true'
    return out


def ravel_terms() -> dict:
    out = {'ravelMovesFirst': 'false', 'ravelNewShape': '(.unsupported "reshape not found")',
           'ravelNewDims': '(.unsupported "dims= not found")', 'ravelKeptDims': '(.unsupported "collision test not found")',
           'ravelCollisionRaises': 'false', 'ravelDefaultPrefix': '(.unsupported "default name not found")'}
    fn = _fn('ravel_dimensions')
    env: dict = {}
    body = [s for s in fn.body if not _is_doc(s)]
    if body and isinstance(body[0], ast.Assign) and isinstance(body[0].targets[0], ast.Name) \
            and body[0].targets[0].id == 'data_array' and isinstance(body[0].value, ast.Call) \
            and isinstance(body[0].value.func, ast.Name) and body[0].value.func.id == 'move_dimensions_to_end' \
            and [ast.unparse(a) for a in body[0].value.args] == ['data_array', 'dimensions'] and not body[0].value.keywords:
        out['ravelMovesFirst'] = 'true'
        body = body[1:]
    for s in body:
        if isinstance(s, ast.Assign) and len(s.targets) == 1 and isinstance(s.targets[0], ast.Name):
            v = s.value
            if isinstance(v, ast.Call) and isinstance(v.func, ast.Attribute) and v.func.attr == 'reshape' \
                    and len(v.args) == 1 and not v.keywords and _chain(v.func.value) == ('data_array', 'values'):
                out['ravelNewShape'] = expr(v.args[0], env)
                env[s.targets[0].id] = '(.unsupported "array data")'
            else:
                env[s.targets[0].id] = expr(v, env)
        elif isinstance(s, ast.If):
            t = s.test
            # if linear_dimension is None: linear_dimension = find_unused_dimension(data_array, 'index')
            if isinstance(t, ast.Compare) and isinstance(t.ops[0], ast.Is) and isinstance(t.left, ast.Name) \
                    and t.left.id == 'linear_dimension' and len(s.body) == 1 and isinstance(s.body[0], ast.Assign):
                a = s.body[0]
                if isinstance(a.targets[0], ast.Name) and a.targets[0].id == 'linear_dimension' \
                        and isinstance(a.value, ast.Call) and isinstance(a.value.func, ast.Name) \
                        and a.value.func.id == 'find_unused_dimension' and len(a.value.args) == 2 \
                        and ast.unparse(a.value.args[0]) == 'data_array' and not a.value.keywords:
                    out['ravelDefaultPrefix'] = expr(a.value.args[1], env)
                # elif linear_dimension in existing_dims: raise
                if len(s.orelse) == 1 and isinstance(s.orelse[0], ast.If):
                    e = s.orelse[0]
                    if isinstance(e.test, ast.Compare) and len(e.test.ops) == 1 and isinstance(e.test.ops[0], ast.In) \
                            and isinstance(e.test.left, ast.Name) and e.test.left.id == 'linear_dimension':
                        out['ravelKeptDims'] = expr(e.test.comparators[0], env)
                        if _raises(e.body) and not e.orelse:
                            out['ravelCollisionRaises'] = 'true'
        elif isinstance(s, ast.Return) and isinstance(s.value, ast.Call):
            for kw in s.value.keywords:
                if kw.arg == 'dims':
                    out['ravelNewDims'] = expr(kw.value, env)
    return out


def wind_terms() -> dict:
    out = {'windNewDims': '(.unsupported "dims= not found")', 'windNewShape': '(.unsupported "reshape not found")'}
    fn = _fn('wind_dimension')
    env: dict = {}
    for s in fn.body:
        if _is_doc(s):
            continue
        if isinstance(s, ast.Assign) and len(s.targets) == 1 and isinstance(s.targets[0], ast.Name):
            v = s.value
            if isinstance(v, ast.Call) and isinstance(v.func, ast.Attribute) and v.func.attr == 'reshape' \
                    and len(v.args) == 1 and not v.keywords and _chain(v.func.value) == ('data_array', 'values'):
                out['windNewShape'] = expr(v.args[0], env)
                env[s.targets[0].id] = '(.unsupported "array data")'
            else:
                env[s.targets[0].id] = expr(v, env)
        elif isinstance(s, ast.Return) and isinstance(s.value, ast.Call):
            for kw in s.value.keywords:
                if kw.arg == 'dims':
                    out['windNewDims'] = expr(kw.value, env)
    return out


def splice_terms() -> dict:
    fn = _fn('splice_tuple')
    body = [s for s in fn.body if not _is_doc(s)]
    if len(body) == 1 and isinstance(body[0], ast.Return) and body[0].value is not None:
        return {'spliceBody': expr(body[0].value, {})}
    return {'spliceBody': '(.unsupported "splice_tuple is not a single return")'}


def find_unused_terms() -> dict:
    """`if prefix not in existing: return prefix` then the first free `f'{prefix}_{suffix}'`, suffix from count(start=k)."""
    out = {'findUnusedPrefixFirst': 'false', 'findUnusedSeparator': '"?"', 'findUnusedStart': '(-1)'}
    fn = _fn('find_unused_dimension')
    body = [s for s in fn.body if not _is_doc(s)]
    src = [ast.unparse(s) for s in body]
    if len(body) == 4 and src[0] == 'existing_dims = set(dataset_or_data_array.dims)' \
            and src[1] == 'if prefix not in existing_dims:\n    return prefix' \
            and src[3] == 'return next((candidate for candidate in candidates if candidate not in existing_dims))':
        out['findUnusedPrefixFirst'] = 'true'
        a = body[2]
        if isinstance(a, ast.Assign) and isinstance(a.value, ast.GeneratorExp) and len(a.value.generators) == 1:
            g = a.value.generators[0]
            elt = a.value.elt
            if isinstance(elt, ast.JoinedStr) and len(elt.values) == 3 and isinstance(elt.values[1], ast.Constant) \
                    and isinstance(elt.values[0], ast.FormattedValue) and ast.unparse(elt.values[0].value) == 'prefix' \
                    and isinstance(elt.values[2], ast.FormattedValue) and isinstance(g.target, ast.Name) \
                    and ast.unparse(elt.values[2].value) == g.target.id and not g.ifs \
                    and elt.values[0].format_spec is None and elt.values[2].format_spec is None \
                    and elt.values[0].conversion == -1 and elt.values[2].conversion == -1:
                out['findUnusedSeparator'] = lean_str(elt.values[1].value)
                it = g.iter
                if isinstance(it, ast.Call) and _chain(it.func) == ('itertools', 'count'):
                    if not it.args and len(it.keywords) == 1 and it.keywords[0].arg == 'start' \
                            and isinstance(it.keywords[0].value, ast.Constant) and isinstance(it.keywords[0].value.value, int):
                        out['findUnusedStart'] = f'({it.keywords[0].value.value})'
                    elif not it.args and not it.keywords:
                        out['findUnusedStart'] = '(0)'
                    elif len(it.args) == 1 and not it.keywords and isinstance(it.args[0], ast.Constant) \
                            and isinstance(it.args[0].value, int):
                        out['findUnusedStart'] = f'({it.args[0].value})'
    return out


TYPES = {
    'moveGuard': 'Bool', 'moveTransposes': 'Bool', 'ravelMovesFirst': 'Bool', 'ravelCollisionRaises': 'Bool',
    'findUnusedPrefixFirst': 'Bool', 'findUnusedSeparator': 'String', 'findUnusedStart': 'Int',
}
DOC = {
    'moveNewOrder': 'move_dimensions_to_end: the order handed to `transpose`',
    'moveGuard': 'move_dimensions_to_end raises when `dimensions` is not a subset of the array\'s dimensions, before anything else',
    'moveTransposes': 'move_dimensions_to_end returns `data_array.transpose(*new_order)` unless the order is already right (then a shallow copy)',
    'ravelMovesFirst': 'ravel_dimensions starts with `data_array = move_dimensions_to_end(data_array, dimensions)`',
    'ravelNewShape': 'ravel_dimensions: the shape handed to `reshape` (of the moved array)',
    'ravelKeptDims': 'ravel_dimensions: the tuple the requested linear name is tested against',
    'ravelCollisionRaises': 'ravel_dimensions raises when the requested linear name is among the kept dimensions',
    'ravelDefaultPrefix': 'ravel_dimensions: the prefix of the default linear dimension name',
    'ravelNewDims': 'ravel_dimensions: the `dims=` of the result',
    'windNewDims': 'wind_dimension: the `dims=` of the result', 'windNewShape': 'wind_dimension: the shape handed to `reshape`',
    'spliceBody': 'splice_tuple(t, index, values)',
    'findUnusedPrefixFirst': 'find_unused_dimension returns the bare prefix when it is free, else the first free candidate',
    'findUnusedSeparator': 'find_unused_dimension: candidates are `prefix + separator + k`',
    'findUnusedStart': 'find_unused_dimension: k starts here',
}


def render() -> str:
    terms: dict = {}
    for f in (move_terms, ravel_terms, wind_terms, splice_terms, find_unused_terms):
        try:
            terms.update(f())
        except Exception as e:  # noqa: BLE001 - never make the run fail
            terms[f'failed_{f.__name__}'] = f'(.unsupported {lean_str(type(e).__name__ + ": " + str(e)[:150])})'
    # every name the theorems mention must exist, whatever happened above
    for k in DOC:
        if k not in terms:
            terms[k] = {'Bool': 'false', 'String': '"?"', 'Int': '(-1)'}.get(TYPES.get(k, 'T'), '(.unsupported "not translated")')
    lines = ['import EmsModel.Core.DimsSrc', '/-',
             'GENERATED by harness/trans_dimssrc.py from the source text of the working tree under check. Do not edit.',
             '-/', 'namespace Ems.Gen.DimsSrc', 'open Ems.DimsSrc', '']
    complaints = []
    for k, v in terms.items():
        ty = TYPES.get(k, 'T')
        lines.append(f'/-- {DOC.get(k, k)} -/')
        lines.append(f'def {k} : {ty} :=\n  {v}')
        lines.append('')
        if '.unsupported' in v:
            complaints.append(k)
    lines.append('def complaints : List String := [' + ', '.join(lean_str(c) for c in complaints) + ']')
    lines += ['', 'end Ems.Gen.DimsSrc']
    return '\n'.join(lines) + '\n'


if __name__ == '__main__':
    import sys
    sys.path.insert(0, str(VERIF))
    print(render())
