"""Regenerate the seeded-change table of DESIGN.md section 12 from seeded/*/meta.json."""
import glob
import json
import pathlib

VERIF = pathlib.Path(__file__).resolve().parent.parent
rows = []
for f in sorted(glob.glob(str(VERIF / 'seeded' / '*' / 'meta.json'))):
    m = json.load(open(f))
    off = (m.get('check_against_repo') or [])
    files = ', '.join(sorted({x.split('|')[0].strip().replace('src/emsarray/', '') for x in m.get('files_touched', [])}))
    verdicts = '; '.join(
        f"{r['property']}: " + ('**missed**' if r.get('exit') == 0 else
                                (r.get('signature') or r.get('kind') or f"exit {r.get('exit')}")) for r in off) or 'not run'
    rows.append(f"| {m['id']} | {m['property']} | {files} | {'yes' if m['confirmed']['valid'] else 'NO'} | {verdicts} |")
table = ('| Seed | Property | Files touched | Confirmed (demo, tests) | Verdict of the registered quick check on /repo with the change applied |\n'
         '|---|---|---|---|---|\n' + '\n'.join(rows))
p = VERIF / 'DESIGN.md'
s = p.read_text()
a = s.index('<!-- SEEDED-TABLE-BEGIN -->') + len('<!-- SEEDED-TABLE-BEGIN -->')
b = s.index('<!-- SEEDED-TABLE-END -->')
p.write_text(s[:a] + '\n' + table + '\n' + s[b:])
print(len(rows), 'rows')
