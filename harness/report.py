"""Regenerate the seeded-change table of DESIGN.md section 12 from seeded/*/meta.json."""
import glob
import json
import pathlib

VERIF = pathlib.Path(__file__).resolve().parent.parent
rows = []
for f in sorted(glob.glob(str(VERIF / 'seeded' / '*' / 'meta.json'))):
    m = json.load(open(f))
    off = (m.get('check_against_repo') or [])
    files = ', '.join(sorted({x.split('|')[0].strip().replace('src/emsarray/', '') for x in m.get('files_touched', [])}))
    verdicts = '; '.join(
        f"{r['property']}: " + ('**missed**' if r.get('exit') == 0 else
                                (r.get('signature') or r.get('kind') or f"exit {r.get('exit')}")) for r in off)
    if not verdicts:
        # not applied to /repo itself: the verdict of the same quick check in a private copy of /verif on a scratch worktree
        iso = m.get('check_in_isolated_copy')
        if iso:
            verdicts = (f"{iso['property']}: " + ('**missed**' if iso.get('exit') == 0 else
                        (iso.get('signature') or iso.get('kind') or f"exit {iso.get('exit')}")) + ' (in a private copy, scratch worktree)')
        else:
            verdicts = 'not run'
    rows.append(f"| {m['id']} | {m['property']} | {files} | {'yes' if m['confirmed']['valid'] else 'NO'} | {verdicts} |")
table = ('| Seed | Property | Files touched | Confirmed (demo, tests) | Verdict of the registered quick check on /repo with the change applied |\n'
         '|---|---|---|---|---|\n' + '\n'.join(rows))
p = VERIF / 'DESIGN.md'
s = p.read_text()
a = s.index('<!-- SEEDED-TABLE-BEGIN -->') + len('<!-- SEEDED-TABLE-BEGIN -->')
b = s.index('<!-- SEEDED-TABLE-END -->')
p.write_text(s[:a] + '\n' + table + '\n' + s[b:])
print(len(rows), 'rows')
