"""Additional source translators (T), one module per topic: harness/trans_<topic>.py.

Each such module reads the *source text / AST* of emsarray functions from the working tree under check on every run and
re-emits them as Lean terms in lean/EmsModel/Gen/<Topic>.lean; the theorems `*_generated` / `*_spec` of the property files
are about those generated terms.  A module exposes

    OUT: pathlib.Path          the generated Lean file
    TARGET: str                its Lean module name (EmsModel.Gen.<Topic>)
    render() -> str            the complete text of the generated file for the code as it is now; it must never raise for
                               any source text: what it cannot translate is emitted as an `unknown` / `unsupported` term
                               that no theorem accepts (so the proof obligation breaks, not the run)

Modules are discovered by file name, so adding a translator touches no shared file.
"""
from __future__ import annotations

import fcntl
import importlib
import pathlib
import sys

VERIF = pathlib.Path(__file__).resolve().parent.parent


def modules():
    out = []
    for p in sorted((VERIF / 'harness').glob('trans_*.py')):
        try:
            out.append(importlib.import_module(f'harness.{p.stem}'))
        except Exception as e:  # noqa: BLE001 - one broken translator must not take the other properties' checks down
            print(f'NOTE: translator {p.name} cannot be imported ({type(e).__name__}: {e}); its generated file is left as it is',
                  file=sys.stderr)
    return out


def write_if_changed(out: pathlib.Path, text: str) -> bool:
    out.parent.mkdir(parents=True, exist_ok=True)
    with open(VERIF / 'lean' / '.lock', 'w') as lock:
        fcntl.flock(lock, fcntl.LOCK_EX)
        try:
            if out.exists() and out.read_text() == text:
                return False
            tmp = out.with_suffix('.lean.tmp')
            tmp.write_text(text)
            tmp.replace(out)
            return True
        finally:
            fcntl.flock(lock, fcntl.LOCK_UN)


def regenerate() -> list:
    """Regenerate every Gen/<Topic>.lean; returns the Lean module names.  A translator that raises (it must not) has its
    generated file replaced by one that defines nothing, so the theorems about its terms no longer build - a broken proof
    obligation of the properties that rest on it, not an infrastructure failure of every check."""
    targets = []
    for m in modules():
        try:
            text = m.render()
        except Exception as e:  # noqa: BLE001
            msg = f'{type(e).__name__}: {e}'.replace('"', "'").replace('\\', '/').replace('\n', ' ')[:300]
            print(f'NOTE: translator {m.__name__} raised ({msg}); its generated file now defines nothing', file=sys.stderr)
            text = ('/- GENERATED: the translator raised, nothing could be translated. -/\n'
                    f'def Ems.Gen.translatorFailed_{m.__name__.split(".")[-1]} : String := "{msg}"\n')
        write_if_changed(m.OUT, text)
        targets.append(m.TARGET)
    return targets


if __name__ == '__main__':
    import sys
    sys.path.insert(0, str(VERIF))
    print(regenerate())
