"""Additional source translators (T), one module per topic: harness/trans_<topic>.py.

Each such module reads the *source text / AST* of emsarray functions from the working tree under check on every run and
re-emits them as Lean terms in lean/EmsModel/Gen/<Topic>.lean; the theorems `*_generated` / `*_spec` of the property files
are about those generated terms.  A module exposes

    OUT: pathlib.Path          the generated Lean file
    TARGET: str                its Lean module name (EmsModel.Gen.<Topic>)
    render() -> str            the complete text of the generated file for the code as it is now; it must never raise for
                               any source text: what it cannot translate is emitted as an `unknown` / `unsupported` term
                               that no theorem accepts (so the proof obligation breaks, not the run)

Modules are discovered by file name, so adding a translator touches no shared file.
"""
from __future__ import annotations

import fcntl
import importlib
import pathlib

VERIF = pathlib.Path(__file__).resolve().parent.parent


def modules():
    out = []
    for p in sorted((VERIF / 'harness').glob('trans_*.py')):
        out.append(importlib.import_module(f'harness.{p.stem}'))
    return out


def write_if_changed(out: pathlib.Path, text: str) -> bool:
    out.parent.mkdir(parents=True, exist_ok=True)
    with open(VERIF / 'lean' / '.lock', 'w') as lock:
        fcntl.flock(lock, fcntl.LOCK_EX)
        try:
            if out.exists() and out.read_text() == text:
                return False
            tmp = out.with_suffix('.lean.tmp')
            tmp.write_text(text)
            tmp.replace(out)
            return True
        finally:
            fcntl.flock(lock, fcntl.LOCK_UN)


def regenerate() -> list:
    """Regenerate every Gen/<Topic>.lean; returns the Lean module names."""
    targets = []
    for m in modules():
        write_if_changed(m.OUT, m.render())
        targets.append(m.TARGET)
    return targets


if __name__ == '__main__':
    import sys
    sys.path.insert(0, str(VERIF))
    print(regenerate())
