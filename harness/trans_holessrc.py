"""
T — `utils.make_polygons_with_holes`, read from its source text on every run.

Every structured-grid convention ends its polygon pipeline in this function: rows of the `(n, m, 2)` point array with a
missing value get no polygon and keep their slot.  Its four statements are read from the AST (locals followed by data flow)
into the record `Ems.HolesSrc.Src` (lean/EmsModel/Core/HolesSrc.lean) in lean/EmsModel/Gen/HolesSrc.lean;
`Props/C02Src.lean` proves that, evaluated, it is `Ems.pointsToPolys`, which the pipeline theorems of C06 / C02 end in.
Trusted: `shapely.polygons(coords, indices=rows, out=out)` writes ring k to `out[rows[k]]` and leaves the rest.
"""
from __future__ import annotations

import ast
import inspect
import pathlib
import textwrap

VERIF = pathlib.Path(__file__).resolve().parent.parent
OUT = VERIF / 'lean' / 'EmsModel' / 'Gen' / 'HolesSrc.lean'
TARGET = 'EmsModel.Gen.HolesSrc'


def read() -> dict:
    from emsarray import utils
    out = {'allocAxis': None, 'finiteAxes': None, 'polygonsAtRows': False, 'returnsOut': False}
    fn = ast.parse(textwrap.dedent(inspect.getsource(utils.make_polygons_with_holes))).body[0]
    body = [s for s in fn.body
            if not (isinstance(s, ast.Expr) and isinstance(s.value, ast.Constant) and isinstance(s.value.value, str))]
    params = [a.arg for a in fn.args.args + fn.args.kwonlyargs]
    if len(params) != 2:
        return out
    pts, outp = params
    env: dict = {}

    def rows_axes(node):
        """AXES if node is numpy.flatnonzero(numpy.isfinite(points).all(axis=AXES)) (or a local bound to it)"""
        if isinstance(node, ast.Name) and node.id in env:
            return env[node.id]
        if isinstance(node, ast.Call) and ast.unparse(node.func) == 'numpy.flatnonzero' and len(node.args) == 1 and not node.keywords:
            a = node.args[0]
            if isinstance(a, ast.Call) and isinstance(a.func, ast.Attribute) and a.func.attr == 'all' and not a.args \
                    and len(a.keywords) == 1 and a.keywords[0].arg == 'axis' \
                    and ast.unparse(a.func.value) == f'numpy.isfinite({pts})':
                ax = a.keywords[0].value
                if isinstance(ax, ast.Tuple) and all(isinstance(e, ast.Constant) and isinstance(e.value, int) and e.value >= 0
                                                     for e in ax.elts):
                    return [e.value for e in ax.elts]
                if isinstance(ax, ast.Constant) and isinstance(ax.value, int) and ax.value >= 0:
                    return [ax.value]
        return None

    for s in body:
        if isinstance(s, ast.If) and ast.unparse(s.test) == f'{outp} is None' and not s.orelse and len(s.body) == 1 \
                and isinstance(s.body[0], ast.Assign) and ast.unparse(s.body[0].targets[0]) == outp:
            v = s.body[0].value
            if isinstance(v, ast.Call) and ast.unparse(v.func) == 'numpy.full' and len(v.args) == 2 \
                    and ast.unparse(v.args[1]) == 'None' \
                    and {k.arg: ast.unparse(k.value) for k in v.keywords} == {'dtype': 'numpy.object_'}:
                sh = v.args[0]
                if isinstance(sh, ast.Subscript) and ast.unparse(sh.value) == f'{pts}.shape' \
                        and isinstance(sh.slice, ast.Constant) and isinstance(sh.slice.value, int) and sh.slice.value >= 0:
                    out['allocAxis'] = sh.slice.value
        elif isinstance(s, ast.Assign) and len(s.targets) == 1 and isinstance(s.targets[0], ast.Name):
            ax = rows_axes(s.value)
            if ax is not None:
                env[s.targets[0].id] = ax
        elif isinstance(s, ast.Expr) and isinstance(s.value, ast.Call) and ast.unparse(s.value.func) == 'shapely.polygons':
            c = s.value
            kw = {k.arg: k.value for k in c.keywords}
            if len(c.args) == 1 and set(kw) == {'indices', 'out'} and ast.unparse(kw['out']) == outp \
                    and isinstance(c.args[0], ast.Subscript) and ast.unparse(c.args[0].value) == pts:
                a1, a2 = rows_axes(c.args[0].slice), rows_axes(kw['indices'])
                if a1 is not None and a1 == a2 and ast.unparse(c.args[0].slice) == ast.unparse(kw['indices']):
                    out['finiteAxes'] = a1
                    out['polygonsAtRows'] = True
        elif isinstance(s, ast.Return) and s is body[-1] and ast.unparse(s.value) == outp:
            out['returnsOut'] = True
    return out


def render() -> str:
    try:
        d = read()
    except Exception:  # noqa: BLE001 - never make the run fail
        d = {'allocAxis': None, 'finiteAxes': None, 'polygonsAtRows': False, 'returnsOut': False}
    b = lambda x: 'true' if x else 'false'  # noqa: E731
    opt = lambda x: 'none' if x is None else f'(some {x})'  # noqa: E731
    axes = 'none' if d['finiteAxes'] is None else '(some [' + ', '.join(str(a) for a in d['finiteAxes']) + '])'
    return '\n'.join([
        'import EmsModel.Core.HolesSrc', '/-',
        'GENERATED by harness/trans_holessrc.py from the source text of the working tree under check. Do not edit.',
        '-/', 'namespace Ems.Gen.HolesSrc', '',
        '/-- `utils.make_polygons_with_holes` -/',
        'def holesSrc : Ems.HolesSrc.Src :=',
        f'  {{ allocAxis := {opt(d["allocAxis"])}, finiteAxes := {axes}, polygonsAtRows := {b(d["polygonsAtRows"])},',
        f'    returnsOut := {b(d["returnsOut"])} }}', '',
        'end Ems.Gen.HolesSrc', ''])


if __name__ == '__main__':
    import sys
    sys.path.insert(0, str(VERIF))
    print(render())
