"""
T — the index conversion functions, translated from their source text on every run.

  DimensionConvention.ravel_index / wind_index / grid_size        (conventions/_base.py)
  CFGrid.pack_index / unpack_index                                (conventions/grid.py)
  ArakawaC.pack_index / unpack_index                              (conventions/arakawa_c.py)
  UGrid.pack_index / unpack_index                                 (conventions/ugrid.py)

are read with `inspect.getsource` from the emsarray that is being checked, their straight-line bodies are executed
symbolically (locals inlined, so renaming one is invisible; docstrings, annotations and `cast(...)` dropped) and emitted as
terms of `Ems.IdxSrc.IdxTerm` (lean/EmsModel/Core/IndexSrc.lean) into lean/EmsModel/Gen/IndexSrc.lean.
`Props/C01Src.lean` proves that the generated terms compute `Conv.ravelIndex`, `Conv.windIndex` and `size` for every
dataset shape and every index.  What cannot be rendered becomes `IdxTerm.unsupported "<python>"`, which evaluates to
nothing, so the theorems about that function no longer hold (the run itself never fails here).

Meaning given to the Python constructs (trusted, and tied to the running code by transitivity: generated term = model
function by theorem, model function = implementation by the C01 correspondence):
  * `cast(T, x)` is `x`; `int(x)` of a numpy integer and `tuple(map(int, xs))` of a tuple of numpy integers are the
    identity on the modelled values;
  * `numpy.ravel_multi_index(a, b)` / `numpy.unravel_index(a, b)` **with no further argument** are `Ems.ravel` /
    `Ems.unravel` (C order, mode 'raise'); any keyword (`mode=`, `order=`) makes the call `unsupported`;
  * `if x is None: x = self.default_grid_kind` is `orDefaultKind x`.
"""
from __future__ import annotations

import ast
import inspect
import pathlib
import textwrap

VERIF = pathlib.Path(__file__).resolve().parent.parent
OUT = VERIF / 'lean' / 'EmsModel' / 'Gen' / 'IndexSrc.lean'
TARGET = 'EmsModel.Gen.IndexSrc'


def lean_str(s: str) -> str:
    return '"' + s.replace('\\', '\\\\').replace('"', '\\"').replace('\n', '\\n') + '"'


class Unsupported(Exception):
    pass


def _uns(node) -> str:
    try:
        text = ast.unparse(node)
    except Exception:  # noqa: BLE001
        text = repr(node)
    return f'(.unsupported {lean_str(text[:200])})'


def _is_attr_chain(node, *names) -> bool:
    """node is `a.b.c` with exactly these names"""
    parts = []
    while isinstance(node, ast.Attribute):
        parts.append(node.attr)
        node = node.value
    if isinstance(node, ast.Name):
        parts.append(node.id)
    else:
        return False
    return tuple(reversed(parts)) == names


def expr(node, env: dict, params: set) -> str:
    """Lean text of the IdxTerm for a Python expression; locals are looked up in env."""
    if isinstance(node, ast.Name):
        if node.id in env:
            return env[node.id]
        if node.id in params:
            return f'(.param {lean_str(node.id)})'
        return _uns(node)
    if isinstance(node, ast.Attribute):
        # CFGridKind.face, ArakawaCGridKind.left, UGridKind.node …: a member of a grid-kind enumeration
        if isinstance(node.value, ast.Name) and node.value.id.endswith('GridKind') or \
                isinstance(node.value, ast.Name) and node.value.id == 'UGridKind':
            return f'(.kindConst {lean_str(node.attr)})'
        return _uns(node)
    if isinstance(node, ast.Subscript):
        sl = node.slice
        # self.grid_shape[k]
        if _is_attr_chain(node.value, 'self', 'grid_shape'):
            return f'(.gridShape {expr(sl, env, params)})'
        if isinstance(sl, ast.Constant) and isinstance(sl.value, int) and not isinstance(sl.value, bool) and sl.value >= 0:
            return f'(.item {expr(node.value, env, params)} {sl.value})'
        if isinstance(sl, ast.Slice) and sl.upper is None and sl.step is None and \
                isinstance(sl.lower, ast.Constant) and isinstance(sl.lower.value, int) and sl.lower.value >= 0:
            return f'(.sliceFrom {expr(node.value, env, params)} {sl.lower.value})'
        return _uns(node)
    if isinstance(node, ast.Tuple):
        out = '.tnil'
        for el in reversed(node.elts):
            if isinstance(el, ast.Starred):
                out = f'(.tcons true {expr(el.value, env, params)} {out})'
            else:
                out = f'(.tcons false {expr(el, env, params)} {out})'
        return out if out != '.tnil' else 'IdxTerm.tnil'
    if isinstance(node, ast.Call):
        f = node.func
        if node.keywords:
            return _uns(node)
        args = node.args
        if any(isinstance(a, ast.Starred) for a in args):
            return _uns(node)
        # cast(T, x) -> x
        if isinstance(f, ast.Name) and f.id == 'cast' and len(args) == 2:
            return expr(args[1], env, params)
        # int(x) -> x
        if isinstance(f, ast.Name) and f.id == 'int' and len(args) == 1:
            return expr(args[0], env, params)
        # tuple(map(int, x)) -> x ; tuple(x) -> x
        if isinstance(f, ast.Name) and f.id == 'tuple' and len(args) == 1:
            a = args[0]
            if isinstance(a, ast.Call) and isinstance(a.func, ast.Name) and a.func.id == 'map' and not a.keywords \
                    and len(a.args) == 2 and isinstance(a.args[0], ast.Name) and a.args[0].id == 'int':
                return expr(a.args[1], env, params)
            return _uns(node)
        if _is_attr_chain(f, 'numpy', 'ravel_multi_index') and len(args) == 2:
            return f'(.ravelMulti {expr(args[0], env, params)} {expr(args[1], env, params)})'
        if _is_attr_chain(f, 'numpy', 'unravel_index') and len(args) == 2:
            return f'(.unravelIndex {expr(args[0], env, params)} {expr(args[1], env, params)})'
        if _is_attr_chain(f, 'numpy', 'prod') and len(args) == 1:
            return f'(.prod {expr(args[0], env, params)})'
        if _is_attr_chain(f, 'self', 'unpack_index') and len(args) == 1:
            return f'(.unpackIndex {expr(args[0], env, params)})'
        if _is_attr_chain(f, 'self', 'pack_index') and len(args) == 2:
            return f'(.packIndex {expr(args[0], env, params)} {expr(args[1], env, params)})'
        return _uns(node)
    return _uns(node)


def _is_docstring(stmt) -> bool:
    return isinstance(stmt, ast.Expr) and isinstance(stmt.value, ast.Constant) and isinstance(stmt.value.value, str)


def body_term(fn: ast.FunctionDef) -> str:
    """The term a straight-line function returns."""
    params = {a.arg for a in fn.args.args + fn.args.kwonlyargs if a.arg != 'self'}
    env: dict = {}
    for stmt in fn.body:
        if _is_docstring(stmt) or isinstance(stmt, ast.Pass):
            continue
        # logging has no effect on what is computed
        if isinstance(stmt, ast.Expr) and isinstance(stmt.value, ast.Call) and isinstance(stmt.value.func, ast.Attribute) \
                and isinstance(stmt.value.func.value, ast.Name) and stmt.value.func.value.id in ('logger', 'logging'):
            continue
        if isinstance(stmt, ast.Assign) and len(stmt.targets) == 1:
            tgt = stmt.targets[0]
            if isinstance(tgt, ast.Name):
                env[tgt.id] = expr(stmt.value, env, params)
                continue
            if isinstance(tgt, ast.Tuple) and all(isinstance(e, ast.Name) for e in tgt.elts):
                rhs = expr(stmt.value, env, params)
                for i, e in enumerate(tgt.elts):
                    env[e.id] = f'(.item {rhs} {i})'
                continue
            return _uns(stmt)
        if isinstance(stmt, ast.AnnAssign) and isinstance(stmt.target, ast.Name) and stmt.value is not None:
            env[stmt.target.id] = expr(stmt.value, env, params)
            continue
        # if x is None: x = self.default_grid_kind
        if isinstance(stmt, ast.If) and not stmt.orelse and len(stmt.body) == 1 \
                and isinstance(stmt.test, ast.Compare) and len(stmt.test.ops) == 1 \
                and isinstance(stmt.test.ops[0], ast.Is) and isinstance(stmt.test.left, ast.Name) \
                and isinstance(stmt.test.comparators[0], ast.Constant) and stmt.test.comparators[0].value is None:
            name = stmt.test.left.id
            inner = stmt.body[0]
            if isinstance(inner, ast.Assign) and len(inner.targets) == 1 and isinstance(inner.targets[0], ast.Name) \
                    and inner.targets[0].id == name and _is_attr_chain(inner.value, 'self', 'default_grid_kind'):
                cur = env.get(name, f'(.param {lean_str(name)})' if name in params else None)
                if cur is None:
                    return _uns(stmt)
                env[name] = f'(.orDefaultKind {cur})'
                continue
            return _uns(stmt)
        if isinstance(stmt, ast.Return) and stmt.value is not None:
            return expr(stmt.value, env, params)
        return _uns(stmt)
    return '(.unsupported "function body has no return")'


def function_term(cls, name: str) -> str:
    try:
        fn = getattr(cls, name)
        if isinstance(fn, property):
            fn = fn.fget
        fn = getattr(fn, 'func', fn)      # cached_property
        src = textwrap.dedent(inspect.getsource(fn))
        tree = ast.parse(src)
        node = tree.body[0]
        if not isinstance(node, ast.FunctionDef):
            return '(.unsupported "not a function definition")'
        return body_term(node)
    except Exception as e:  # noqa: BLE001 - a translator never makes the run fail
        return f'(.unsupported {lean_str("translator: " + type(e).__name__ + ": " + str(e)[:150])})'


def grid_size_term(cls) -> str:
    """`grid_size` is `{grid_kind: int(numpy.prod(shape)) for grid_kind, shape in self.grid_shape.items()}`:
    the value expression of the comprehension, as a function of `shape`; the comprehension must run over
    `self.grid_shape.items()` with the key passed through."""
    try:
        fn = cls.grid_size
        fn = getattr(fn, 'func', None) or getattr(fn, 'fget', None) or fn
        node = ast.parse(textwrap.dedent(inspect.getsource(fn))).body[0]
        stmts = [s for s in node.body if not _is_docstring(s)]
        if len(stmts) == 1 and isinstance(stmts[0], ast.Return) and isinstance(stmts[0].value, ast.DictComp):
            dc = stmts[0].value
            if len(dc.generators) == 1 and not dc.generators[0].ifs:
                g = dc.generators[0]
                if isinstance(g.target, ast.Tuple) and len(g.target.elts) == 2 \
                        and all(isinstance(e, ast.Name) for e in g.target.elts) \
                        and isinstance(g.iter, ast.Call) and not g.iter.args and not g.iter.keywords \
                        and _is_attr_chain(g.iter.func, 'self', 'grid_shape', 'items') \
                        and isinstance(dc.key, ast.Name) and dc.key.id == g.target.elts[0].id:
                    shape_name = g.target.elts[1].id
                    return expr(dc.value, {shape_name: '(.param "shape")'}, set())
        return _uns(node)
    except Exception as e:  # noqa: BLE001
        return f'(.unsupported {lean_str("translator: " + type(e).__name__ + ": " + str(e)[:150])})'


def collect() -> dict:
    from emsarray.conventions import _base, arakawa_c, grid, ugrid
    D = _base.DimensionConvention
    return {
        'ravelIndexBody': function_term(D, 'ravel_index'),
        'windIndexBody': function_term(D, 'wind_index'),
        'gridSizeEntry': grid_size_term(D),
        'cfPack': function_term(grid.CFGrid, 'pack_index'),
        'cfUnpack': function_term(grid.CFGrid, 'unpack_index'),
        'arakawaPack': function_term(arakawa_c.ArakawaC, 'pack_index'),
        'arakawaUnpack': function_term(arakawa_c.ArakawaC, 'unpack_index'),
        'ugridPack': function_term(ugrid.UGrid, 'pack_index'),
        'ugridUnpack': function_term(ugrid.UGrid, 'unpack_index'),
    }


def render() -> str:
    try:
        terms = collect()
    except Exception as e:  # noqa: BLE001
        terms = {k: f'(.unsupported {lean_str("translator: " + str(e)[:150])})' for k in (
            'ravelIndexBody', 'windIndexBody', 'gridSizeEntry', 'cfPack', 'cfUnpack', 'arakawaPack', 'arakawaUnpack',
            'ugridPack', 'ugridUnpack')}
    lines = [
        'import EmsModel.Core.IndexSrc',
        '/-',
        'GENERATED by harness/trans_indexsrc.py from the source text of the working tree under check. Do not edit.',
        'The index conversion functions of emsarray as terms of `Ems.IdxSrc.IdxTerm`.',
        '-/',
        'namespace Ems.Gen.IndexSrc',
        'open Ems.IdxSrc',
        '',
    ]
    doc = {
        'ravelIndexBody': 'DimensionConvention.ravel_index(index)',
        'windIndexBody': 'DimensionConvention.wind_index(linear_index, grid_kind=None)',
        'gridSizeEntry': 'the value of DimensionConvention.grid_size for a grid of shape `shape`',
        'cfPack': 'CFGrid.pack_index(grid_kind, indexes)', 'cfUnpack': 'CFGrid.unpack_index(index)',
        'arakawaPack': 'ArakawaC.pack_index(grid_kind, indexes)', 'arakawaUnpack': 'ArakawaC.unpack_index(index)',
        'ugridPack': 'UGrid.pack_index(grid_kind, indexes)', 'ugridUnpack': 'UGrid.unpack_index(index)',
    }
    complaints = []
    for name, term in terms.items():
        lines.append(f'/-- `{doc[name]}` -/')
        lines.append(f'def {name} : IdxTerm :=\n  {term}')
        lines.append('')
        if '.unsupported' in term:
            complaints.append(name)
    lines.append('/-- functions with a construct the translator could not render -/')
    lines.append('def complaints : List String := [' + ', '.join(lean_str(c) for c in complaints) + ']')
    lines.append('')
    lines.append('end Ems.Gen.IndexSrc')
    return '\n'.join(lines) + '\n'


if __name__ == '__main__':
    import sys
    sys.path.insert(0, str(VERIF))
    print(render())
