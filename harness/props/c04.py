"""C04 — point lookup returns exactly the lowest-indexed intersecting cell."""
from __future__ import annotations

import random
from fractions import Fraction

import shapely

from harness import util
from harness.gen import datasets as G
from harness.gen import c04_extra as X
from harness.gen import c04_extra6 as X6     # round 6
from harness.gen import geomspec as S
from harness.props.c01 import native_str

ID = 'C04'
MODULE = 'EmsModel.Props.C04'
DRIVER = 'C04'
# theorems about what harness/trans_lookupsrc.py reads from the source of get_index_for_point
EXTRA_MODULES = ['EmsModel.Props.C04Src']
REQUIRED = ['Ems.C04.lookup_generated', 'Ems.C04.lookup_generated_order_independent', 'Ems.C04.lookup_generated_none_iff',
            'Ems.C04.lookup_none_iff', 'Ems.C04.lookup_least', 'Ems.C04.lookup_coherent',
            'Ems.C04.lookup_order_independent', 'Ems.C04.firstHit_spec', 'Ems.C04.mem_hitSet',
            'Ems.C04.rect_contains_iff', 'Ems.C04.cf1d_hit_iff', 'Ems.C04.cf1d_hits_eq',
            'Ems.C04.cf1d_lookup_spec', 'Ems.C04.cf1d_lookup_none_iff']
# ---- round 6: native index of the cell found / histories on one convention object (Props/C04Hist.lean)
EXTRA_MODULES = list(globals().get('EXTRA_MODULES', [])) + ['EmsModel.Props.C04Hist']
REQUIRED += ['Ems.C04.lookup_native_rowmajor', 'Ems.C04.lookup_native_rowmajor_2d',
             'Ems.C04.lookup_native_not_other_kind', 'Ems.C04.session_reply_history_independent',
             'Ems.C04.session_lookup_history_independent']
RULE = ('datasets of every convention with holes, sheared lattices, concave / collinear UGRID faces; points of the '
        'classes: cell interiors, midpoints of (shared) edges, (shared) vertices, hole interiors, just outside the '
        'hull (half a lattice unit), far outside. Walked per convention (not drawn): overlapping cells (CF 1-D bounds '
        "wider than the spacing, 'gaps' bounds, UGRID with one face repeated half a diagonal away, copy at a random "
        'position of the face list) with the points that lie ON the boundary of one cell and strictly INSIDE another; '
        'the place on the globe (dataset translated in longitude: reaching beyond 180 E in the 0..360 spelling, wholly '
        'beyond it, around / beyond 180 W) with other spellings of a cell point (x + 360, x - 360, mirrored longitude, '
        'latitude and longitude exchanged), which hit a cell only if a cell polygon really contains them; '
        'points a hair (2^-30 / 2^-40 of a degree) off a vertex / an edge midpoint of two cells of every dataset, to '
        'either side (just outside the hull, or strictly inside one cell beside an edge / vertex it shares): "contains '
        'or touches" is exact, nearness does not count. Histories on one dataset object (10 per quick run, every '
        'convention): a first convention is constructed on the object and asked two lookups, then a second instance '
        'of the same class is constructed on the same object and examined with every point class - either the object '
        'carries two grids under different names (CF 1-D / 2-D, latitude= / longitude= given), or its geometry '
        'variables are overwritten in place (dataset translated) in between; the answer speaks of the examined '
        "convention's own cells. "
        'All points have dyadic coordinates, so GEOS predicates are exact. '
        'Compared with the model: get_index_for_point (linear index, native index, polygon ring) where the model uses '
        'its own exact point-in-polygon test, and the sorted STRtree hit list vs the exact hit set. Oracle: brute '
        'force over all cells with poly.intersects(pt), minimum index; select_point raises iff no hit. '
        'Non-trivial: the hit set has >= 2 cells, or the point lies in a hole / outside; distinct by (recipe, point). '
        'Round 6 - "linear index, native index and polygon describe the same cell" judged against the generator: the '
        "native index must be the default kind's row-major position of the linear index in the grid's declared (y, x) "
        'shape (Built.grids), on every case. Extra cases from a stream of their own (25 per quick run, every '
        'convention, UGRID meshes with as many faces as nodes on two rounds of three): the dataset lists its dimensions '
        'in a drawn order (leading tagged variables cellno_<kind> stored x-major / other kinds first; select_point '
        'must yield the tag of the cell found), and the convention object was asked earlier questions before the '
        'first lookup (wind_index / ravel_index / select_index of every grid kind, the other kinds first or only). '
        'One session per case (the questions, then a lookup) is replayed in the model (Ems.lookupSession).')
TRUSTED = ['GEOS point-in-polygon predicate on exactly representable coordinates; STRtree.query contract']
ASSUMPTIONS = ['query points are shapely Points with finite coordinates']


def pt_str(p) -> str:
    return f'{util.rat_str(p[0])},{util.rat_str(p[1])}'


def points_for(rng, kept, raw, n_extra=6) -> list:
    pts = []
    F = Fraction
    cells = [q for q in kept if q is not None]
    if not cells:
        return [(F(0), F(0), 'far')]
    for q in rng.sample(cells, min(len(cells), 4)):
        k = len(q)
        # a vertex, an edge midpoint, an interior-ish point (mean of three consecutive vertices)
        i = rng.randrange(k)
        pts.append((q[i][0], q[i][1], 'vertex'))
        a, b = q[i], q[(i + 1) % k]
        pts.append(((a[0] + b[0]) / 2, (a[1] + b[1]) / 2, 'edge'))
        cx, cy = sum(p[0] for p in q) / k, sum(p[1] for p in q) / k
        if k in (3, 4):
            # keep dyadic: mean of 4 is dyadic; for triangles use a weighted point
            if k == 3:
                cx, cy = (2 * q[0][0] + q[1][0] + q[2][0]) / 4, (2 * q[0][1] + q[1][1] + q[2][1]) / 4
            pts.append((cx, cy, 'interior'))
        else:
            a, b, c = q[i], q[(i + 1) % k], q[(i + 2) % k]
            pts.append(((2 * b[0] + a[0] + c[0]) / 4, (2 * b[1] + a[1] + c[1]) / 4, 'near-vertex'))
    holes = [q for q, kq in zip(raw, kept) if kq is None and q is not None]
    for q in holes[:2]:
        k = len(q)
        pts.append((sum(p[0] for p in q) / k if k == 4 else q[0][0], sum(p[1] for p in q) / k if k == 4 else q[0][1], 'hole'))
    xs = [p[0] for q in cells for p in q]
    ys = [p[1] for q in cells for p in q]
    pts.append((min(xs) - F(1, 2), ys[0], 'just-outside'))
    pts.append((xs[0], max(ys) + F(1, 2), 'just-outside'))
    pts.append((max(xs) + 1000, max(ys) + 1000, 'far'))
    for _ in range(n_extra):
        pts.append((F(rng.randint(int(min(xs)) * 2 - 2, int(max(xs)) * 2 + 2), 2),
                    F(rng.randint(int(min(ys)) * 2 - 2, int(max(ys)) * 2 + 2), 2), 'lattice'))
    return pts


def examine(ctx, recipe, items) -> None:
    built = G.build(recipe)
    c = G.bind(built)
    probe(ctx, built, c, {'recipe': recipe}, items)


def examine_shared(ctx, recipe, shared, items) -> None:
    """the convention of `recipe`, made on a dataset object that another convention was made on and used before"""
    built, c = X.shared_pair(G, recipe, shared)
    ctx.count(f"shared-dataset:{shared['mode']}:{built.conv}")
    probe(ctx, built, c, {'recipe': recipe, 'shared': shared}, items, light=True)


def probe(ctx, built, c, desc0, items, light=False, rng=None) -> None:
    """every point class against convention `c`, whose ground truth is `built`"""
    rng = rng or ctx.rng          # (round 6: the extra cases draw from a stream of their own)
    recipe = built.recipe
    raw = built.polys
    vbits = S.geos_valid_bits(raw)
    kept = [q if (q is not None and vbits[n] == '1') else None for n, q in enumerate(raw)]
    polys = c.polygons
    rings = S.rings_str(kept)
    spec = built.grids_spec()
    tree = c.strtree
    if recipe.get('placed'):
        xs = [p[0] for q in kept if q for p in q]
        ctx.count('placed:' + ('none' if not xs else 'reaches-beyond-180E' if max(xs) > 180 else
                               'reaches-beyond-180W' if min(xs) < -180 else 'elsewhere'))
    if recipe.get('bounds') in ('overlap', 'gaps') or recipe.get('overlap_face'):
        ctx.count(f"cells:{recipe.get('bounds', 'overlap-face')}")
    base = points_for(rng, kept, raw, n_extra=3 if light else 6)
    # + points on the boundary of one cell and inside another (overlapping cells), + other spellings of cell points,
    # + points a hair (2^-30, 2^-40) off a vertex / an edge, to either side
    more = X.touch_inside_points(rng, kept) + ([] if light else X.alias_points(base)) + X.hair_off_points(rng, kept)
    for (x, y, cls) in base + more:
        x, y = Fraction(x), Fraction(y)
        # dyadic guard: only exactly representable points
        if Fraction(float(x)) != x or Fraction(float(y)) != y:
            continue
        pt = shapely.Point(float(x), float(y))
        ps = pt_str((x, y))
        desc = {**desc0, 'point': [str(x), str(y)], 'class': cls}
        raw_hits = [int(h) for h in tree.query(pt, predicate='intersects')]
        brute = [k for k, p in enumerate(polys) if p is not None and p.intersects(pt)]
        truth = [k for k, q in enumerate(kept) if q is not None and
                 shapely.Polygon([(float(a), float(b)) for a, b in q]).intersects(pt)]
        hl = f'hits {rings} {ps}'
        items.append((hl, ','.join(map(str, sorted(raw_hits))) or '-', {**desc, 'op': hl}))
        if built.conv == 'cf1d' and all(v == '1' for v in vbits):
            # CF 1-D: the hits from the dataset's bounds alone (interval containment, `Ems.cf1dHits`; proved equal
            # to the exact test on the cell polygons in C04.cf1d_hits_eq) against what the real index reports
            cl = 'cf1dhits ' + S.polys_args(built)[len('cf1d '):] + f' pt={ps}'
            items.append((cl, ','.join(map(str, sorted(raw_hits))) or '-', {**desc, 'op': cl}))
            ctx.count('cf1d-bounds-spec')
        if sorted(raw_hits) != brute:
            ctx.oracle_fail('strtree-differs-from-brute-force', desc, f'STRtree {sorted(raw_hits)} brute force {brute}')
        try:
            item = c.get_index_for_point(pt)
        except Exception as e:
            item = 'ERR'
        if item == 'ERR':
            out = 'ERR'
        elif item is None:
            out = '-'
        else:
            ring = '-' if item.polygon is None else S.ring_str(S.impl_ring(item.polygon))
            out = f'{int(item.linear_index)} {native_str(built.conv, item.index)} {ring}'
        ll = f"lookup {spec} {built.default_kind} {rings} {ps} auto"
        items.append((ll, out, {**desc, 'op': ll}))
        # the same lookup fed with the spatial index's own (unsorted) report
        l2 = f"lookup {spec} {built.default_kind} {rings} {ps} {','.join(map(str, raw_hits)) or '-'}"
        items.append((l2, out, {**desc, 'op': l2}))
        if len(truth) >= 2 or cls in ('hole', 'just-outside', 'far') or not truth or cls.startswith('hair-off'):
            ctx.nontrivial((str(recipe), ps))
        ctx.count(f'class:{cls}:hits={min(len(truth), 3)}')
        # ---- the older entry point to the same index (`Convention.spatial_index`, deprecated but public): its
        # records, refined with `intersects` as its documentation prescribes, name the same cells coherently
        try:
            recs = c.spatial_index.query(pt)
            refined = sorted(int(r['data'].linear_index) for r in recs
                             if r['data'].polygon is not None and r['data'].polygon.intersects(pt))
            bad = [int(r['data'].linear_index) for r in recs
                   if r['data'].polygon is None or r['geom'] is not r['data'].polygon
                   or polys[int(r['data'].linear_index)] is not r['data'].polygon
                   or int(c.ravel_index(r['data'].index)) != int(r['data'].linear_index)]
        except Exception as e:
            refined, bad = f'ERR {type(e).__name__}', []
        ctx.evaluated()
        if refined != truth:
            ctx.oracle_fail('spatial-index-differs', desc, f'cells {truth} intersect {ps}; spatial_index refined gives {refined}')
        elif bad:
            ctx.oracle_fail('spatial-index-incoherent-record', desc, f'records of cells {bad}: polygon / native index / linear index do not describe one cell')
        # ---- direct oracle --------------------------------------------------
        if not truth:
            if item not in (None,):
                ctx.oracle_fail('lookup-returns-cell-for-miss', desc, f'no cell intersects {ps} but lookup returned {out}')
            try:
                c.select_point(pt)
                ctx.oracle_fail('select-point-accepts-miss', desc, f'select_point({ps}) did not raise')
            except ValueError:
                pass
            except Exception as e:
                ctx.oracle_fail('select-point-accepts-miss', desc, f'select_point({ps}) raised {type(e).__name__}')
        else:
            if item in (None, 'ERR'):
                ctx.oracle_fail('lookup-misses-intersecting-cell', desc, f'cells {truth} intersect {ps} but lookup returned {item}')
                continue
            n = int(item.linear_index)
            if n != min(truth):
                ctx.oracle_fail('lookup-not-lowest-index', desc, f'cells {truth} intersect {ps}; lookup returned {n}')
            if kept[n] is None:
                ctx.oracle_fail('lookup-returns-cell-without-geometry', desc, f'cell {n} has no geometry')
                continue
            try:
                back = int(c.ravel_index(item.index))
            except Exception as e:
                back = f'ERR {e}'
            if back != n:
                ctx.oracle_fail('lookup-incoherent-index', desc, f'linear index {n} but native index {item.index} is cell {back}')
            if item.polygon is None or S.impl_ring(item.polygon) != util.expected_ring(kept[n]):
                ctx.oracle_fail('lookup-incoherent-polygon', desc, f'polygon of the item is not the polygon of cell {n}')
            # ---- round 6: the native index names that very cell - judged against the generator's ground truth (the
            # default kind's row-major position of n in the grid's declared shape), not against emsarray's own
            # index conversion, which may be consistently wrong in both directions
            want = X6.expected_native(built, built.default_kind, n)
            try:
                got = native_str(built.conv, item.index)
            except Exception as e:  # noqa: BLE001
                got = f'ERR {type(e).__name__}'
            if got != want:
                ctx.oracle_fail('lookup-native-index-names-other-cell', desc,
                                f'{ps} lies in cell {n}, which is {want} of the grid {built.grids[built.default_kind]}; '
                                f'the native index returned is {got}')
            cellno = built.extra.get('cellno', {}).get(built.default_kind)
            if cellno and n == min(truth):
                # ... and selecting the point yields the data stored for that cell (tag = linear index by construction)
                try:
                    sel = c.select_point(pt)
                    tag = [int(v) for v in sel[cellno].values.reshape(-1)]
                except Exception as e:  # noqa: BLE001
                    tag = f'ERR {type(e).__name__}: {e}'
                ctx.count('select-point-tag-checked')
                if tag != [n]:
                    ctx.oracle_fail('select-point-selects-other-cell', desc,
                                    f'{ps} lies in cell {n}; select_point gave {cellno} = {tag} (the tag of a cell is its linear index)')
            # ---- end round 6


# ---- round 6 ---------------------------------------------------------------------------------------------------------
def make_case6(ctx, rng, k):
    """-> (recipe, extra6): the k-th extra case.  Walked by k: the convention; every third round of UGRID a mesh
    with as many faces as nodes; non-square shapes for the two-dimensional grids on the even rounds (a transposed
    shape is then another shape).  Drawn from `rng` (a stream of this block's own)."""
    conv = G.CONVS[k % len(G.CONVS)]
    rnd = k // len(G.CONVS)
    if conv == 'ugrid' and rnd % 3 != 1:
        recipe = X6.equal_sizes_mesh(rng)
    elif conv == 'ugrid':
        recipe = G.random_recipe(rng, conv, ctx.tier, max_w=3, max_h=2, coords_as='vars')
    else:
        for _ in range(20):
            recipe = G.random_recipe(rng, conv, ctx.tier, max_n=5)
            shape = (len(recipe['lat']), len(recipe['lon'])) if conv == 'cf1d' else (recipe['ny'], recipe['nx'])
            if rnd % 2 == 1 or (shape[0] != shape[1] and min(shape) >= 2):
                break
    grids = G.build(recipe).grids
    default = 'face'
    extra6 = {'lead': X6.draw_lead(rng, grids, default), 'history': X6.draw_history(rng, grids, default, rnd, k)}
    return recipe, extra6


def examine6(ctx, rng, recipe, extra6, items) -> None:
    built, c, answers = X6.build_case(G, recipe, extra6, native_str)
    hist = extra6['history']
    ctx.count(f"round6:{built.conv}:history={hist['what']}:{'other-kinds-only' if 'face' not in hist['kinds'] else 'all-kinds'}")
    sizes = [X6.size_of(sh) for _, sh in built.grids.values()]
    if len(set(sizes)) < len(sizes):
        ctx.count('round6:two-grid-kinds-of-equal-size')
    lead_dims = [d for _, dims in extra6['lead'] for d in dims]
    fdims = list(built.grids['face'][0])
    if len(fdims) == 2 and lead_dims.index(fdims[1]) < lead_dims.index(fdims[0]):
        ctx.count('round6:x-dimension-listed-before-y')
    desc0 = {'recipe': recipe, 'extra6': extra6}
    n0 = len(items)
    probe(ctx, built, c, desc0, items, light=True, rng=rng)
    # one session in the model: the questions of the history with the object's own answers, then the first lookup
    # of this case that found a cell (as it was answered AFTER those questions)
    for (line, out, d) in items[n0:]:
        if line.startswith('lookup ') and line.endswith(' auto') and out not in ('-', 'ERR'):
            tail = line.split(' ', 3)[3]
            sl, outs = X6.session_line(built, answers, tail)
            items.append((sl, ';'.join(outs + [out]), {**d, 'op': sl}))
            ctx.count('round6:session-in-model')
            break


def run6(ctx, items) -> None:
    rng = random.Random(f'{ctx.seed}:{int(ctx.searching)}:c04-extra6')
    for k in range(ctx.budget(25, 150)):
        recipe, extra6 = make_case6(ctx, rng, k)
        ctx.guarded(lambda: examine6(ctx, rng, recipe, extra6, items), {'recipe': recipe, 'extra6': extra6})
# ---- end round 6 -----------------------------------------------------------------------------------------------------


def make_recipe(ctx, k):
    rng = ctx.rng
    conv = G.CONVS[k % len(G.CONVS)]
    kw = {'max_w': 3, 'max_h': 2, 'coords_as': 'vars'} if conv == 'ugrid' else {'max_n': 4}
    if conv in ('cf2d', 'shoc_simple'):
        kw['twist'] = True
    r = G.random_recipe(rng, conv, ctx.tier, **kw)
    # Walked by the running number of the recipe within its convention (not drawn), so that every class turns up
    # in every run:
    #   overlapping cells   — odd rounds: CF 1-D bounds wider than the spacing (every fourth round: or narrower,
    #                         'gaps'), UGRID with one face repeated half a diagonal away;
    #   place on the globe  — rounds 1, 2 of every four: translated in longitude (beyond 180 E in the 0..360
    #                         spelling / anywhere incl. around 180 W), otherwise where the generator put it (near 0).
    rnd = k // len(G.CONVS)
    if rnd % 2 == 1:
        if conv == 'cf1d':
            r['bounds'] = 'overlap' if rnd % 4 == 1 else rng.choice(['overlap', 'gaps'])
        elif conv == 'ugrid':
            r = X.add_overlap_face(rng, r)
    if rnd % 4 == 1:
        r = X.place(r, rng.choice(X.EAST))
    elif rnd % 4 == 2:
        r = X.place(r, rng.choice(X.ANYWHERE))
    return r


def make_shared(ctx, k):
    """-> (recipe, shared): the k-th history of two conventions on one dataset object.  Walked, not drawn: the
    convention by k; `two-grids` on the even rounds of the conventions that take coordinate names, `replaced`
    otherwise; which of the two grids is constructed and used first is drawn."""
    rng = ctx.rng
    conv = G.CONVS[k % len(G.CONVS)]
    rnd = k // len(G.CONVS)
    kw = {'max_w': 3, 'max_h': 2, 'coords_as': 'vars'} if conv == 'ugrid' else {'max_n': 4}
    a = G.random_recipe(rng, conv, ctx.tier, **kw)
    if conv in X.TWO_GRID_CONVS and rnd % 2 == 0:
        b = X.second_grid_names(rng, G.random_recipe(rng, conv, ctx.tier, **kw))
        mode = 'two-grids'
    else:
        unit = a.get('scale', 1)
        b = X.place(a, unit * rng.choice([1, 2, -1, 12, -24]))
        mode = 'replaced'
    if mode == 'two-grids' and rng.random() < 0.5:
        a, b = b, a
    return b, {'mode': mode, 'first': a, 'warm': X.warm_points(G.build(a))}


def run(ctx) -> None:
    items: list = []
    for k in range(ctx.budget(40, 400)):
        recipe = make_recipe(ctx, k)
        ctx.guarded(lambda: examine(ctx, recipe, items), {'recipe': recipe})
    for k in range(ctx.budget(10, 60)):
        recipe, shared = make_shared(ctx, k)
        ctx.guarded(lambda: examine_shared(ctx, recipe, shared, items), {'recipe': recipe, 'shared': shared})
    run6(ctx, items)        # round 6 (draws from its own stream, after every draw of the earlier blocks)
    if ctx.searching and ctx.driver is None:
        ctx.evaluated(len(items))
        return
    ctx.check_batch(items)


def run_one(ctx, inp):
    out = {}
    if inp.get('op') and ctx.driver:
        out['model'] = ctx.model([inp['op']])[0]
    if inp.get('extra6'):      # round 6
        built, c, _ = X6.build_case(G, inp['recipe'], inp['extra6'], native_str)
    elif inp.get('shared'):
        built, c = X.shared_pair(G, inp['recipe'], inp['shared'])
    else:
        built = G.build(inp['recipe'])
        c = G.bind(built)
    if 'point' in inp:
        x, y = (Fraction(v) for v in inp['point'])
        item = c.get_index_for_point(shapely.Point(float(x), float(y)))
        out['impl'] = '-' if item is None else f'{int(item.linear_index)} {native_str(built.conv, item.index)}'
        if item is not None:
            out['native-index-of-that-cell'] = X6.expected_native(built, built.default_kind, int(item.linear_index))
        polys = c.polygons
        out['brute-force'] = [k for k, p in enumerate(polys) if p is not None and p.intersects(shapely.Point(float(x), float(y)))]
    return out


def replay(ctx, data) -> int:
    return util.generic_replay(ctx, data, run_one)
