"""C14 — triangulation exactly partitions every cell polygon."""
from __future__ import annotations

import warnings
from collections import defaultdict
from fractions import Fraction

import numpy as np

from harness import util
from harness.gen import datasets as G
from harness.gen import tri as T
from harness.gen import c14_extra6 as X6      # extent / size classes (see the block "extent and size" below)

warnings.simplefilter('ignore')

ID = 'C14'
MODULE = 'EmsModel.Props.C14'
DRIVER = 'C14'
REQUIRED = [
    'Ems.C14.fan_count', 'Ems.C14.ear_count', 'Ems.C14.fan_area', 'Ems.C14.ear_area',
    'Ems.C14.fan_oriented', 'Ems.C14.fan_inside', 'Ems.C14.fan_no_overlap',
    'Ems.C14.ear_inside_partial', 'Ems.C14.ear_terminates',
    'Ems.C14.cell_index_spec', 'Ems.C14.vertex_table_spec',
    'Ems.C14.fan_cover', 'Ems.C14.fan_partition', 'Ems.C14.strictConvex_hyps', 'Ems.C14.ear_succeeds',
    'Ems.C14.cell_count', 'Ems.C14.cell_area', 'Ems.C14.dataset_cell_triangles',
    'Ems.C14.convex_path_partition', 'Ems.C14.total_triangles_spec',
    # about the term translated from the source of _triangulate_polygons_by_length (harness/trans_trifan.py)
    'Ems.C14.fan_pipeline_translated', 'Ems.C14.fan_pipeline_shape', 'Ems.C14.fan_pipeline_entry',
    'Ems.C14.fan_pipeline_spec', 'Ems.C14.fan_pipeline_count_area',
    # about the bookkeeping translated from the source of triangulate_dataset (harness/trans_tridataset.py)
    'Ems.C14.dataset_translated', 'Ems.C14.dataset_loops_generated', 'Ems.C14.dataset_total_generated',
    'Ems.C14.dataset_helper_generated', 'Ems.C14.dataset_table_generated', 'Ems.C14.dataset_table_wellformed',
    'Ems.C14.dataset_loops_spec', 'Ems.C14.dataset_loops_agree_with_model', 'Ems.C14.dataset_total_spec',
    # the triangulation does not depend on the unit / place of the coordinates (Props/C14Extent.lean)
    'Ems.C14.split_extent_invariant', 'Ems.C14.convex_path_partition_extent', 'Ems.C14.concave_path_extent',
    'Ems.C14.area_clause_extent',
]
EXTRA_MODULES = ['EmsModel.Props.C14Src', 'EmsModel.Props.C14Extent']
RULE = ('(a) datasets of all five convention classes (holes = cells without geometry; UGRID meshes from '
        'gen_mesh mix triangles..octagons, concave L / pentagon faces, mid-edge collinear nodes, both windings, '
        'random start vertex); CF 1-D grids also with STORED bounds that are not contiguous — footprints leaving gaps '
        'between neighbouring cells or overlapping them, so the cells share no corners and the grid is no lattice — in '
        'both axis directions, stored as f8 / f4 / i4, in memory / read back from a file / dask-backed (10 per quick run, '
        '60 thorough, every other one with a call history); (b) targeted simple polygons with integer coordinates packed as disjoint faces of '
        'UGRID meshes (80 per dataset, sizes and kinds mixed): strictly convex, convex with collinear vertices, '
        'star-shaped, 2-opt untangled random, hand-made concave templates (dart, L, T, U, stairs, spiral, comb ...) '
        'under unimodular maps, EVERY rotation of the start vertex and both windings of each template; among them '
        'rings that are not valid polygons (bow-tie, spike, pinch, zero area), which Convention.polygons drops and '
        'which must come out as cells without triangles; (c) EVERY simple polygon with 3..8 vertices on the 3x3 '
        'lattice (thorough: 3..9, and 3..6 on the 4x3 lattice); (d) rings with a repeated vertex (valid for shapely, '
        'outside the property: model and code compared, oracle not applied); (e) call histories on ONE dataset '
        'object: call, the caller edits the arrays it was handed IN PLACE (17 edit classes: shift / scale / wrap / swap / '
        'sort / fill / roll the vertices, renumber / roll / fill the triangles, reverse / shift / fill / roll the cell '
        'indexes, or nothing), call again, up to 5 calls — on two of three convention datasets, every fourth packed '
        'mesh and 15 (thorough 200) small meshes; an implementation that hands out read-only arrays cannot be edited and '
        'nothing is demanded of it; every later call goes through the same oracle and is compared with the model (a '
        'function of the cells alone). Model input is the generator\'s vertex '
        'list, never read back from emsarray; a dataset whose emsarray polygons differ from the ground truth is '
        'skipped and counted. Non-trivial = a cell that is concave, has a collinear vertex, has >= 5 sides, or an '
        'invalid ring; distinct = distinct vertex sequence up to translation. '
        '(f) EXTENT: meshes of 36 targeted cells (concave templates at a random start vertex / winding, the valid stream of (b), '
        'and cells 2^8..2^24 units across with a SHALLOW reflex corner: one edge pushed inward by 1..3 units at its midpoint) mapped '
        'through q -> origin + 2^exp q, exp in -40..-24 (tiny), -23..-8 (small), 8..20 (large), 0 (shallow notch), integer origin — '
        'exact in binary floating point; 4 per quick run (one of each class), 24 thorough, every other one with a call history; '
        'judged by the same oracle in exact fractions and sent to the model as the same rationals. '
        '(g) SIZE: a CF grid and an unstructured mesh (quadrilaterals, triangles in either diagonal, a few concave dart + kite '
        'tiles; every face from a random start vertex, wound either way, faces stored in shuffled order) with 2^15..2^17 cells of '
        'one number of sides (thorough: ..2^18, 6 datasets), at a random extent, built with numpy from a compact recipe; every '
        'clause of the oracle in exact int64 arithmetic on the generator\'s lattice (concave cells through the per-cell oracle), '
        'a second call after an in-place edit, 4 windows of 12 consecutive cells compared with the model; a failing dataset is '
        'shrunk by bisection on its number of rows. (f) and (g) draw from a random stream of their own.')
TRUSTED = [
    'GEOS (shapely): convex_hull vertex count, LineString.covered_by(Polygon), LinearRing.intersection(LineString).equals(MultiPoint) '
    '— appear in the theorems as arbitrary functions isConvex / isEar; the driver instantiates them with exact rational tests '
    '(Core/TriangulateGeom.lean) that are compared with GEOS on every generated polygon (ops `ears`, `convex`, and through `tri`)',
    'pandas MultiIndex.drop_duplicates keeps first occurrences; DataFrame.join on (x, y) is an exact-equality lookup',
    'direct oracle: shapely covers / relate_pattern on integer and dyadic coordinates (robust predicates) for inside / overlap; areas in fractions.Fraction',
    'big datasets (g): numpy int64 arithmetic on lattice coordinates recovered from the returned floats by (v - origin) / 2^exp (exact for '
    'every true coordinate; anything else is reported as a foreign vertex); triangle-in-convex-cell by edge half-planes, overlap by a separating edge',
    'fan path, translated from the source: harness/trans_trifan.py (ast of _triangulate_polygons_by_length -> NpExpr term Gen.triFanTriangles; '
    'numpy.repeat along an axis statically of length 1 rendered as broadcast_to) and the numpy semantics of Core/NpExpr.lean — '
    'cross-checked on every run: driver op `fanpipe` evaluates the generated term on the generator\'s closed rings and is compared value by value with the real function',
    'bookkeeping of triangulate_dataset, translated from the source: harness/trans_tridataset.py (ast -> Gen.triDatasetLoops / Total / AddBody / Table) and the meaning '
    'given to numpy.flatnonzero / unique / boolean comparison / a[idx] = 0 / zip in Core/TriDatasetSrc.lean — cross-checked on every run: driver op `tdfaces` runs the '
    'generated loops on the ground-truth cells and is compared with the order and the cell indexes of the blocks the real code writes; pandas drop_duplicates / join semantics stay trusted',
]
ASSUMPTIONS = [
    'cell polygons are simple, without repeated vertices and without interior rings (what every emsarray convention produces); '
    'fan_inside / fan_no_overlap are stated under the decidable hypotheses ConvexCell / FanSorted, which the driver evaluates on every real convex cell',
    'containment and non-overlap on the ear path are proved relative to the ear oracle\'s contract (ear_inside_partial), which is GEOS behaviour',
    'the order in which triangle_dataset emits triangles of different cells and the order of the vertex table are not part of the property; outputs are compared per cell, order-canonicalised',
]
LEVEL_TEXT = ('machine-checked (Lean 4) for all vertex lists over the rationals and all oracle functions: counts, signed areas, '
              'termination, cell index, vertex table; fan path: exact partition of every strictly convex cell; '
              'ear path: containment / non-overlap relative to the contract of the GEOS ear test')
LEVEL_NOTE = ('ear_inside_partial assumes the ear oracle\'s contract (GEOS covered_by / intersection semantics); the exact rational '
              'ear and hull tests used by the driver are validated against GEOS on every generated polygon, not proved')
TECHNIQUE = 'Lean 4 proof about a hand-written model (Core/Triangulate.lean) + differential correspondence through emsarray.operations.triangulate.triangulate_dataset'


# ---------------------------------------------------------------------------
# canonical forms

def pt_str(p) -> str:
    return f'{util.rat_str(p[0])},{util.rat_str(p[1])}'


def ring_line(poly) -> str:
    return ';'.join(pt_str(p) for p in poly)


def cells_line(cells) -> str:
    return '|'.join('-' if p is None else ring_line(p) for p in cells)


def call_impl(ds):
    """the real code, through its public entry point"""
    from emsarray.operations.triangulate import triangulate_dataset
    try:
        v, t, f = triangulate_dataset(ds)
        return (np.asarray(v), np.asarray(t), np.asarray(f)), None
    except ValueError as e:
        return None, ('ERR:noear' if 'interior diagonal' in str(e) else 'ERR:ValueError')
    except Exception as e:  # noqa
        return None, f'ERR:{type(e).__name__}'


def exact_vertices(v):
    v = np.asarray(v)
    if v.size == 0:
        return []
    return [(Fraction(float(x)), Fraction(float(y))) for x, y in v.reshape(-1, 2)]


def canon_impl(res) -> str:
    v, t, f = res
    V = exact_vertices(v)
    per = defaultdict(list)
    try:
        for tri, face in zip(t, f):
            idx = [int(i) for i in tri]
            if any(float(i) != float(j) for i, j in zip(idx, tri)) or any(not (0 <= i < len(V)) for i in idx):
                return 'ERR:index'
            per[int(face)].append(sorted(V[i] for i in idx))
    except (ValueError, TypeError):      # NaN from a failed join
        return 'ERR:index'
    body = '|'.join(
        f'{k}:' + '+'.join(';'.join(pt_str(p) for p in tri) for tri in sorted(per[k]))
        for k in sorted(per))
    return f"OK n={len(t)} V={';'.join(pt_str(p) for p in sorted(V))} T={body}"


# ---------------------------------------------------------------------------
# GEOS side of the two oracles, evaluated directly (validates Core/TriangulateGeom)

def geos_ears(poly) -> str:
    from shapely.geometry import LineString, MultiPoint, Polygon
    P = Polygon([(float(x), float(y)) for x, y in poly])
    ext = P.exterior
    coords = ext.coords[:-1]
    bits = ''
    for i in range(len(coords) - 2):
        v = [coords[i], coords[i + 2]]
        d = LineString(v)
        bits += '1' if (d.covered_by(P) and ext.intersection(d).equals(MultiPoint(v))) else '0'
    return bits


def geos_convex(poly) -> str:
    import shapely
    from shapely.geometry import Polygon
    P = Polygon([(float(x), float(y)) for x, y in poly])
    return '1' if shapely.get_num_coordinates(shapely.convex_hull(P)) == shapely.get_num_coordinates(P) else '0'


# ---------------------------------------------------------------------------
# direct property oracle (independent of the Lean model)

def f_area2(poly) -> Fraction:
    n = len(poly)
    return sum((poly[k][0] * poly[(k + 1) % n][1] - poly[(k + 1) % n][0] * poly[k][1] for k in range(n)), Fraction(0))


def oracle(cells, res) -> list:
    """Every clause of C14 stated by brute force on the real output.
    Returns [(signature, cell index | None, message)]."""
    import shapely
    from shapely.geometry import LineString, Point, Polygon
    out = []
    v, t, f = res
    V = exact_vertices(v)
    # vertex table: no duplicates, exactly the cell coordinates
    if len(set(V)) != len(V):
        dup = sorted(p for p in set(V) if V.count(p) > 1)[:3]
        out.append(('vertex-duplicates', None, f'vertex table holds duplicates, e.g. {[pt_str(p) for p in dup]}'))
    want = {tuple(p) for c in cells if c is not None for p in c}
    if set(V) != want:
        out.append(('vertex-table-content', None,
                    f'vertex table has {len(set(V) - want)} foreign and lacks {len(want - set(V))} cell coordinates'))
    if len(t) != len(f):
        out.append(('length-mismatch', None, f'{len(t)} triangles but {len(f)} cell indexes'))
        return out
    per = defaultdict(list)
    for k, (tri, face) in enumerate(zip(t, f)):
        try:
            idx = [int(i) for i in tri]
            ok = all(float(i) == float(j) for i, j in zip(idx, tri)) and all(0 <= i < len(V) for i in idx)
        except (ValueError, TypeError):
            ok = False
        if not ok:
            out.append(('vertex-index-invalid', None, f'triangle {k} has vertex indexes {list(map(float, tri))} for a table of {len(V)}'))
            continue
        face = int(face)
        if not (0 <= face < len(cells)):
            out.append(('cell-index-range', None, f'triangle {k} names cell {face} of {len(cells)}'))
            continue
        if cells[face] is None:
            out.append(('triangle-for-empty-cell', face, f'triangle {k} names cell {face}, which has no geometry'))
            continue
        per[face].append([V[i] for i in idx])
    for k, poly in enumerate(cells):
        if poly is None:
            continue
        tris = per.get(k, [])
        n = len(poly)
        if len(tris) != n - 2:
            out.append(('count', k, f'cell {k} with {n} sides has {len(tris)} triangles'))
            continue        # the remaining clauses are about a list of n - 2 triangles
        total = sum((abs(f_area2(tr)) for tr in tris), Fraction(0))
        if total != abs(f_area2(poly)):
            out.append(('area-sum', k, f'cell {k}: triangle areas sum to {total / 2}, cell area is {abs(f_area2(poly)) / 2}'))
        P = Polygon([(float(x), float(y)) for x, y in poly])
        shapes = []
        for tr in tris:
            fl = [(float(x), float(y)) for x, y in tr]
            if f_area2(tr) != 0:
                g = Polygon(fl)
            elif len(set(fl)) > 1:
                g = LineString(sorted(set(fl))[::len(set(fl)) - 1])
            else:
                g = Point(fl[0])
            shapes.append(g)
            if not P.covers(g):
                out.append(('outside', k, f'cell {k}: triangle {[pt_str(p) for p in tr]} is not inside the cell'))
        for i in range(len(shapes)):
            for j in range(i + 1, len(shapes)):
                if shapes[i].geom_type == 'Polygon' and shapes[j].geom_type == 'Polygon' \
                        and shapes[i].relate_pattern(shapes[j], '2********'):
                    out.append(('overlap', k, f'cell {k}: triangles {[pt_str(p) for p in tris[i]]} and '
                                              f'{[pt_str(p) for p in tris[j]]} overlap'))
    return out


# ---------------------------------------------------------------------------
# call histories on ONE dataset object.  The property speaks about the triangles reported by
# a call, whichever call it is: the answer of the n-th call on a dataset must not depend on
# what the caller did in the meantime with the arrays an earlier call handed to it (they are
# the caller's arrays: shifting / wrapping / reprojecting the vertices in place, renumbering
# or reordering triangles, sorting the cell indexes are ordinary post-processing).
# A history is a list of edits; the sequence executed is  call, edit, call, edit, call ...,
# every edit applied IN PLACE to the arrays returned by the call before it.

EDITS = {
    # vertices (float, shape (n, 2))
    'v+=': lambda v, t, f, a: v.__iadd__(np.array([a, -a - 1], dtype=v.dtype)),
    'v*=': lambda v, t, f, a: v.__imul__(-2 if a % 2 else 3),
    'v%=': lambda v, t, f, a: v[:, 0].__imod__(1 + a % 3),        # "wrap the longitudes"
    'v.swap': lambda v, t, f, a: v.__setitem__(slice(None), v[:, ::-1].copy()),
    'v.sort': lambda v, t, f, a: v.sort(axis=0),
    'v.fill': lambda v, t, f, a: v.fill(a),
    'v.roll': lambda v, t, f, a: v.__setitem__(slice(None), np.roll(v, 1 + a % 2, axis=0)),
    # triangles (integer, shape (m, 3))
    't+=': lambda v, t, f, a: t.__iadd__(1 + a % 2),
    't.roll': lambda v, t, f, a: t.__setitem__(slice(None), np.roll(t, 1 + a % 3, axis=0)),
    't.fill': lambda v, t, f, a: t.fill(0),
    't.cols': lambda v, t, f, a: t.__setitem__((slice(None), [1, 2]), t[:, [2, 1]]),   # winding: not part of C14
    't.col0': lambda v, t, f, a: t.__setitem__((slice(None), 0), t[:, 1].copy()),
    # cell indexes (integer, shape (m,))
    'f.rev': lambda v, t, f, a: f.__setitem__(slice(None), f[::-1].copy()),
    'f+=': lambda v, t, f, a: f.__iadd__(1 + a % 2),
    'f.fill': lambda v, t, f, a: f.fill(0),
    'f.roll': lambda v, t, f, a: f.__setitem__(slice(None), np.roll(f, 1 + a % 3)),
    # nothing: a plain repeated call
    'none': lambda v, t, f, a: None,
}
EDIT_NAMES = sorted(EDITS)


def random_history(rng, max_len: int = 2) -> list:
    n = 1 if rng.random() < 0.6 else rng.randint(1, max_len)
    return [{'edit': rng.choice(EDIT_NAMES), 'arg': rng.randint(1, 6)} for _ in range(n)]


def apply_edit(res, step: dict) -> str:
    """Edit the caller's arrays in place.  -> 'changed' | 'unchanged' | 'refused:<why>'
    (an implementation may hand out read-only arrays; then the caller cannot edit them
    and nothing is demanded)."""
    fn = EDITS.get(step.get('edit'))
    if fn is None:
        return 'refused:unknown-edit'
    try:
        arrs = [a for a in res if isinstance(a, np.ndarray)]
        if len(arrs) != 3 or arrs[0].ndim != 2 or arrs[1].ndim != 2 or arrs[2].ndim != 1:
            return 'refused:not-three-arrays'
        before = [a.copy() for a in arrs]
        fn(arrs[0], arrs[1], arrs[2], int(step.get('arg', 1)))
        same = all(np.array_equal(a, b, equal_nan=True) if a.dtype.kind == 'f' else np.array_equal(a, b)
                   for a, b in zip(arrs, before))
        return 'unchanged' if same else 'changed'
    except Exception as e:  # noqa: read-only array, odd dtype, odd shape ...
        return f'refused:{type(e).__name__}'


def raw_call(ds):
    """like call_impl, but the arrays are the very objects the implementation returned"""
    from emsarray.operations.triangulate import triangulate_dataset
    try:
        out = triangulate_dataset(ds)
        v, t, f = out
        return (v if isinstance(v, np.ndarray) else np.asarray(v),
                t if isinstance(t, np.ndarray) else np.asarray(t),
                f if isinstance(f, np.ndarray) else np.asarray(f)), None
    except ValueError as e:
        return None, ('ERR:noear' if 'interior diagonal' in str(e) else 'ERR:ValueError')
    except Exception as e:  # noqa
        return None, f'ERR:{type(e).__name__}'


def play_history(ds, cells, history: list, first=None) -> list:
    """-> one entry per LATER call: (call number, edits so far, canonical output, oracle failures).
    `first` = result of the first call if it was made already (its arrays are edited in place)."""
    out = []
    res = first
    if res is None:
        res, err = raw_call(ds)
        if res is None:
            return [(1, [], err, [('raises-on-valid-cell', None, f'triangulate_dataset raised {err}')])]
    done = []
    for n, step in enumerate(history, start=2):
        done.append(f"{step.get('edit')}:{apply_edit(res, step)}")
        res, err = raw_call(ds)
        if res is None:
            out.append((n, list(done), err, [('raises-on-valid-cell', None,
                                              f'triangulate_dataset raised {err} on a dataset of simple polygons')]))
            break
        try:
            canon, fails = canon_impl(res), oracle(cells, res)
        except Exception as e:  # noqa: whatever came back is not three arrays of the documented shapes
            canon, fails = f'ERR:malformed-result:{type(e).__name__}', [
                ('malformed-result', None, f'result cannot be read as (vertices, triangles, cell indexes): {e}')]
        out.append((n, list(done), canon, fails))
    return out


def do_history(ctx, recipe: dict, built, cells: list, first, first_canon: str, history: list, items: list) -> None:
    """later calls on the same dataset object, after the caller edited its earlier results in place"""
    line = 'tri ' + cells_line(cells)
    desc = {'recipe': recipe, 'op': 'tri', 'history': history}
    for n, done, canon, fails in play_history(built.ds, cells, history, first=first):
        ctx.evaluated()
        ctx.count(f'history:call-{min(n, 3)}{"+" if n > 3 else ""}')
        ctx.count(f'history:{done[-1]}')
        if canon != first_canon:
            # the model is a function of the cells alone: it answers every call alike
            items.append((line, canon, dict(desc, history=history[:n - 1])))
        for sig, k, msg in fails:
            d = dict(desc, history=history[:n - 1])
            msg = f'call {n} on one dataset object, after the caller edited its earlier results in place ({", ".join(done)}): {msg}'
            shrunk = getattr(ctx, '_c14_hshrunk', 0)
            if shrunk < 12 and k is not None and cells[k] is not None and sum(1 for p in cells if p is not None) > 1:
                ctx._c14_hshrunk = shrunk + 1
                r1 = single_recipe(cells[k])
                b1 = G.build(r1)
                G.bind(b1)
                cells1 = truth_cells(b1)
                for n1, done1, _c, fails1 in play_history(b1.ds, cells1, history[:n - 1]):
                    again = [m for s, _, m in fails1 if s == sig]
                    if again:
                        d = {'recipe': r1, 'op': 'tri', 'history': history[:n1 - 1]}
                        msg = (f'call {n1} on one dataset object, after the caller edited its earlier results in place '
                               f'({", ".join(done1)}): {again[0]}')
                        break
            ctx.oracle_fail(f'repeat-call:{sig}', d, msg)
        if fails:
            break       # later calls of a history that already failed say nothing new


# ---------------------------------------------------------------------------
# one dataset

def truth_matches(c, cells) -> bool:
    """ground truth == what the convention hands to triangulate_dataset (C06 is about that;
    a dataset where they differ is not a C14 case)"""
    polys = c.polygons
    if len(polys) != len(cells):
        return False
    for p, q in zip(polys, cells):
        if (p is None) != (q is None):
            return False
        if p is not None:
            ring = [(Fraction(x), Fraction(y)) for x, y in p.exterior.coords]
            closed = list(q) + [q[0]]
            if ring != [tuple(v) for v in closed] or len(p.interiors):
                return False
    return True


def single_recipe(poly) -> dict:
    def num(v):
        # integers as int, binary fractions as the float that IS that fraction (a recipe must survive JSON)
        if Fraction(v).denominator == 1:
            return int(v)
        return float(v) if Fraction(float(v)) == Fraction(v) else v
    return T.pack([[(num(x), num(y)) for x, y in poly]], enc={'start_index': 0, 'fill': 'nan'})


# kinds of stored CF 1-D bounds under which neighbouring cells do not share their corners
NONCONTIG = ['gaps', 'overlap']


def shrink_grid(recipe: dict, sig: str):
    """A CF 1-D grid that fails clause `sig`: the sub-grid of its first two coordinate values per axis
    (plainly stored if that is enough), when it fails the same clause.  -> (recipe, message) | None"""
    if recipe.get('conv') != 'cf1d' or (len(recipe['lat']) <= 2 and len(recipe['lon']) <= 2 and not recipe.get('vary')):
        return None
    small = dict(recipe, lat=list(recipe['lat'][:2]), lon=list(recipe['lon'][:2]))
    plain = {k: v for k, v in small.items() if k not in ('vary', 'lat_dtype', 'lon_dtype')}
    for r1 in (plain, small):
        try:
            b1 = G.build(r1)
            cells1 = truth_cells(b1)
            if not truth_matches(G.bind(b1), cells1):
                continue
            res1, _ = call_impl(b1.ds)
            again = [m for s, _, m in (oracle(cells1, res1) if res1 is not None else []) if s == sig]
        except Exception:  # noqa: the smaller grid is only a candidate
            continue
        if again:
            return r1, again[0]
    return None


def truth_cells(built) -> list:
    """Ground truth of `dataset.ems.polygons` as vertex lists: the generator's polygon, or
    None where the cell has no geometry — a hole of the grid, or a ring that is not a valid
    polygon (`Convention.polygons` drops those)."""
    cells = []
    for p in built.polys:
        if p is None:
            cells.append(None)
            continue
        # shapely closes a ring unless its last vertex already equals its first
        p = [tuple(v) for v in util.expected_ring(p)]
        cells.append(p if T.is_valid_ring(p) else None)
    return cells


def has_repeat(p) -> bool:
    return len(set(p)) != len(p)


def do_dataset(ctx, recipe: dict, items: list, label: str, labels: list | None = None,
               history: list | None = None) -> None:
    built = G.build(recipe)
    cells = truth_cells(built)
    try:
        c = G.bind(built)
        same = truth_matches(c, cells)
    except Exception:
        same = False
    if not same:
        ctx.count(f'skipped:{label}:polygons-differ-from-ground-truth')
        return
    ctx.count(f'dataset:{label}')
    res, err = call_impl(built.ds)
    line = 'tri ' + cells_line(cells)
    desc = {'recipe': recipe, 'op': 'tri'}
    first_canon = err if res is None else canon_impl(res)
    items.append((line, first_canon, desc))
    # a ring with a repeated vertex is a valid shapely polygon but not a cell the property speaks about
    in_scope = not any(p is not None and has_repeat(p) for p in cells)
    for k, p in enumerate(cells):
        lab = labels[k] if labels else label
        ctx.count(f'src:{lab}')
        if p is None:
            ctx.count('cell:none' + (':invalid-ring' if built.polys[k] is not None else ''))
            if built.polys[k] is not None:
                ctx.nontrivial(('invalid', tuple(tuple(v) for v in built.polys[k])))
            continue
        n = len(p)
        kind = 'repeated-vertex' if has_repeat(p) else T.classify(p)
        ctx.count(f'cell:{kind}:{n}')
        if kind != 'convex' or n >= 5:
            x0, y0 = min(v[0] for v in p), min(v[1] for v in p)
            ctx.nontrivial(tuple((v[0] - x0, v[1] - y0) for v in p))
    if not in_scope:
        ctx.count(f'out-of-scope:repeated-vertex:{err or "OK"}')
        return
    if res is None:
        # a dataset of valid cells must triangulate; find the offending cell for a minimal replay
        bad = None
        for k, p in enumerate(cells):
            if p is None:
                continue
            r1 = single_recipe(p)
            b1 = G.build(r1)
            G.bind(b1)
            if call_impl(b1.ds)[0] is None:
                bad = (k, r1)
                break
        ctx.oracle_fail('raises-on-valid-cell', {'recipe': bad[1] if bad else recipe, 'op': 'tri'},
                        f'triangulate_dataset raised {err} on a dataset of simple polygons'
                        + (f' (cell {bad[0]}: {ring_line(cells[bad[0]])})' if bad else ''))
        return
    fails = oracle(cells, res)
    ctx.evaluated()
    for sig, k, msg in fails:
        d = {'recipe': recipe, 'op': 'tri'}
        shrunk = getattr(ctx, '_c14_shrunk', 0)
        if shrunk < 12 and k is not None and cells[k] is not None and sum(1 for p in cells if p is not None) > 1:
            ctx._c14_shrunk = shrunk + 1
            # shrink to the single offending cell when it fails on its own as well
            r1 = single_recipe(cells[k])
            b1 = G.build(r1)
            G.bind(b1)
            res1, _ = call_impl(b1.ds)
            cells1 = truth_cells(b1)
            again = [m for s, _, m in (oracle(cells1, res1) if res1 is not None else []) if s == sig]
            if again:
                d = {'recipe': r1, 'op': 'tri'}
                msg = again[0]
        if d['recipe'] is recipe and shrunk < 12:
            # a failure that belongs to the grid, not to one cell on its own: smallest sub-grid failing alike
            small = shrink_grid(recipe, sig)
            if small is not None:
                ctx._c14_shrunk = getattr(ctx, '_c14_shrunk', 0) + 1
                d, msg = {'recipe': small[0], 'op': 'tri'}, small[1]
        ctx.oracle_fail(sig, d, msg)
    # conclusions / hypotheses of the theorems on the real output, evaluated by the model
    V = exact_vertices(res[0])
    per = defaultdict(list)
    try:
        for tri, face in zip(res[1], res[2]):
            per[int(face)].append([V[int(i)] for i in tri])
    except Exception:
        per = None
    for k, p in enumerate(cells) if per is not None else []:
        if p is None:
            continue
        ts = '+'.join(ring_line(tr) for tr in per.get(k, [])) or '-'
        d = {'recipe': recipe, 'op': 'prop', 'cell': k}
        items.append((f'prop {ring_line(p)} {ts}', 'OK', d))
        conv = geos_convex(p)
        items.append((f'convex {ring_line(p)}', conv, dict(d, op='convex')))
        items.append((f'ears {ring_line(p)}', geos_ears(p), dict(d, op='ears')))
        # the single hypothesis of fan_partition holds exactly where the code takes the fan path
        items.append((f'strictconvex {ring_line(p)}', conv, dict(d, op='strictconvex')))
        if conv == '1':
            # the hypotheses of fan_oriented / fan_no_overlap / fan_inside hold wherever the fan path is taken
            items.append((f'fansorted {ring_line(p)}', '1', dict(d, op='fansorted')))
            items.append((f'convexcell {ring_line(p)}', '1', dict(d, op='convexcell')))
    # >>> bookkeeping translated from the source (harness/trans_tridataset.py): the generated loops, run by the driver on the
    # ground-truth cells, must write the blocks in the order and with the cell indexes the real code reports
    n_td = getattr(ctx, '_c14_tdfaces', 0)
    ctx._c14_tdfaces = n_td + 1
    if label != 'packed' or n_td % 3 == 0:
        items.append(('tdfaces ' + cells_line(cells), tdfaces_impl(res), {'recipe': recipe, 'op': 'tdfaces'}))
    # <<<
    # LAST (it edits `res` in place): the same dataset object is triangulated again
    if history:
        ctx.guarded(lambda: do_history(ctx, recipe, built, cells, res, first_canon, history, items),
                    {'recipe': recipe, 'op': 'tri', 'history': history})


# ---------------------------------------------------------------------------
# >>> fan pipeline translated from the source (harness/trans_trifan.py -> Gen/TriFanSrc.lean): cross-check of the
# translator.  The driver op `fanpipe` evaluates the GENERATED term on the closed rings of a batch of polygons of one
# length (ground truth of the generator); it is compared with what the real `_triangulate_polygons_by_length` returns
# for the shapely polygons of the same vertex lists, value by value and in order.

def fanpipe_line(polys) -> str:
    rows = [v for p in polys for v in list(p) + [p[0]]]
    return f'fanpipe {len(polys)} {len(polys[0]) + 1} ' + ';'.join(pt_str(v) for v in rows)


def fanpipe_impl(polys) -> str:
    import shapely
    from emsarray.operations import triangulate as M
    arr = np.empty(len(polys), dtype=object)
    arr[:] = [shapely.Polygon([(float(x), float(y)) for x, y in p]) for p in polys]
    try:
        out = np.asarray(M._triangulate_polygons_by_length(arr))
    except Exception:  # noqa: numpy / shapely refused; the model says ERR where the term does not evaluate
        return 'ERR'
    vals = ','.join('-' if v != v else util.rat_str(float(v)) for v in out.ravel().tolist())
    return f"{','.join(str(d) for d in out.shape)}:{vals}"


def fanpipe_cases(ctx, rng, items: list) -> None:
    for _ in range(ctx.budget(40, 300)):
        vc = rng.choice([3, 3, 4, 4, 4, 5, 5, 6, 7, 8])
        polys = []
        for _try in range(rng.randint(1, 5)):
            p = T.convex_poly(rng, vc, span=rng.choice([4, 7, 12]))
            if len(p) != vc:
                continue
            if rng.random() < 0.5:
                p = p[::-1]
            s = rng.randrange(vc)
            dx, dy = rng.randint(-9, 9), rng.randint(-9, 9)
            polys.append([(x + dx, y + dy) for x, y in p[s:] + p[:s]])
        if not polys:
            continue
        ctx.count(f'fanpipe:{vc}-gon:x{len(polys)}')
        desc = {'op': 'fanpipe', 'polys': [[list(v) for v in p] for p in polys]}
        ctx.guarded(lambda: items.append((fanpipe_line(polys), fanpipe_impl(polys), desc)), desc)


def tdfaces_impl(res) -> str:
    """the cell indexes `triangulate_dataset` returned, run-length encoded in the order written, and the number of rows"""
    import itertools
    faces = [int(x) for x in res[2]]
    return f'total={len(res[1])} blocks=' + ','.join(f'{k}:{len(list(g))}' for k, g in itertools.groupby(faces))
# <<< fan pipeline / bookkeeping translated from the source


# ---------------------------------------------------------------------------
# >>> extent and size (generators: harness/gen/c14_extra6.py)
# EXTENT: the targeted cells of (b) under a similarity q -> origin + 2**exp * q (cells 2**-40 .. 2**20 units across) and
# large cells with a shallow reflex corner; plain UGRID recipes, judged like every other dataset (do_dataset: per-cell
# oracle in exact fractions, model on the same rationals).
# SIZE: datasets with 2**15 .. 2**17 (thorough 2**18) cells of one number of sides, expanded with numpy from a compact
# recipe (op 'big').  Judged by X6.judge_big — the clauses of `oracle` in exact int64 arithmetic on the generator's
# lattice; the few concave cells go through `oracle` itself — then called again after the caller edited the arrays in
# place, and windows of 12 consecutive cells are compared with the model (`tri` on the window's cells against the part
# of the real output that names them).

def big_failures(big, history=None) -> list:
    """-> [(signature, cell, message)] of the calls of one history (later calls: `repeat-call:<clause>`).
    Every call is judged before the caller edits what it returned."""
    found = []
    res, err = raw_call(big.ds)
    done = []
    steps = [None] + list(history or [])
    for n, step in enumerate(steps, start=1):
        if step is not None:
            done.append(f"{step.get('edit')}:{apply_edit(res, step)}")
            res, err = raw_call(big.ds)
        pre = '' if n == 1 else 'repeat-call:'
        note = '' if n == 1 else (f'call {n} on one dataset object, after the caller edited its earlier results in place '
                                  f'({", ".join(done)}): ')
        if res is None:
            found.append((pre + 'raises-on-valid-cell', None,
                          note + f'triangulate_dataset raised {err} on a dataset of {big.ncell} simple polygons'))
            break
        try:
            fails = X6.judge_big(big, res, slow_oracle=oracle)
        except Exception as e:  # noqa: whatever came back is not three arrays of the documented shapes
            fails = [('malformed-result', None, f'result cannot be read as (vertices, triangles, cell indexes): {type(e).__name__}: {e}')]
        found += [(pre + s, k, note + m) for s, k, m in fails]
        if fails:
            break
    return found


def shrink_big(recipe: dict, sig: str, history):
    """fewer rows of the same recipe that fail the same clause (bisection; the recipe of a big dataset is compact)"""
    key = 'ny' if recipe['conv'] == 'big-cf1d' else 'h'
    lo, hi, best = 0, recipe[key], None
    for _ in range(7):
        mid = (lo + hi) // 2
        if mid <= lo:
            break
        r1 = dict(recipe, **{key: mid})
        try:
            b1 = X6.build_big(r1)
            if not X6.big_truth_matches(b1, b1.ds.ems.polygons):
                break
            again = [m for s, _, m in big_failures(b1, history) if s == sig]
        except Exception:  # noqa: the smaller dataset is only a candidate
            break
        if again:
            hi, best = mid, (r1, again[0])
        else:
            lo = mid
    return best


def do_big(ctx, recipe: dict, items: list, history, wrng) -> None:
    big = X6.build_big(recipe)
    try:
        same = X6.big_truth_matches(big, big.ds.ems.polygons)
    except Exception:
        same = False
    if not same:
        ctx.count(f"skipped:{recipe['conv']}:polygons-differ-from-ground-truth")
        return
    ctx.count(f"dataset:{recipe['conv']}")
    ctx.count(f"big:{recipe['conv']}:cells>=2^{big.ncell.bit_length() - 1}:extent 2^{recipe['exp']}")
    for n, (idx, _) in big.groups.items():
        ctx.count(f'big:{n}-sided convex cells', len(idx))
        ctx.nontrivial(('big', recipe['conv'], n, len(idx).bit_length()))
    ctx.count('big:concave cells', len(big.slow))
    fails = big_failures(big, history)
    ctx.evaluated(1 + len(history or []))
    seen = set()
    for sig, k, msg in fails:
        if sig in seen:
            continue
        seen.add(sig)
        hist = list(history or []) if sig.startswith('repeat-call:') else []     # a failure of the first call needs no history
        d = {'recipe': recipe, 'op': 'big', 'history': hist}
        if getattr(ctx, '_c14_bigshrunk', 0) < 2:
            ctx._c14_bigshrunk = getattr(ctx, '_c14_bigshrunk', 0) + 1
            small = shrink_big(recipe, sig, hist)
            if small is not None:
                d, msg = {'recipe': small[0], 'op': 'big', 'history': hist}, small[1]
        ctx.oracle_fail(sig, d, msg)
    # windows of the (last) answer against the model, which is a function of the cells alone
    res, _err = raw_call(big.ds)
    if res is None:
        return
    w = 12
    last = max(1, big.ncell - w)
    for start in sorted({0, last, wrng.randrange(last), wrng.randrange(last)}):
        cells = X6.window_cells(big, start, w)
        sub = X6.window_result(res, start, w)
        canon = 'ERR:index' if sub is None else canon_impl(sub)
        items.append(('tri ' + cells_line(cells), canon, {'recipe': recipe, 'op': 'big', 'window': [start, w],
                                                          'history': history or []}))


def extent_and_size_cases(ctx, one, items: list) -> None:
    import random
    # a stream of its own: the random stream of every other case stays what it was
    rng = random.Random(f'C14:{ctx.seed}:{int(ctx.searching)}:extent-size')
    classes = ['tiny', 'notch', 'small', 'large', 'tiny', 'small']
    for d in range(min(ctx.budget(4, 24), 36)):
        cls = classes[d % len(classes)]
        sim = X6.random_similarity(rng, cls)
        polys, labels = X6.extent_polys(rng, cls, 36)
        recipe = X6.extent_recipe(polys, sim, rng)
        ctx.count(f"extent:{cls}:2^{sim['exp']}")
        one(recipe, items, f'extent:{cls}', labels, history=random_history(rng) if d % 2 else None)
    kinds = ['cf1d', 'tiles']
    for d in range(min(ctx.budget(2, 6), 8)):
        kind = kinds[d % 2]
        # quick: the unstructured mesh has 2**15 .. 2**16 quadrilaterals (and more triangles than that)
        n = int(2 ** rng.uniform(15.02, 16)) if (kind == 'tiles' and not ctx.thorough) else None
        recipe = X6.random_big_recipe(rng, kind, ctx.thorough, n_cells=n)
        history = random_history(rng) if d % 2 == 0 else None

        def case(recipe=recipe, history=history):
            do_big(ctx, recipe, items, history, rng)
        ctx.guarded(case, {'recipe': recipe, 'op': 'big', 'history': history or []})


def run_one_big(ctx, inp: dict) -> dict:
    big = X6.build_big(inp['recipe'])
    r = inp['recipe']
    out = {'dataset': f"{r['conv']}: {big.ncell} cells ("
                      + ', '.join(f'{len(idx)} convex {n}-sided' for n, (idx, _) in big.groups.items())
                      + f", {len(big.slow)} concave), coordinates = {r['origin']} + 2**{r['exp']} * lattice"}
    fails = big_failures(big, inp.get('history'))
    out['oracle'] = [f'{s}: {m}' for s, _, m in fails][:6] or 'no clause of C14 fails'
    if inp.get('window') and ctx.driver:
        start, w = inp['window']
        res, _err = raw_call(big.ds)
        sub = X6.window_result(res, start, w) if res is not None else None
        out['impl'] = 'ERR:index' if sub is None else canon_impl(sub)
        out['model'] = ctx.model(['tri ' + cells_line(X6.window_cells(big, start, w))])[0]
        out['agree'] = out['impl'] == out['model']
    return out
# <<< extent and size


# ---------------------------------------------------------------------------

def run(ctx) -> None:
    rng = ctx.rng
    items: list = []

    def one(recipe, items, label, labels=None, history=None):
        # whatever the implementation returns or raises, the run goes on (a crash would be "no verdict")
        ctx.guarded(lambda: do_dataset(ctx, recipe, items, label, labels, history), {'recipe': recipe, 'op': 'tri'})

    # (a) datasets of every convention, holes included
    n_conv = ctx.budget(60, 400)
    for d in range(n_conv):
        conv = G.CONVS[d % len(G.CONVS)]
        recipe = G.random_recipe(rng, conv, ctx.tier)
        # (e) two of three are triangulated again after the caller edited its result in place
        one(recipe, items, f'conv:{conv}', history=random_history(rng, 3) if d % 3 else None)

    # (a') neighbouring cells that spell a shared zero bound differently (-0.0 / 0.0): still one vertex
    for _ in range(ctx.budget(6, 30)):
        def axis():
            n = rng.randint(1, 3)
            vals = list(range(-(2 * n - 1), 2 * n, 2))       # ... -3 -1 1 3 ...: a cell boundary at 0
            return vals[::-1] if rng.random() < 0.4 else vals
        recipe = {'conv': 'cf1d', 'lat': axis(), 'lon': axis(), 'bounds': 'contig', 'neg_zero': True,
                  'ydim': 'lat', 'xdim': 'lon', 'latname': 'lat', 'lonname': 'lon'}
        one(recipe, items, 'conv:cf1d:neg-zero')

    # (b) every rotation and both windings of every template with <= 8 sides (thorough: all)
    polys, labels = [], []
    for name, tpl in T.TEMPLATES.items():
        if len(tpl) > 8 and not ctx.thorough:
            continue
        assert T.is_simple(tpl), name
        for p in T.variants(tpl):
            polys.append(p)
            labels.append(f'template:{name}')
    # random targeted polygons; a few invalid rings among them must come out as cells without geometry
    n_rand = ctx.budget(2500, 30000)
    for _ in range(n_rand):
        if rng.random() < 0.04:
            p, kind = T.random_malformed(rng)
            if kind == 'bad:repeat':
                continue
        else:
            p, kind = T.random_valid(rng, 8 if rng.random() < 0.9 else 12)
            if rng.random() < 0.3:
                p = T.transform(rng, p)
        polys.append(p)
        labels.append(kind)
    # (c) exhaustive lattice polygons
    if not ctx.searching:
        spaces = [(3, 3, range(3, 9))]
        if ctx.thorough:
            spaces = [(3, 3, range(3, 10)), (4, 3, range(3, 7))]
        for w, h, ns in spaces:
            for n in ns:
                for p in T.lattice_polys(n, w, h):
                    polys.append(p)
                    labels.append(f'lattice{w}x{h}:{n}')
        ctx.notes.append('exhaustive sub-space: ' + '; '.join(
            f'every simple polygon with {min(ns)}..{max(ns)} vertices on the {w}x{h} lattice' for w, h, ns in spaces)
            + ' (all start vertices, both windings)')
    order = list(range(len(polys)))
    rng.shuffle(order)      # mix sizes and kinds inside every dataset
    chunk = 80
    for s in range(0, len(order), chunk):
        part = order[s:s + chunk]
        recipe = T.pack([polys[k] for k in part], rng)
        one(recipe, items, 'packed', [labels[k] for k in part],
                   history=random_history(rng) if (s // chunk) % 4 == 0 else None)

    # (e) longer call histories on small meshes (1..6 targeted polygons)
    for _ in range(ctx.budget(15, 200)):
        ps = [T.random_valid(rng, 8)[0] for _ in range(rng.randint(1, 6))]
        one(T.pack(ps, rng), items, 'history', history=random_history(rng, 4))

    # (d) rings with a repeated vertex: valid for shapely, outside the property; one per dataset
    # because an error aborts the whole call. Model and code are still compared.
    for _ in range(ctx.budget(40, 400)):
        p, kind = T.random_valid(rng, 7)
        k = rng.randrange(len(p))
        p = p[:k + 1] + [p[k]] + p[k + 1:]
        one(T.pack([p], enc={'start_index': 0, 'fill': 'nan'}), items, 'repeated-vertex')

    # (a'') CF 1-D grids whose STORED bounds are not contiguous: footprints that leave gaps between
    # neighbouring cells, or that overlap them (both valid CF; every cell polygon is built from its own
    # pair of bounds, so the cells no longer share their corners and the grid is not a lattice).
    # Both axis directions, several storage types, held in memory / read back from a file / dask-backed;
    # every other one is triangulated again after the caller edited its result in place.
    # (Generated last so that the random stream of every case above stays what it was.)
    for d in range(ctx.budget(10, 60)):
        kind = NONCONTIG[d % len(NONCONTIG)]
        recipe = G.random_recipe(rng, 'cf1d', ctx.tier, bounds=kind)
        recipe['lat_dtype'] = rng.choice(['f8', 'f8', 'f4', 'i4'])
        recipe['lon_dtype'] = rng.choice(['f8', 'f8', 'f4', 'i4'])
        if rng.random() < 0.4:
            recipe['vary'] = G.random_vary(rng, 'cf1d')
        one(recipe, items, f'conv:cf1d:bounds-{kind}', history=random_history(rng, 2) if d % 2 else None)

    # >>> fan pipeline translated from the source: the generated term against the real function (drawn last, so the
    # random stream of every case above stays what it was)
    fanpipe_cases(ctx, rng, items)
    # <<<

    # >>> extent and size (a random stream of their own)
    extent_and_size_cases(ctx, one, items)
    # <<<

    if ctx.searching and ctx.driver is None:
        ctx.evaluated(len(items))
        return
    ctx.check_batch(items)


def replay(ctx, data) -> int:
    return util.generic_replay(ctx, data, run_one)


def run_one(ctx, inp: dict) -> dict:
    if inp.get('op') == 'fanpipe':      # >>> fan pipeline translated from the source
        polys = [[tuple(v) for v in p] for p in inp['polys']]
        out = {'polygons': ' | '.join(ring_line(p) for p in polys), 'impl': fanpipe_impl(polys)}
        if ctx.driver:
            out['model'] = ctx.model([fanpipe_line(polys)])[0]
            out['agree'] = out['impl'] == out['model']
        return out                      # <<<
    if inp.get('op') == 'big':          # >>> extent and size
        return run_one_big(ctx, inp)    # <<<
    built = G.build(inp['recipe'])
    G.bind(built)
    cells = truth_cells(built)
    res, err = call_impl(built.ds)
    short = lambda t: t if len(t) <= 900 else t[:900] + ' …'   # noqa: E731
    out = {'cells': short(cells_line(cells))}
    impl = err if res is None else canon_impl(res)
    if inp.get('history') and res is not None:
        # call, edit the caller's arrays in place, call again ... on this one dataset object
        out['call 1'] = short(impl)
        out['oracle, call 1'] = [f'{s}: {m}' for s, _, m in oracle(cells, res)][:6] or 'no clause of C14 fails'
        for n, done, canon, fails in play_history(built.ds, cells, inp['history'], first=res):
            out[f'caller edit before call {n}'] = done[-1]
            out[f'call {n}'] = short(canon)
            out[f'oracle, call {n}'] = [f'{s}: {m}' for s, _, m in fails][:6] or 'no clause of C14 fails'
            impl = canon
        res = None      # edited in place: the last call is what is compared below
    out['impl'] = short(impl)
    if ctx.driver:
        model = ctx.model(['tri ' + cells_line(cells)])[0]
        out['model'] = short(model)
        out['agree'] = impl == model
        k = inp.get('cell')
        if inp.get('op') == 'tdfaces' and res is not None:      # >>> bookkeeping translated from the source
            out['impl blocks'] = short(tdfaces_impl(res))
            out['generated program'] = short(ctx.model(['tdfaces ' + cells_line(cells)])[0])   # <<<
        if k is not None and inp.get('op') in ('convex', 'ears', 'strictconvex', 'fansorted', 'convexcell') and cells[k] is not None:
            p = cells[k]
            line = f"{inp['op']} {ring_line(p)}"
            want = {'convex': geos_convex, 'strictconvex': geos_convex, 'ears': geos_ears}.get(inp['op'], lambda _p: '1')(p)
            out[f"cell {k} {inp['op']}"] = f'GEOS/expected {want}, model {ctx.model([line])[0]}'
    if res is not None:
        out['oracle'] = [f'{s}: {m}' for s, _, m in oracle(cells, res)][:6] or 'no clause of C14 fails'
    return out
