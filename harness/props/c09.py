"""C09 — clipped and subsetted datasets remain valid datasets with unchanged geometry."""
from __future__ import annotations

import copy
import itertools
import os

import netCDF4
import numpy as np
import xarray as xr

from harness import util
from harness.gen import c09_extra as X
from harness.gen import clipgen as CG
from harness.gen import datasets as G
from harness.gen import geomspec as S
from harness.props.c08 import do_clip

ID = 'C09'
MODULE = 'EmsModel.Props.C09'
DRIVER = 'C09'
REQUIRED = ['Ems.C09.renumber_spec', 'Ems.C09.renumber_in_range', 'Ems.C09.renumber_mono',
            'Ems.C09.update_connectivity_spec', 'Ems.C09.update_connectivity_shape', 'Ems.C09.refs_in_range',
            'Ems.C09.compress_get', 'Ems.C09.polygon_preserved', 'Ems.C09.select_variables_geometry',
            'Ems.C09.updated_row', 'Ems.C09.updated_entry', 'Ems.C09.newIndex_injective',
            'Ems.C09.tables_agree_after_clip', 'Ems.C09.reference_followed', 'Ems.C09.referencedBy_spec',
            'Ems.C09.no_reference_lost', 'Ems.C09.clip_polygons_end_to_end']
EXTRA_MODULES = globals().get('EXTRA_MODULES', []) + ['EmsModel.Props.C09More']   # B6: tables_stay_consistent (Lemmas/ClipTablesMore.lean states the C10 relations)
REQUIRED += ['Ems.C09.tables_stay_consistent', 'Ems.C09.edges_distinct_after_clip', 'Ems.C09.face_edge_after_clip',
             'Ems.C09.edge_face_after_clip', 'Ems.C09.face_face_after_clip', 'Ems.C09.face_face_symmetric_after_clip',
             'Ems.C09.dropped_neighbours_become_fill', 'Ems.C09.no_orphan_edge_after_clip',
             'Ems.C09.clipped_row_is_kept_row', 'Ems.C09.derived_tables_satisfy_consistent']
RULE = ('datasets of every convention with explicitly stored geometry (CF 1-D stored bounds, CF 2-D / SHOC simple stored '
        '4-corner bounds, SHOC standard node grids, UGRID meshes 0/1-based x NaN / _FillValue attribute / no fill x normal / '
        'transposed x every subset of edge_node / face_edge / edge_face / face_face), coordinates as xarray coordinates or plain '
        'variables x clip geometries (boxes, lines, points, cells, and selections built from a chosen set of cells: random '
        'subsets, everything but a connected blob, two cells, every other cell — concave, with holes, in several pieces) x '
        'buffer 0..2 x history of the mask object (applied once; applied twice; applied, then applied to a second dataset of '
        'the same geometry; applied, saved, reopened, applied). Also closed meshes (gen/c09_extra.closed_mesh: rings of nodes '
        'between two caps — pole or face — and tori: bipyramids, tetrahedron, prisms, cube, banded globes; no boundary, so '
        'edge_face / face_face have no missing entry) whose complete tables are plain integer variables without any '
        '_FillValue (recipe key enc.plain_complete_tables), x the sets of optional tables with edge_face / face_face: the clip '
        'creates the first missing entries. For meshes the surviving nodes / edges are the corners / sides '
        'of the kept faces (model `referencedBy`, generator tables), compared with the mask and with the sizes of the result. '
        'Checked on the clipped dataset: same convention detected, saved with '
        'ems.to_netcdf and reopened as the same convention, polygon of every selected cell unchanged and no new polygon, every '
        'connectivity table present, equal to the model\'s update_connectivity of the generator\'s tables, mutually consistent, '
        'start_index and integer type kept, every entry that is not missing the new number of a surviving element, the '
        'saved and reopened table equal to the one in memory. select_variables over subsets of data variables: identical polygons. '
        'Non-trivial: some but not all cells kept; distinct by (recipe, geometry, buffer, history).')
TRUSTED = ['netCDF4 / xarray save and reopen (runtime, compared not modelled)', 'the clip mask (C07) is taken as given']
ASSUMPTIONS = ['"can be saved and reopened as such" is runtime behaviour checked by the correspondence only']

TABLES = {'face_node': 'Mesh2_face_nodes', 'edge_node': 'Mesh2_edge_nodes', 'face_edge': 'Mesh2_face_edges',
          'edge_face': 'Mesh2_edge_faces', 'face_face': 'Mesh2_face_links'}


def rows_str(rows) -> str:
    return ';'.join(','.join('-' if v is None else str(v) for v in r) for r in rows)


def table_rows(ds, name, primary_dim) -> list:
    da = ds[name]
    if da.dims[0] != primary_dim:
        da = da.transpose()
    vals = np.asarray(da.values, dtype='f8')
    fv = da.attrs.get('_FillValue', da.encoding.get('_FillValue'))
    start = int(da.attrs.get('start_index', 0))
    out = []
    for row in vals:
        r = []
        for v in row:
            if np.isnan(v) or (fv is not None and v == fv):
                r.append(None)
            else:
                r.append(int(v) - start)
        out.append(r)
    return out


def check_tables_consistent(ctx, desc, tabs, edge_set_known_wrong=False) -> None:
    fn = tabs['face_node']
    faces = [[n for n in row if n is not None] for row in fn]
    pairs = [[frozenset((f[k], f[(k + 1) % len(f)])) for k in range(len(f))] for f in faces]
    if 'edge_node' in tabs:
        en = [frozenset(r) for r in tabs['edge_node']]
        allpairs = {p for ps in pairs for p in ps}
        if set(en) != allpairs or len(set(en)) != len(en):
            ctx.oracle_fail('clipped-edge-node-inconsistent', desc, f'edges {sorted(map(sorted, en))} vs face pairs {sorted(map(sorted, allpairs))}')
            return
        if 'face_edge' in tabs:
            for f, row in enumerate(tabs['face_edge']):
                got = [en[e] if e is not None and e < len(en) else None for e in row if e is not None]
                if got != pairs[f]:
                    ctx.oracle_fail('clipped-face-edge-inconsistent', desc, f'face {f}: edges {row} do not name its consecutive node pairs')
                    return
        if 'edge_face' in tabs:
            for e, row in enumerate(tabs['edge_face']):
                want = {f for f, ps in enumerate(pairs) if en[e] in ps}
                if {v for v in row if v is not None} != want:
                    ctx.oracle_fail('clipped-edge-face-inconsistent', desc, f'edge {e}: faces {row}, containing faces {sorted(want)}')
                    return
    elif 'edge_face' in tabs and not edge_set_known_wrong:
        # no edge_node table to say which side an edge is: every face must still be named by as many edges as it has
        # sides, no edge may be without a face, and the two faces of an edge must share a side
        ef = [[v for v in row if v is not None] for row in tabs['edge_face']]
        for f, ps in enumerate(pairs):
            n = sum(1 for row in ef if f in row)
            if n != len(set(ps)):
                ctx.oracle_fail('clipped-edge-face-inconsistent', desc, f'face {f} has {len(set(ps))} sides, {n} edges name it')
                return
        for e, row in enumerate(ef):
            ok = len(row) == 1 and 0 <= row[0] < len(pairs) or \
                len(row) == 2 and all(0 <= v < len(pairs) for v in row) and row[0] != row[1] and set(pairs[row[0]]) & set(pairs[row[1]])
            if not ok:
                ctx.oracle_fail('clipped-edge-face-inconsistent', desc, f'edge {e}: faces {tabs["edge_face"][e]} do not share a side')
                return
    if 'face_face' in tabs:
        for f, row in enumerate(tabs['face_face']):
            want = {g for g, ps in enumerate(pairs) if g != f and set(ps) & set(pairs[f])}
            if {v for v in row if v is not None} != want:
                ctx.oracle_fail('clipped-face-face-inconsistent', desc, f'face {f}: neighbours {row}, faces sharing an edge {sorted(want)}')
                return


HISTORIES = ['once', 'once', 'once', 'twice', 'twice', 'twice-second', 'saved-after-use']      # meshes: the mask holds index tables
HISTORIES_GRID = ['once'] * 5 + ['twice', 'twice-second', 'saved-after-use']                   # grids: boolean masks


def bitstr(keep) -> str:
    return ''.join('1' if b else '0' for b in keep)


def apply_history(c, mask, history, recipe):
    """the result of clipping after a history of uses of ONE mask object: applied once; applied a second time to the
    same dataset; applied to a dataset, then to a second dataset with the same geometry (other file of the same model
    run); applied once, then saved, reopened and applied.  Every one of them is "the result of clipping"."""
    if history == 'once':
        return do_clip(c, mask)
    with CG.WorkDir() as wd:      # the first use: applied (the per-variable files are written), the result not needed
        c.apply_clip_mask(mask, wd).close()
    if history == 'twice':
        return do_clip(c, mask)
    if history == 'twice-second':
        r2 = copy.deepcopy(recipe)
        for v in r2.get('vars', []):
            v['base'] = v['base'] + 7
        return do_clip(c, mask, second=G.bind(X.build(r2)))
    with CG.WorkDir() as wd:
        p = os.path.join(wd, 'mask.nc')
        mask.to_netcdf(p)
        with xr.open_dataset(p) as m2:
            mask2 = m2.load()
    return do_clip(c, mask2)


def check_case(ctx, recipe, built, c, geom_kind, geom, buffer, items, history='once') -> None:
    import emsarray
    desc = {'recipe': recipe, 'geometry': geom.wkt, 'buffer': buffer, 'history': history}
    conv = built.conv
    mesh = conv == 'ugrid'
    try:
        mask = c.make_clip_mask(geom, buffer=buffer)
    except Exception as e:
        ctx.oracle_fail('make-clip-mask-raised', desc, f'{type(e).__name__}: {str(e)[:200]}')
        return
    # what the mask says is read BEFORE it is used (a copy: nothing below may depend on what using it did to it)
    if mesh:
        keepF = ~np.isnan(np.array(mask['new_face_index'].values, dtype='f8'))
        keepN_mask = ~np.isnan(np.array(mask['new_node_index'].values, dtype='f8'))
        keepE_mask = ~np.isnan(np.array(mask['new_edge_index'].values, dtype='f8')) if 'new_edge_index' in mask else None
        if not keepF.any():
            return
    else:
        if not all(bool(m.values.any()) for m in mask.data_vars.values()):
            return
        cm = mask['cell_mask'] if 'cell_mask' in mask else mask['face_mask']
        m = np.array(cm.values, dtype=bool)
    try:
        out = apply_history(c, mask, history, recipe)
    except Exception as e:
        ctx.oracle_fail('clip-raised', desc, f'[{history}] {type(e).__name__}: {str(e)[:200]}')
        return
    raw = built.polys
    vbits = S.geos_valid_bits(raw)
    kept = [q if (q is not None and vbits[n] == '1') else None for n, q in enumerate(raw)]
    ctx.count(f'{conv}:{geom_kind}:b{buffer}')
    ctx.count(f'history:{history}')
    # ---- same convention, directly and after a save / reopen --------------------------------
    cls = emsarray.conventions.get_dataset_convention(out)
    if cls is not built.conv_class:
        ctx.oracle_fail('clipped-convention-changed', desc, f'clipped dataset detected as {cls}, was {built.conv_class.__name__}')
        return
    if mesh and out.sizes.get(built.extra['names']['face_dim']) != int(keepF.sum()):
        ctx.oracle_fail('clipped-face-count', desc,
                        f"[{history}] {out.sizes.get(built.extra['names']['face_dim'])} faces in the clipped dataset, {int(keepF.sum())} selected")
        return
    with CG.WorkDir() as wd:
        p = os.path.join(wd, 'clipped.nc')
        try:
            out.ems.to_netcdf(p)
            with xr.open_dataset(p) as re:
                re = re.load()
            reopened = re
            cls2 = emsarray.conventions.get_dataset_convention(re)
            if cls2 is not built.conv_class:
                ctx.oracle_fail('reopened-convention-changed', desc, f'reopened clipped dataset detected as {cls2}')
                return
            stored_geom = mesh or conv == 'shoc_standard' or recipe.get('bounds') in ('stored', 'contig', 'gaps')
            re_polys = re.ems.polygons if stored_geom else None
            raw_types = {}
            if mesh:
                with netCDF4.Dataset(p) as nc:
                    for key, vn in TABLES.items():
                        if vn in nc.variables:
                            raw_types[key] = (nc.variables[vn].dtype.kind, nc.variables[vn].dtype.itemsize,
                                              getattr(nc.variables[vn], 'start_index', None))
        except Exception as e:
            ctx.oracle_fail('clipped-save-reopen-raised', desc, f'{type(e).__name__}: {str(e)[:300]}')
            return
    # ---- polygons -----------------------------------------------------------------------------
    stored = mesh or conv == 'shoc_standard' or recipe.get('bounds') in ('stored', 'contig', 'gaps')
    new_polys = None
    if stored:
        try:
            new_polys = out.ems.polygons
        except Exception as e:
            ctx.oracle_fail('clipped-polygons-raise', desc, f'{type(e).__name__}: {str(e)[:200]}')
            return
    if mesh:
        old_of_new = [int(i) for i in np.flatnonzero(keepF)]
    else:
        js = np.flatnonzero(m.any(axis=1))
        is_ = np.flatnonzero(m.any(axis=0))
        old_of_new = [j * m.shape[1] + i for j in range(js[0], js[-1] + 1) for i in range(is_[0], is_[-1] + 1)]
        selected = {j * m.shape[1] + i for j in range(m.shape[0]) for i in range(m.shape[1]) if m[j, i]}
    if stored:
        if len(new_polys) != len(old_of_new):
            ctx.oracle_fail('clipped-polygon-count', desc, f'{len(new_polys)} polygons for {len(old_of_new)} surviving cells')
            return
        for k, old in enumerate(old_of_new):
            for label, plist in (('clipped', new_polys), ('reopened', re_polys)):
                p = plist[k]
                q = kept[old]
                is_sel = mesh or old in selected
                if p is not None and (q is None or S.impl_ring(p) != util.expected_ring(q)):
                    ctx.oracle_fail('clipped-polygon-new-or-changed', {**desc, 'cell': old},
                                    f'{label} polygon at new index {k} (old cell {old}) is {S.ring_str(S.impl_ring(p))}, original {None if q is None else S.ring_str(q)}')
                    return
                if is_sel and q is not None and p is None:
                    ctx.oracle_fail('clipped-polygon-lost', {**desc, 'cell': old}, f'selected cell {old} lost its polygon in the {label} dataset')
                    return
        ctx.nontrivial((str(recipe), geom.wkt, buffer, history))
    # ---- mesh connectivity -------------------------------------------------------------------------
    if mesh:
        names = built.extra['names']
        faces = [list(f) for f in recipe['faces']]
        face_edges = built.extra['face_edges']
        nnode, nedge = len(recipe['nodes']), len(built.extra['edges'])
        # ---- which nodes / edges survive: stated from the generator's tables and the kept faces alone -----------
        # a node survives iff it is a corner of a kept face, an edge iff it is a side of a kept face
        keepN = np.zeros(nnode, dtype=bool)
        keepE_truth = np.zeros(nedge, dtype=bool)
        for f in np.flatnonzero(keepF):
            keepN[faces[f]] = True
            keepE_truth[face_edges[f]] = True
        sides = {frozenset((a, b)) for f in np.flatnonzero(keepF) for a, b in zip(faces[f], faces[f][1:] + faces[f][:1])}
        has_edge_dim = names['edge_dim'] in built.ds.dims
        # the stored edge tables define the numbering of the edges; without any, emsarray numbers them itself and
        # only the number of surviving edges can be stated
        edges_numbered = bool(set(recipe['enc'].get('tables', [])) & {'edge_node', 'face_edge', 'edge_face'}) \
            and not recipe['enc'].get('edge_tables_as_coords')
        width = built.extra['maxn']
        fn_rows = [list(r) + [None] * (width - len(r)) for r in faces]
        fe_rows = [list(r) + [None] * (width - len(r)) for r in face_edges]
        line = f"survivors {rows_str(fn_rows)} {bitstr(keepF)} {nnode}"
        items.append((line, bitstr(keepN_mask), {**desc, 'op': line, 'table': 'nodes'}))
        if keepN_mask.shape != keepN.shape or (keepN_mask != keepN).any():
            ctx.oracle_fail('clip-keeps-wrong-nodes', desc,
                            f'nodes kept {bitstr(keepN_mask)}, corners of the kept faces {bitstr(keepN)}')
        keepE = None
        edge_set_known_wrong = False
        if keepE_mask is not None:
            if edges_numbered:
                keepE = keepE_truth
                line = f"survivors {rows_str(fe_rows)} {bitstr(keepF)} {nedge}"
                items.append((line, bitstr(keepE_mask), {**desc, 'op': line, 'table': 'edges'}))
                if keepE_mask.shape != keepE.shape or (keepE_mask != keepE).any():
                    # when edge_face is the only stored edge table, "edge e" is defined by its row there (the edge
                    # between those faces): it survives iff one of the faces of its row is kept — the same set
                    by_edge_face_only = not set(recipe['enc'].get('tables', [])) & {'edge_node', 'face_edge'}
                    edge_set_known_wrong = True
                    ctx.oracle_fail('clip-ignores-edge-face-numbering' if by_edge_face_only else 'clip-keeps-wrong-edges', desc,
                                    f'edges kept {bitstr(keepE_mask)}, sides of the kept faces {bitstr(keepE)}')
            else:
                keepE = keepE_mask
                if int(keepE_mask.sum()) != len(sides):
                    ctx.oracle_fail('clip-keeps-wrong-edges', desc,
                                    f'{int(keepE_mask.sum())} edges kept, the kept faces have {len(sides)} distinct sides')
        # the element counts of the clipped dataset
        if out.sizes.get(names['node_dim']) != int(keepN.sum()):
            ctx.oracle_fail('clipped-node-count', desc,
                            f"{out.sizes.get(names['node_dim'])} nodes, the kept faces have {int(keepN.sum())} distinct corners")
        if has_edge_dim and out.sizes.get(names['edge_dim']) != len(sides):
            ctx.oracle_fail('clipped-edge-count', desc,
                            f"edge dimension of size {out.sizes.get(names['edge_dim'])}, the kept faces have {len(sides)} distinct sides")
        bits = {'face': bitstr(keepF), 'node': bitstr(keepN)}
        if keepE is not None:
            bits['edge'] = bitstr(keepE)

        def renum(keep):
            out_, k = [], 0
            for b in keep:
                out_.append(str(k) if b else '-')
                k += int(b)
            return ','.join(out_)
        truth = {'face_node': recipe['faces'],
                 'edge_node': [list(e) for e in built.extra['edges']],
                 'face_edge': built.extra['face_edges'],
                 'edge_face': built.extra['edge_face_rows'],
                 'face_face': built.extra['face_faces']}
        spec = {'face_node': ('face', 'node', names['face_dim']), 'edge_node': ('edge', 'node', names['edge_dim']),
                'face_edge': ('face', 'edge', names['face_dim']), 'edge_face': ('edge', 'face', names['edge_dim']),
                'face_face': ('face', 'face', names['face_dim'])}
        present = ['face_node'] + [t for t in recipe['enc'].get('tables', [])]
        tabs = {}
        for key in present:
            vn = TABLES[key]
            rowk, colk, pdim = spec[key]
            if rowk == 'edge' and keepE is None or colk == 'edge' and keepE is None:
                continue
            rows = [list(r) + [None] * ((width if key.startswith('face') else 2) - len(r)) for r in truth[key]]
            keepcol = {'face': keepF, 'node': keepN, 'edge': keepE}[colk]
            line = f"updconn {rows_str(rows)} {bits[rowk]} {renum(keepcol)}"
            if vn not in out:
                items.append((line, 'ABSENT', {**desc, 'op': line, 'table': key}))
                ctx.oracle_fail('clipped-table-missing', {**desc, 'table': key}, f'{vn} is absent from the clipped dataset')
                continue
            got = table_rows(out, vn, pdim)
            tabs[key] = got
            items.append((line, rows_str(got), {**desc, 'op': line, 'table': key}))
            # "refers only to surviving elements under the new numbering": every entry that is not missing is the new
            # number of a surviving element, whether or not the input table had (or declared) missing entries
            ncol = int(np.asarray(keepcol).sum())
            bad = [(r, v) for r, row in enumerate(got) for v in row if v is not None and not 0 <= v < ncol]
            if bad:
                ctx.oracle_fail('clipped-table-refers-to-non-survivor', {**desc, 'table': key},
                                f'{vn} row {bad[0][0]} names {colk} {bad[0][1]} (zero-based), {ncol} {colk}s survive the clip')
            # "can be saved and reopened as such": the saved table says the same as the one in memory
            if vn not in reopened.variables:
                ctx.oracle_fail('reopened-table-missing', {**desc, 'table': key}, f'{vn} is absent from the reopened clipped dataset')
            else:
                again = table_rows(reopened, vn, pdim)
                if again != got:
                    ctx.oracle_fail('reopened-table-differs', {**desc, 'table': key},
                                    f'{vn} after save / reopen {rows_str(again)}, in the clipped dataset {rows_str(got)}')
            # base and type
            si_in = built.ds[vn].attrs.get('start_index', None)
            si_out = out[vn].attrs.get('start_index', None)
            if (si_in is None) != (si_out is None) or (si_in is not None and int(si_in) != int(si_out)):
                ctx.oracle_fail('clipped-start-index-changed', {**desc, 'table': key}, f'{vn}: start_index {si_out}, was {si_in}')
            if built.ds[vn].dtype.kind == 'i' and key in raw_types:
                kind, size, _ = raw_types[key]
                if kind != 'i' or size != built.ds[vn].dtype.itemsize:
                    ctx.oracle_fail('clipped-integer-type-changed', {**desc, 'table': key},
                                    f'{vn}: saved as {kind}{size}, was {built.ds[vn].dtype}')
        if 'face_node' in tabs:
            check_tables_consistent(ctx, desc, tabs, edge_set_known_wrong)


def check_select_variables(ctx, recipe, built, c) -> None:
    import emsarray
    rng = ctx.rng
    names = [n for n in built.vars]
    subsets = [[]] + [[n] for n in names[:2]] + ([names] if names else [])
    if len(names) >= 2:
        subsets.append(rng.sample(names, 2))
    base = [None if p is None else S.ring_str(S.impl_ring(p)) for p in c.polygons]
    for sub in subsets:
        desc = {'recipe': recipe, 'keep': sub}
        ctx.evaluated()
        try:
            ds2 = c.select_variables(sub)
            cls = emsarray.conventions.get_dataset_convention(ds2)
            polys = [None if p is None else S.ring_str(S.impl_ring(p)) for p in ds2.ems.polygons]
        except Exception as e:
            ctx.oracle_fail('select-variables-raised', desc, f'{type(e).__name__}: {str(e)[:200]}')
            continue
        gnames = [g for g in (built.extra.get('geom_names') or []) if g in built.ds.variables]
        if built.conv == 'ugrid':
            gnames = [g for g in built.ds.variables if str(g).startswith('Mesh2')]
        gone = [g for g in gnames if g not in ds2.variables]
        if gone:
            ctx.oracle_fail('select-variables-drops-geometry', desc, f'geometry variables {gone} are missing after select_variables({sub})')
        if cls is not built.conv_class:
            ctx.oracle_fail('select-variables-convention-changed', desc, f'detected as {cls}')
        elif polys != base:
            ctx.oracle_fail('select-variables-geometry-changed', desc, 'polygons differ after keeping only some data variables')
        kept_data = [n for n in names if n in ds2.variables]
        if sorted(kept_data) != sorted(sub):
            ctx.oracle_fail('select-variables-wrong-data', desc, f'data variables kept {kept_data}, requested {sub}')
        ctx.nontrivial((str(recipe), tuple(sub)))


def make_recipe(ctx, k):
    rng = ctx.rng
    conv = G.CONVS[k % len(G.CONVS)]
    if conv == 'ugrid':
        kw = {'max_w': 3, 'max_h': 2, 'coords_as': 'vars', 'tables': G.tables_for(k // len(G.CONVS))}
    elif conv == 'cf1d':
        kw = {'max_n': 4, 'coords_as': rng.choice(['coords', 'vars']), 'bounds': rng.choice(['contig', 'gaps', 'none']),
              'bounds_as': rng.choice(['vars', 'coords'])}
    elif conv == 'shoc_standard':
        kw = {'max_n': 4, 'min_n': 2, 'coords_as': rng.choice(['coords', 'vars'])}
    else:
        kw = {'max_n': 4, 'min_n': 2, 'coords_as': rng.choice(['coords', 'vars']), 'bounds': rng.choice(['stored', 'stored', 'none']),
              'bounds_as': rng.choice(['vars', 'vars', 'coords'])}
    recipe = G.random_recipe(rng, conv, ctx.tier, vary=True, **kw)
    return G.attach_vars(rng, recipe, n_vars=2, max_extra=1, dtypes=('f8', 'f4', 'i4', 'i8'))


def examine(ctx, recipe, items, n_random=2, n_selection=1) -> None:
    rng = ctx.rng
    built = X.build(recipe)
    c = G.bind(built)
    raw = built.polys
    vbits = S.geos_valid_bits(raw)
    kept = [q if (q is not None and vbits[n] == '1') else None for n, q in enumerate(raw)]
    if not any(q is not None for q in kept):
        return
    cases = []
    for _ in range(n_random):
        gk, geom = CG.random_geometry(rng, kept)
        cases.append((gk, geom, rng.choice([0, 0, 1, 2])))
    # selections that are not one convex patch: concave, with a hole, in several pieces (gen/c09_extra.py)
    for _ in range(n_selection):
        gk, geom = X.selection_geometry(rng, kept)
        cases.append((gk, geom, rng.choice([0, 0, 0, 1])))
    for gk, geom, buffer in cases:
        history = rng.choice(HISTORIES if built.conv == 'ugrid' else HISTORIES_GRID)
        ctx.guarded(lambda: check_case(ctx, recipe, built, c, gk, geom, buffer, items, history),
                    {'recipe': recipe, 'geometry': geom.wkt, 'buffer': buffer, 'history': history})
    if rng.random() < 0.5:
        ctx.guarded(lambda: check_select_variables(ctx, recipe, built, c), {'recipe': recipe})


def run(ctx) -> None:
    items: list = []
    for k in range(ctx.budget(50, 400)):
        recipe = make_recipe(ctx, k)
        ctx.guarded(lambda: examine(ctx, recipe, items), {'recipe': recipe})
    # meshes as they come out of a file: decoded tables (float, NaN) whose fill value lives in the encoding, for every
    # integer fill value x index base x set of optional tables in turn
    rng = ctx.rng
    for k in range(ctx.budget(12, 80)):
        spec = ['low', 'neg', 'i4big', 'u4max', 'i2', 'i8max'][k % 6]
        recipe = G.random_recipe(rng, 'ugrid', ctx.tier, max_w=3, max_h=2, coords_as='vars', fill='attr', fill_spec=spec,
                                 start_index=(k // 6 + k) % 2, tables=G.tables_for(k + k // 10))
        recipe['vary'] = {'via_file': True}
        recipe = G.attach_vars(rng, recipe, n_vars=2, max_extra=1, dtypes=('f8', 'f4', 'i4'))
        ctx.guarded(lambda: examine(ctx, recipe, items), {'recipe': recipe})
    # larger meshes x every set of optional tables in turn, clipped to selections that are concave / have holes / are
    # in several pieces: which nodes and edges survive is then not "everything inside a box"
    for k in range(ctx.budget(30, 150)):
        recipe = G.random_recipe(rng, 'ugrid', ctx.tier, max_w=5, max_h=3, coords_as='vars', tables=G.tables_for(k),
                                 vary=True)
        recipe = G.attach_vars(rng, recipe, n_vars=2, max_extra=1, dtypes=('f8', 'i4'))
        ctx.guarded(lambda: examine(ctx, recipe, items, n_random=0, n_selection=4), {'recipe': recipe})
    # closed meshes (globes, tori, polyhedra: no boundary, so edge_face / face_face have no missing entry) whose complete
    # tables are plain integer variables without a `_FillValue`: the clip creates the first missing entries
    for k in range(ctx.budget(16, 80)):
        recipe = X.closed_recipe(rng, ctx.tier, k)
        recipe = G.attach_vars(rng, recipe, n_vars=2, max_extra=1, dtypes=('f8', 'i4'))
        ctx.count('closed-mesh')
        ctx.guarded(lambda: examine(ctx, recipe, items, n_random=1, n_selection=2), {'recipe': recipe})
    if ctx.searching and ctx.driver is None:
        ctx.evaluated(len(items))
        return
    ctx.check_batch(items)


def run_one(ctx, inp):
    import shapely
    out = {}
    if inp.get('op') and ctx.driver:
        out['model'] = ctx.model([inp['op']])[0]
    if 'geometry' in inp:
        built = X.build(inp['recipe'])
        c = G.bind(built)
        items: list = []
        sub = type(ctx)(ctx.prop, ctx.tier, ctx.seed)
        sub.known = []
        check_case(sub, inp['recipe'], built, c, 'replay', shapely.from_wkt(inp['geometry']), inp.get('buffer', 0), items,
                   inp.get('history', 'once'))
        for line, impl, d in items:
            if line == inp.get('op'):
                out['impl'] = impl
        if sub.oracle_failures:
            out['oracle'] = '; '.join(f"{f['signature']}: {f['message'][:200]}" for f in sub.oracle_failures[:3])
    return out


def replay(ctx, data) -> int:
    return util.generic_replay(ctx, data, run_one)
