"""C02 — one linear order is shared by polygons, centres, flattened data and selectors."""
from __future__ import annotations

from fractions import Fraction

import numpy as np
import shapely

from harness import util
from harness.gen import c02_extra as X
from harness.gen import c02_extra6 as X6
from harness.gen import datasets as G
from harness.gen import geomspec as S

ID = 'C02'
MODULE = 'EmsModel.Props.C02'
DRIVER = 'C02'
# theorems about what harness/trans_holessrc.py reads from the source of utils.make_polygons_with_holes
EXTRA_MODULES = ['EmsModel.Props.C02Src']
REQUIRED = [
    'Ems.C02.holes_generated', 'Ems.C02.holes_generated_length',
    'Ems.C02.ravel_eq_select', 'Ems.C02.cf1d_polygon_at_linear', 'Ems.C02.arakawa_polygon_at_linear',
    'Ems.C02.hole_no_shift', 'Ems.C02.cf1d_centre_at', 'Ems.C02.grid_centre_at',
    'Ems.C02.polygons_length_cf1d', 'Ems.C02.polygons_length_arakawa', 'Ems.C02.polygons_length_ugrid',
]
# sixth round: results held across later requests (lean/EmsModel/Props/C02Held.lean)
EXTRA_MODULES = list(globals().get('EXTRA_MODULES', [])) + ['EmsModel.Props.C02Held']
REQUIRED += ['Ems.C02.held_selection_at', 'Ems.C02.held_selection_own_request', 'Ems.C02.held_selection_perm']
RULE = ('datasets of every convention on sheared, non-symmetric integer lattices (so a j/i transposition changes '
        'every polygon), with and without holes, with tagged variables (incl. missing values) on every grid kind, '
        '0-2 extra dimensions, every dimension order. UGRID face-node tables walk every layout: face_dimension attribute '
        'written / left out (faces-first only), stored transposed, fewer / as many / more faces than the table is wide '
        '(tiny and clipped meshes, padded tables). Every fifth case is followed by ONE dataset holding several horizontal grids '
        '(2-3 CF 1-D / CF 2-D / SHOC standard parts merged ROMS-like under their own dimension and coordinate names, or the four '
        'grids of one SHOC standard file) used through 2-4 convention objects one after the other, in random order: each part '
        'through its own class with the coordinate names passed explicitly (CFGrid1D / CFGrid2D(latitude=, longitude=), '
        'ShocStandard, ArakawaC(coordinate_names=)), SHOC face / left / back / node grids also as CFGrid2D over that grid\'s '
        'coordinates; at most one of them bound to the dataset, the others only constructed; every clause is checked on every '
        'one of them against the ground truth of its own grid. Compared with the model: full polygon list, face centres, '
        'ravel of every variable, select_index at sampled linear indexes of every grid kind. Oracle, cell by cell: '
        'every grid has exactly as many positions as the dataset has cells/nodes/edges; ravel(v)[.., n] == select_index(wind_index(n))[v] '
        '(neither may raise); as many polygons as cells; polygon n is built from cell n own coordinates; '
        'face centre n belongs to cell n; STRtree hits of an interior point of cell n are the ground-truth cells containing it. '
        'Non-trivial: dataset with a hole or non-square shape or >=1 extra dimension; distinct by (recipe, variable, n). '
        # --- sixth round (gen/c02_extra6.py) ---
        'HELD RESULTS: on every convention object, selectors and point datasets of 3-7 positions (grid kinds mixed, a position may '
        'come twice) are asked for first - through selector_for_index, selector_for_indexes or select_index - and only used once all '
        'have been made, in another order: what was handed out for position n must still select / hold the tags of cell n '
        '(judged against the generator tags; the late selections also go through the model as isel lines). '
        'LARGE GRIDS: every run builds two grids of 7*10^4 .. 3*10^5 cells with numpy (thorough: nine, one of 10^6) - one curvilinear '
        '(CF 2-D / SHOC simple with stored or derived bounds, SHOC standard, in turn) with 3-8 rectangular patches of cells without '
        'geometry scattered from the first rows to the last, one CF 1-D (uneven, possibly descending axes) or UGRID (quadrilaterals with '
        'patches of triangles) - on integer lattices in units of 1/1024 degree; oracle only: grid sizes, EVERY polygon vertex by vertex '
        'and every face centre against the lattice, the whole flattened variable against its tags, STRtree hits / select_index / '
        'held selectors at ~40 cells (random, both ends, the neighbours of every patch).')
TRUSTED = ['shapely.STRtree.query returns the positions, in the array it was built from, of the intersecting non-None entries (checked on every case)']
ASSUMPTIONS = ['UGRID face centres without stored face coordinates are GEOS centroids: only their membership in the cell is checked']


def arr_str(da) -> str:
    dims = ','.join(f'{d}:{s}' for d, s in zip(da.dims, da.shape)) or '-'
    vals = util.as_num(da.values).reshape(-1)
    data = ','.join('nan' if np.isnan(v) else str(int(v)) for v in vals) or '-'
    return f'{dims}|{data}'


def grids_spec(built) -> str:
    return ';'.join(
        f"{k}=" + ','.join(f'{d}:{s}' for d, s in zip(dims, shape))
        for k, (dims, shape) in built.grids.items())


def native(built, c, kind, comps):
    if built.conv in ('cf1d', 'cf2d', 'shoc_simple'):
        return tuple(int(v) for v in comps)
    kinds = {k.value: k for k in type(next(iter(c.grid_kinds)))}
    return (kinds[kind], *[int(v) for v in comps])


def examine(ctx, recipe, items) -> None:
    if recipe.get('conv') == 'multi':
        # one dataset, several grids, several convention objects: each is examined in full, in the recipe's order,
        # against the ground truth of its own grid
        # (all of them are constructed - and the bound one bound - before any is used, as a script would do)
        made = []
        for vi, view in enumerate(X.build_multi(recipe)):
            ctx.count(f"multi-view:{view.spec['as'].split(':')[0]}:{view.spec['how']}")
            desc = {'recipe': recipe, 'view': vi, 'convention': view.label}
            try:
                made.append((desc, view, view.make()))
            except Exception as e:
                ctx.oracle_fail('convention-raises', desc, f'{view.label} on a dataset that holds that grid: {type(e).__name__}: {e}')
        for desc, view, c in made:
            examine_view(ctx, desc, view.built, c, items)
        return
    # --- sixth round: a grid of 10^5 .. 10^6 cells, built and judged with numpy (gen/c02_extra6.py) ---
    if recipe.get('conv') == 'big':
        X6.examine_big(ctx, recipe)
        return
    # --- end ---
    built = G.build(recipe)
    examine_view(ctx, {'recipe': recipe}, built, G.bind(built), items)


def examine_view(ctx, desc, built, c, items) -> None:
    """every clause of the property on one convention object `c`; `built` is the generator's ground truth of the
    grid that `c` describes"""
    rng = ctx.rng
    recipe = built.recipe
    conv = built.conv
    gs = grids_spec(built)
    raw = built.polys
    vbits = S.geos_valid_bits(raw)
    kept = [q if (q is not None and vbits[n] == '1') else None for n, q in enumerate(raw)]
    # every grid has as many positions as the dataset has cells / nodes / edges of that kind
    kind_objs = {getattr(k, 'value', k): k for k in c.grid_kinds}
    for kname, (gdims, gshape) in built.grids.items():
        want = int(np.prod(gshape))
        try:
            got = int(c.grid_size[kind_objs[kname]])
        except Exception as e:
            ctx.oracle_fail('grid-size-wrong', {**desc, 'kind': kname},
                            f'grid_size of the {kname} grid: {type(e).__name__}: {e}; the dataset has {want} of them')
            continue
        if got != want:
            ctx.oracle_fail('grid-size-wrong', {**desc, 'kind': kname},
                            f'the {kname} grid has {got} positions, the dataset has {want} of them')
    # polygons in linear order
    line = f"polys {S.polys_args(built)} valid={vbits} nob=1"
    try:
        pout = S.impl_polys_out(c, with_bounds=False)
        polys = list(c.polygons)
    except Exception as e:
        pout, polys = 'ERR', None
        ctx.oracle_fail('polygons-raise', desc, f'polygons of a well-formed dataset: {type(e).__name__}: {e}')
    items.append((line, pout, {**desc, 'op': line}))
    if polys is not None and len(polys) != len(raw):
        ctx.oracle_fail('polygon-count', desc, f'{len(polys)} polygons for {len(raw)} cells')
    for n, (p, q) in enumerate(zip(polys or [], kept)):
        ok = (p is None) == (q is None) and (p is None or S.impl_ring(p) == util.expected_ring(q))
        if not ok:
            ctx.oracle_fail('polygon-not-of-its-cell', {**desc, 'cell': n},
                            f'polygon at linear index {n} is {None if p is None else S.ring_str(S.impl_ring(p))}, cell {n} has {None if q is None else S.ring_str(q)}')
            break
    # centres
    try:
        fc = c.face_centres
    except Exception as e:
        fc = None
        ctx.oracle_fail('face-centres-raise', desc, f'{type(e).__name__}: {e}')
    if fc is not None:
        if conv == 'cf1d':
            cl = f"centres cf1d lon={S.nums(recipe['lon'])} lat={S.nums(recipe['lat'])}"
        elif conv in ('cf2d', 'shoc_simple'):
            cl = (f"centres grid nx={recipe['nx']} lon={S.nums(v for row in built.extra['cx'] for v in row)} "
                  f"lat={S.nums(v for row in built.extra['cy'] for v in row)}")
        elif conv == 'shoc_standard':
            face = built.extra['face']
            cl = (f"centres grid nx={recipe['nx']} lon={S.nums(None if p is None else p[0] for row in face for p in row)} "
                  f"lat={S.nums(None if p is None else p[1] for row in face for p in row)}")
        else:
            cl = None
        if cl is not None:
            out = ';'.join(f"{'-' if np.isnan(x) else util.rat_str(Fraction(float(x)))},{'-' if np.isnan(y) else util.rat_str(Fraction(float(y)))}" for x, y in fc)
            items.append((cl, out, {**desc, 'op': cl}))
        if len(fc) != len(raw):
            ctx.oracle_fail('centre-count', desc, f'{len(fc)} centres for {len(raw)} cells')
        else:
            for n, q in enumerate(kept):
                x, y = fc[n]
                if built.centres[n] is not None:
                    exp = built.centres[n]
                    if np.isnan(x) or (Fraction(float(x)), Fraction(float(y))) != tuple(exp):
                        sig = 'centre-not-of-its-cell'
                        if conv == 'ugrid' and recipe.get('enc', {}).get('face_coords') == 'coords':
                            sig = 'ugrid-face-coords-as-coordinates-ignored'
                        ctx.oracle_fail(sig, {**desc, 'cell': n}, f'face centre {n} = ({x}, {y}), cell {n} has centre {exp}')
                        break
                elif q is not None and not np.isnan(x):
                    poly = shapely.Polygon([(float(a), float(b)) for a, b in q])
                    if not poly.buffer(1e-9).contains(shapely.Point(x, y)) and poly.convex_hull.buffer(1e-9).contains(shapely.Point(x, y)) is False:
                        ctx.oracle_fail('centre-not-of-its-cell', {**desc, 'cell': n}, f'face centre {n} = ({x}, {y}) is outside the hull of cell {n}')
                        break
    # spatial index positions: the hits of an interior point of cell n are exactly the cells (of the generator's
    # ground truth) that contain the point, by their own linear position
    try:
        tree = c.strtree
    except Exception as e:
        tree = None
        ctx.oracle_fail('strtree-raises', desc, f'spatial index of a well-formed dataset: {type(e).__name__}: {e}')
    truth = [None if q is None else shapely.Polygon([(float(a), float(b)) for a, b in q]) for q in kept]
    for n in rng.sample(range(len(raw)), min(len(raw), 6)):
        if truth[n] is None or tree is None:
            continue
        pt = truth[n].representative_point()
        try:
            hits = sorted(int(h) for h in tree.query(pt, predicate='intersects'))
        except Exception as e:
            hits = [f'{type(e).__name__}: {e}']
        brute = sorted(k for k, p in enumerate(truth) if p is not None and p.intersects(pt))
        ctx.evaluated()
        if hits != brute or n not in hits:
            ctx.oracle_fail('strtree-position-not-linear-index', {**desc, 'cell': n, 'point': [pt.x, pt.y]},
                            f'STRtree hits {hits} for an interior point of cell {n}; brute force gives {brute}')
    # data
    for name, info in built.vars.items():
        if info.kind is None:
            continue
        da = built.ds[name]
        gdims, gshape = built.grids[info.kind]
        a = arr_str(da)
        rl = f"ravel {gs} {built.default_kind} {a} index"
        try:
            flat = c.ravel(da, linear_dimension='index')
            fout = arr_str(flat)
        except Exception as e:
            flat, fout = None, 'ERR'
            ctx.oracle_fail('ravel-raises', {**desc, 'var': name},
                            f'ravel of {name} {dict(da.sizes)}, defined on the {info.kind} grid {dict(zip(gdims, gshape))}: {type(e).__name__}: {e}')
        items.append((rl, fout, {**desc, 'op': rl}))
        size = int(np.prod(gshape))
        nontriv = any(q is None for q in raw) or len(info.dims) > len(gdims) or (len(gshape) == 2 and gshape[0] != gshape[1])
        for n in rng.sample(range(size), min(size, 5)):
            comps = [int(v) for v in np.unravel_index(n, gshape)]
            sel = ','.join(f'{d}={i}' for d, i in zip(gdims, comps))
            sl = f"isel {a} {sel}"
            try:
                idx = c.wind_index(n, grid_kind=kind_objs[info.kind])
                picked = c.select_index(idx)[name]
                pout = arr_str(picked)
            except Exception as e:
                picked, pout = None, 'ERR'
                ctx.oracle_fail('select-raises', {**desc, 'var': name, 'n': n},
                                f'select_index(wind_index({n}, {info.kind})) [{name}] on a grid of {size} positions: {type(e).__name__}: {e}')
            items.append((sl, pout, {**desc, 'op': sl, 'var': name, 'n': n}))
            if nontriv:
                ctx.nontrivial((str(recipe), name, n))
            if flat is not None and picked is not None:
                a1 = np.asarray(flat.isel(index=n).values, dtype='f8')
                others = [d for d in da.dims if d not in gdims]
                a2 = np.asarray(picked.transpose(*others).values, dtype='f8')
                same = a1.shape == a2.shape and np.array_equal(a1, a2, equal_nan=True)
                if not same:
                    ctx.oracle_fail('ravel-differs-from-select', {**desc, 'var': name, 'n': n},
                                    f'ravel({name})[..., {n}] = {a1.tolist()} but select_index(wind_index({n})) gives {a2.tolist()}')
        ctx.count(f'var:{conv}:{info.kind}')
    # --- sixth round: results asked for first and used after later requests (gen/c02_extra6.py) ---
    X6.held_history(ctx, desc, built, c, items, arr_str)
    # --- end ---


# How a UGRID file lays out its face-node table, walked systematically (not drawn): is the optional
# `face_dimension` attribute written (it may only be left out when the table is stored faces-first), is the table
# stored transposed, and how the number of faces compares with the width of the table (a mesh clipped to a handful of
# cells has fewer faces than nodes per face; a square table says nothing about which axis is which).
UGRID_LAYOUTS = [(declared, transposed, shape)
                 for shape in ('lt', 'eq', 'gt')
                 for declared, transposed in ((False, False), (True, False), (True, True))]


def table_shape(recipe) -> str:
    nface = len(recipe['faces'])
    width = max(len(f) for f in recipe['faces']) + recipe.get('enc', {}).get('pad', 0)
    return 'lt' if nface < width else 'eq' if nface == width else 'gt'


def ugrid_recipe(ctx, layout):
    """a random mesh whose face-node table has the given layout"""
    rng = ctx.rng
    declared, transposed, shape = layout
    recipe = None
    for _ in range(40):
        size = {'max_w': 2, 'max_h': 2} if shape == 'lt' else {'max_w': 3, 'max_h': 2}
        recipe = G.random_recipe(rng, 'ugrid', ctx.tier, coords_as='vars', face_coords=rng.choice([None, 'vars']),
                                 transposed=transposed, **size)
        if shape != 'lt' and len(recipe['faces']) > 3 and rng.random() < 0.5:
            # a few cells cut out of a larger mesh (nodes that no face uses any more stay in the file)
            keep = sorted(rng.sample(range(len(recipe['faces'])), rng.randint(3, len(recipe['faces']))))
            recipe['faces'] = [recipe['faces'][k] for k in keep]
        width = max(len(f) for f in recipe['faces'])
        nface = len(recipe['faces'])
        if shape == 'eq' and nface > width and nface - width <= 2:
            recipe['enc']['pad'] = nface - width       # a table wider than the widest face needs
        elif shape == 'lt' and rng.random() < 0.2:
            recipe['enc']['pad'] = 1
        if table_shape(recipe) == shape:
            break
    recipe['enc']['face_dim_declared'] = declared
    return recipe


_LAYOUT_AT = None


def make_recipe(ctx, k):
    global _LAYOUT_AT
    rng = ctx.rng
    n = len(G.CONVS)
    # every other round of the conventions is followed by one more UGRID case: all nine layouts of the face-node
    # table turn up in any 9 consecutive UGRID cases
    conv = 'ugrid' if k % (2 * n + 1) == 2 * n else G.CONVS[(k % (2 * n + 1)) % n]
    if conv == 'ugrid':
        if _LAYOUT_AT is None:
            _LAYOUT_AT = rng.randrange(len(UGRID_LAYOUTS))
        _LAYOUT_AT += 4            # (4 is coprime to 9: neighbouring cases differ in both respects)
        layout = UGRID_LAYOUTS[_LAYOUT_AT % len(UGRID_LAYOUTS)]
        recipe = ugrid_recipe(ctx, layout)
        ctx.count(f"ugrid-table:{'declared' if recipe['enc']['face_dim_declared'] else 'undeclared'}:"
                  f"{'transposed' if recipe['enc']['transposed'] else 'faces-first'}:{table_shape(recipe)}")
    else:
        recipe = G.random_recipe(rng, conv, ctx.tier, max_n=4)
    return G.attach_vars(rng, recipe, n_vars=3, max_extra=2, with_nan=True)


def run(ctx) -> None:
    global _LAYOUT_AT
    _LAYOUT_AT = None
    rng = ctx.rng
    items: list = []
    for k in range(ctx.budget(55, 330)):
        recipe = make_recipe(ctx, k)
        ctx.guarded(lambda: examine(ctx, recipe, items), {'recipe': recipe})
        if k % 5 == 2:
            # one dataset with several grids, used through several convention objects one after the other
            multi = X.random_multi(rng, ctx.tier)
            ctx.count('multi:' + '+'.join(p['conv'] for p in multi['parts']))
            ctx.guarded(lambda: examine(ctx, multi, items), {'recipe': multi})
    # --- sixth round: large grids (gen/c02_extra6.py), judged by the oracle only ---
    for big in X6.big_recipes(ctx):
        ctx.guarded(lambda: examine(ctx, big, items), {'recipe': big})
    # --- end ---
    if ctx.searching and ctx.driver is None:
        ctx.evaluated(len(items))
        return
    ctx.check_batch(items)


def run_one(ctx, inp):
    items: list = []
    sub = type(ctx)(ctx.prop, ctx.tier, ctx.seed)
    sub.known = []
    examine(sub, inp['recipe'], items)
    out = {}
    if inp.get('op') and ctx.driver:
        for line, impl, _ in items:
            if line.split(' ')[0] == inp['op'].split(' ')[0] and (line == inp['op']):
                out['impl'] = impl
        out['model'] = ctx.model([inp['op']])[0]
    if sub.oracle_failures:
        out['oracle'] = '; '.join(f"{f['signature']}: {f['message']}" for f in sub.oracle_failures[:3])
    return out


def replay(ctx, data) -> int:
    return util.generic_replay(ctx, data, run_one)
