"""C16 — the geometry cache key depends on the geometry and on nothing else."""
from __future__ import annotations

import json
import marshal
import os
import subprocess
import sys
import time

import numpy as np

from harness.gen import c16_extra as X
from harness.gen import c16_extra6 as X6      # round 6
from harness.gen import cachekey as K
from harness.gen import datasets as G
from harness import util

ID = 'C16'
MODULE = 'EmsModel.Props.C16'
DRIVER = 'C16'
EXTRA_MODULES = ['EmsModel.Props.C16Equiv']      # round 6: spellings of names, attribute values that compare equal
REQUIRED = [
    'Ems.C16.hash_int_range', 'Ems.C16.hash_int_decodable', 'Ems.C16.hash_int_injective',
    'Ems.C16.framing_int', 'Ems.C16.framing_string', 'Ems.C16.framing_attributes',
    'Ems.C16.framing_shape_given_rank', 'Ems.C16.shape_rank_not_framed',
    'Ems.C16.key_inputs', 'Ems.C16.global_attrs_and_dims_not_input', 'Ems.C16.non_geometry_data_not_input',
    'Ems.C16.insert_variable_not_input',
    'Ems.C16.edit_rename_changes_stream', 'Ems.C16.edit_dtype_changes_stream',
    'Ems.C16.edit_size_changes_stream', 'Ems.C16.edit_shape_same_rank_changes_stream',
    'Ems.C16.edit_shape_changes_stream', 'Ems.C16.edit_value_changes_stream',
    'Ems.C16.edit_value_position', 'Ems.C16.edit_attributes_changes_stream',
    'Ems.C16.edit_convention_changes_stream', 'Ems.C16.edit_changes_key',
    'Ems.C16.stream_injective_partial', 'Ems.C16.stream_not_injective',
    'Ems.C16.marshal_flags_matter',
    'Ems.C16.ugrid_edge_coordinates_are_geometry', 'Ems.C16.edit_value_changes_stream_any_storage',
    'Ems.C16.hash_fields_generated', 'Ems.C16.hash_loop_generated', 'Ems.C16.trailer_generated',
    'Ems.C16.hash_helpers_generated', 'Ems.C16.hashVar_eq_fields', 'Ems.C16.trailer_eq_fields',
    # round 6 (Props/C16Equiv.lean)
    'Ems.C16.hash_string_injective', 'Ems.C16.spelling_witnesses', 'Ems.C16.scalar_bytes_injective',
    'Ems.C16.equal_numbers_differ', 'Ems.C16.signed_zero_differ', 'Ems.C16.attribute_scalar_changes_stream',
]
RULE = ('base datasets of all five convention classes from harness/gen/datasets.py (in memory and after a netCDF '
        'round trip, geometry variables enriched with string / int / float / numpy scalar / numpy array attributes; '
        'UGRID with every subset of optional connectivity, size-two dimension called Two or not; further bases whose '
        'floating point geometry variables are stored (encoding dtype) with another float type than their values have, '
        'and UGRID meshes with edge coordinates, with and without a declared edge dimension / edge table); '
        'per base every kind of non-geometry edit (data variable added on grid / time / scalar / new dimension / '
        'as first variable on a new leading dimension, one value changed, removed, all removed, attribute, renamed; '
        'time steps; time coordinate; global attribute add / change / remove; variable order; dimension renames; '
        'coordinate status; dask chunks; deep copy) and per geometry variable every kind of single geometry edit '
        '(one value, also by one unit in the last place; dtype by astype / by reinterpreting the same bytes / in place; shape with the same bytes: '
        'append 1, prepend 1, reversed, flattened, split; rename incl. non-ASCII; attribute add / change / remove; '
        'convention: subclass in another module, same module other name, same name other module, ShocSimple as CFGrid2D). '
        'Every case is rebuilt from its recipe; the byte stream fed to the hash object by the real make_cache_key is '
        'recorded and compared with the model\'s stream, inventory, first-difference position and value position; '
        'hash_int / hash_string / hash_attributes are called directly on boundary and random values; unusual '
        'configurations exercise the inventories\' error branches; equal-geometry probes (fresh attribute objects, '
        'netCDF reload, pickle, a live shallow copy, one file vs open_mfdataset) look for keys that depend on more '
        'than the geometry; keys are recomputed in fresh interpreters with different PYTHONHASHSEEDs. '
        'Datasets of realistic size (harness/gen/c16_extra.py: all five convention classes built with numpy, the '
        'largest multi-dimensional geometry variable of 2*10^3 .. 4*10^5 elements, three of every five bases beyond '
        '7*10^4) are judged by the direct oracle alone: non-geometry edits and other representations of the same values '
        '(one / many dask chunks, column-major memory, deep copy) must keep the key; one value changed (by one, or by '
        'one unit in the last place) at positions spread over the whole array - first, middle, last element, one random '
        'element per quarter, both sides of two random powers of two (of every power of two from 2^10 up in the largest '
        'variable) - and one shape / name / attribute edit per '
        'variable and the convention edits must change it. '
        'Pairs of datasets that a coarser notion of equality would identify (harness/gen/c16_extra6.py), on one base per '
        'convention class with scalar-only attribute dictionaries and with the enriched ones: one geometry variable / the '
        'convention class renamed to two spellings of one name, one attribute text / attribute name spelled two ways '
        '(NFC, NFD, NFKC, NFKD, order of combining marks, upper / lower / casefold, an invisible code point, surrounding '
        'white space), one attribute holding two values that compare equal in Python and differ in type or representation '
        '(int / float / bool / numpy integer and float scalars of every width / -0.0 / str and numpy.str_ / tuples; never '
        'two numpy values with the same bytes: the known type-erasure finding); both keys are computed one after the other '
        'in one process, in random order, and must differ; some pairs are recomputed in the fresh interpreters in the other '
        'order; the scalar model of marshal is compared with CPython\'s marshal on every representation of every number. '
        'A case is non-trivial when it is an edit, a probe or an out-of-range / non-ASCII helper input; distinct = '
        'distinct (convention, netCDF?, edit kind, role of the edited variable, edit parameters).')
TRUSTED = [
    'hashlib.blake2b is collision-free on the streams considered (parameter H of the theorems, assumed injective)',
    'marshal.dumps(attrs, 4) is an opaque serialiser: the model receives its output as a byte blob; that equal '
    'attribute content gives equal blobs and different content different blobs is cross-checked on every '
    'generated attribute dictionary, not proved (finding F10: it is not a function of the content)',
    'numpy: int32(v).tobytes() is 4-byte little-endian two\'s complement; ndarray.tobytes("C"); dtype.name; '
    'numpy >= 2 raises OverflowError for an out-of-range Python int in numpy.array(shape, dtype="int32")',
    'xarray: Dataset.variables order, DataArray.attrs / encoding / shape / size, Dataset.__getitem__',
]
ASSUMPTIONS = [
    'variable and attribute names are str; attribute values the inventories read (bounds, cf_role, mesh topology '
    'attributes, standard_name, units, axis) are str',
    'the optional UGRID connectivity variables generated are valid by construction (the dimension checks of '
    'Mesh2DTopology.has_valid_* are an abstract predicate of the model, C10 owns them)',
    'the UGRID mesh variable and connectivity tables are data variables (Mesh2DTopology looks them up in data_vars); '
    'node / face coordinates are generated both as data variables and as xarray coordinates',
    'attribute ORDER is part of the key (marshal serialises the dict in order); reordering attributes is outside '
    'the property\'s quantifier and is not judged by the oracle (only counted)',
]
LEVEL_NOTE = ('stream_injective_partial: full injectivity needs the number of geometry variables and the rank of '
              'each to be known, because the shape is hashed without its length (stream_not_injective is the '
              'witness); every SINGLE edit of the quantifier is nevertheless proved to change the stream. '
              'blake2b and marshal are parameters (see trusted base).')

SIG_F10 = 'cache-key-marshal-string-flags'
SIG_ENC = 'cache-key-encoding-dtype-overrides-dtype'
SIG_PUN = 'cache-key-attr-type-erased'
SIG_TWO = 'cache-key-ugrid-two-dimension-guess'
SIG_PREC = 'cache-key-blind-below-storage-precision'
SIG_BIG = 'cache-key-large-array-value-edit-keeps-key'


# --------------------------------------------------------------------------
# encoding for the line protocol

def hx(s: str) -> str:
    b = s.encode('utf-8')
    return b.hex() if b else '-'


def hb(b: bytes) -> str:
    return b.hex() if b else '-'


def spec_str(state: dict) -> str:
    conv = state['conv']
    kw = state.get('kwargs', {})
    if conv in ('cf1d', 'cf2d'):
        lat, lon = kw.get('latitude'), kw.get('longitude')
        return f"cf:{'-' if lat is None else hx(lat)}:{'-' if lon is None else hx(lon)}"
    if conv == 'shoc_simple':
        return 'shoc_simple'
    if conv == 'shoc_standard':
        cn = kw.get('coordinate_names')
        if cn is None:
            from emsarray.conventions.shoc import ShocStandard   # live table of the working tree
            cn = {k.value: list(v) for k, v in ShocStandard.coordinate_names.items()}
        return 'arakawa:' + ','.join(f'{k}={hx(v[0])}/{hx(v[1])}' for k, v in cn.items())
    roles = state.get('valid_roles', [])
    return f"ugrid:{','.join(roles) if roles else '-'}"


def vars_str(ds, state: dict) -> str:
    expected = set(state['expected'])
    names = list(ds.variables)
    blobs = {n: marshal.dumps(ds.variables[n].attrs, 4) for n in names}
    parts = []
    for n in names:
        v = ds.variables[n]
        vals = np.asarray(v.values)
        enc = v.encoding.get('dtype')
        data = np.ascontiguousarray(vals).tobytes('C')
        datahex = '*' if (n not in expected and len(data) > 64) else hb(data)
        attrs = v.attrs
        sattrs = ','.join(f'{hx(k)}={hx(val)}' for k, val in list(attrs.items())
                          if type(k) is str and isinstance(val, str)) or '-'
        parts.append(':'.join([
            hx(str(n)), ','.join(hx(str(d)) for d in v.dims) or '-', 'c' if n in ds.coords else 'd',
            hx(vals.dtype.name), '-' if enc is None else hx(enc.name),
            'x'.join(str(s) for s in vals.shape) or '-', datahex, str(len(attrs)), hb(blobs[n]), sattrs]))
    return ';'.join(parts) or '-'


def geometry_content(ds, state: dict):
    """independent statement of 'the geometry': names, types, shapes, values, attributes, convention"""
    out = []
    for n in state['expected']:
        v = ds.variables[n]
        vals = np.asarray(v.values)
        out.append((n, vals.dtype.name, tuple(vals.shape), np.ascontiguousarray(vals).tobytes('C'),
                    json.dumps(K.canon_attrs(v.attrs))))
    cls = K.convention_class(state)
    return out, (cls.__module__, cls.__name__)


def first_diff(a: bytes, b: bytes) -> str:
    n = min(len(a), len(b))
    for k in range(n):
        if a[k] != b[k]:
            return f'pos:{k}'
    return 'same' if len(a) == len(b) else f'len:{len(a)},{len(b)}'


# --------------------------------------------------------------------------
# one evaluated case

class Eval:
    def __init__(self, case: dict):
        import emsarray
        from emsarray.operations.cache import make_cache_key
        self.case = case
        self.ok = False
        self.error = None
        self.key = self.stream = self.names = None
        self.ds, self.state, self.built = K.materialise(case)
        old_version = emsarray.__version__
        try:
            if case.get('version') is not None:
                emsarray.__version__ = case['version']
            self.version = emsarray.__version__
            try:
                conv = K.make_convention(self.ds, self.state)
                rec = K.Recorder()
                self.key_rec = make_cache_key(self.ds, rec)
                self.key = make_cache_key(self.ds)
                self.stream = rec.stream
                self.chunks = rec.chunks
                self.names = [str(n) for n in conv.get_all_geometry_names()]
                self.ok = True
            except Exception as ex:  # noqa
                self.error = f'{type(ex).__name__}: {ex}'
        finally:
            emsarray.__version__ = old_version
        cls = K.convention_class(self.state)
        self.cls_id = (cls.__module__, cls.__name__)
        # model input: taken from the xarray objects AFTER the real call (reference counts settle
        # once emsarray's cached properties exist), never from emsarray
        if case.get('big') is not None:
            # datasets of realistic size are judged by the direct oracle only (megabytes of values per line are
            # cheap to hash and expensive to send through the driver)
            self.spec = self.vars = None
        else:
            self.spec = spec_str(self.state)
            self.vars = vars_str(self.ds, self.state)

    def head(self) -> str:
        return f'{self.spec} {hx(self.cls_id[0])} {hx(self.cls_id[1])} {hx(self.version)} {self.vars}'

    def stream_line(self) -> str:
        return 'stream ' + self.head()

    def inv_line(self) -> str:
        return f'inv {self.spec} {self.vars}'

    def stream_out(self) -> str:
        return hb(self.stream) if self.ok else 'ERR'

    def inv_out(self) -> str:
        if not self.ok:
            return 'ERR'
        return ','.join(hx(n) for n in self.names) or '-'

    def blobs(self) -> dict:
        return {n: (json.dumps(K.canon_attrs(self.ds.variables[n].attrs)), marshal.dumps(self.ds.variables[n].attrs, 4))
                for n in self.state['expected'] if n in self.ds.variables}


def same_bytes_same_stored_name(vb, ve) -> bool:
    """both variables hash the same type name although their values have different types, because the name comes
    from `encoding['dtype']` for at least one of them"""
    try:
        eb, ee = vb.encoding.get('dtype'), ve.encoding.get('dtype')
        nb = np.dtype(eb).name if eb is not None else np.asarray(vb.values).dtype.name
        ne = np.dtype(ee).name if ee is not None else np.asarray(ve.values).dtype.name
        return (eb is not None or ee is not None) and nb == ne
    except Exception:  # noqa
        return False


def stored_narrower(var) -> bool:
    """the variable is stored (`encoding['dtype']`) with a numeric type of fewer bytes than its values have"""
    try:
        enc = var.encoding.get('dtype')
        return enc is not None and np.dtype(enc).itemsize < np.asarray(var.values).dtype.itemsize
    except Exception:  # noqa
        return False


def two_dimension_guess_wrong(e: Eval) -> bool:
    """UGRID: `Mesh2DTopology.two_dimension` is 'Two' if that is a dimension of size 2, else the FIRST dimension
    of size 2 of the whole dataset.  True when that guess is not a dimension of the edge tables the generator
    built, so that they are (wrongly) judged invalid and silently left out of the inventory."""
    if e.state['conv'] != 'ugrid':
        return False
    sizes = dict(e.ds.sizes)
    guess = 'Two' if sizes.get('Two') == 2 else next((d for d, n in e.ds.sizes.items() if n == 2), 'Two')
    roles = K._ugrid_role_names(e.ds, e.state)
    for role in ('edge_node_connectivity', 'edge_face_connectivity'):
        name = roles.get(role)
        if role in e.state['valid_roles'] and name in e.ds.variables and guess not in e.ds.variables[name].dims:
            return True
    return False


def flags_only_difference(a: Eval, b: Eval) -> list:
    """geometry variables whose attributes are content-equal in a and b but marshal differently"""
    out = []
    ba, bb = a.blobs(), b.blobs()
    for n in ba:
        if n in bb and ba[n][0] == bb[n][0] and ba[n][1] != bb[n][1]:
            out.append(n)
    return out


# --------------------------------------------------------------------------
# edit generators

def role_of(state: dict, name: str) -> str:
    exp = state['expected']
    return f"{state['conv']}#{exp.index(name)}" if name in exp else 'data'


def nongeo_edit_sets(rng, ev: Eval) -> list:
    ds, built, state = ev.ds, ev.built, ev.state
    data_vars = [n for n in built.vars if n in ds.variables]
    shoc = state['conv'] == 'shoc_simple'
    vattrs = {'units': 'kg', **({'standard_name': 'sea_water_mass'} if shoc else {})}
    E = []
    for on, name, dt in [('grid', 'extra_a', 'f8'), ('time', 'extra_t', 'f8'), ('scalar', 'extra_s', 'i4'),
                         ('newdim', 'extra_n', 'i4')]:
        E.append(('add_var:' + on, [{'op': 'add_var', 'name': name, 'on': on, 'base': rng.randint(0, 99), 'dtype': dt,
                                     'attrs': vattrs}]))
    if data_vars:
        dv = rng.choice(data_vars)
        E.append(('change_var', [{'op': 'change_var', 'name': dv, 'flat': rng.randint(0, 50)}]))
        E.append(('remove_var', [{'op': 'remove_var', 'name': dv}]))
        E.append(('remove_all_vars', [{'op': 'remove_var', 'name': n} for n in data_vars]))
        E.append(('var_attr', [{'op': 'var_attr', 'name': dv, 'key': 'note', 'value': 'changed ' * rng.randint(1, 3)}]))
        E.append(('rename_var', [{'op': 'rename_var', 'name': dv, 'to': dv + '_renamed'}]))
    for n in (2, 3):      # as the FIRST variable, on a new leading dimension (of size two: see SIG_TWO)
        E.append(('add_var:leading', [{'op': 'prepend_var', 'name': 'lead', 'dim': 'lead_dim', 'n': n,
                                       'attrs': {'units': '1'}}]))
    E.append(('time_steps', [{'op': 'time_steps', 'n': rng.choice([1, 2, 4, 5])}]))
    E.append(('time_coord', [{'op': 'time_coord', 'start': float(rng.randint(0, 9)), 'step': 0.5}]))
    E.append(('gattr_add', [{'op': 'gattr', 'key': 'institution', 'value': 'x' * rng.randint(1, 40)}]))
    E.append(('gattr_change', [{'op': 'gattr', 'key': 'Conventions', 'value': 'something else'}]))
    E.append(('gattr_remove', [{'op': 'gattr', 'key': 'Conventions', 'value': None}]))
    E.append(('reorder', [{'op': 'reorder', 'seed': rng.randint(0, 10 ** 6)}]))
    E.append(('rename_dim:time', [{'op': 'rename_dim', 'dim': 'time', 'to': 'record'}]))
    gdims = []
    named = set()       # dimensions a geometry attribute refers to by name (UGRID face_dimension / edge_dimension)
    for n in state['expected']:
        named.update(v for v in ds.variables[n].attrs.values() if isinstance(v, str))
    for n in state['expected']:
        for d in ds.variables[n].dims:
            if d not in gdims and d not in ds.variables and d not in named:
                gdims.append(d)
    if gdims and not shoc:      # ShocSimple finds its coordinates BY the dimension names (j, i)
        d = rng.choice(gdims)
        E.append(('rename_dim:geometry', [{'op': 'rename_dim', 'dim': d, 'to': 'renamed_' + d}]))
    names = [n for n in state['expected'] if n not in ds.dims]
    if state['conv'] == 'ugrid':
        # the mesh variable and the connectivity tables must stay data variables (Mesh2DTopology looks them up in
        # data_vars); the node / face coordinate variables may be held either way
        names = [n for n in names if n.rsplit('_', 1)[-1] in ('x', 'y')]
    E.append(('set_coords', [{'op': 'set_coords', 'names': names}]))
    E.append(('reset_coords', [{'op': 'reset_coords', 'names': names}]))
    E.append(('chunk', [{'op': 'chunk'}]))
    E.append(('chunk:small', [{'op': 'chunk', 'size': rng.choice([1, 2, 3])}]))
    # same values, other memory layout (column-major) of every geometry variable with >= 2 dimensions
    E.append(('memory_layout', [{'op': 'fortran_layout', 'names': list(state['expected'])}]))
    E.append(('deep_copy', [{'op': 'copy', 'deep': True}]))
    return E


OTHER_WIDTH = {'float64': 'float32', 'float32': 'float64', 'int32': 'int64', 'int64': 'int32',
               'uint32': 'int64', 'int16': 'int32'}
SAME_WIDTH = {'float64': ['int64', 'uint64'], 'float32': ['int32'], 'int32': ['uint32', 'float32'],
              'int64': ['float64', 'uint64'], 'uint32': ['int32']}
NEW_ATTRS = [('note', 'added'), ('note', 'ünïcode ✓'), ('count', 7), ('ratio', {'t': 'float', 'v': 0.25}),
             ('fill', {'t': 'np', 'dtype': 'int32', 'v': -999}), ('span', {'t': 'arr', 'dtype': 'float64', 'v': [0.0, 1.5]}),
             ('flag', {'t': 'np', 'dtype': 'uint8', 'v': 3})]


def geo_edit_sets(rng, ev: Eval, full_vars: int) -> list:
    ds, state = ev.ds, ev.state
    expected = list(state['expected'])
    order = list(expected)
    rng.shuffle(order)
    E = []
    for idx, name in enumerate(order):
        v = ds.variables[name]
        vals = np.asarray(v.values)
        dt = vals.dtype.name
        size = max(int(vals.size), 1)
        full = idx < full_vars
        one = [{'op': 'g_value', 'var': name, 'flat': rng.randrange(size)}]
        if vals.dtype.kind == 'f' and np.isfinite(vals).any():
            # the smallest change of a value: one element moved to the next number its type can represent
            finite = [int(k) for k in np.flatnonzero(np.isfinite(vals.reshape(-1)))]
            E.append(('value:ulp', name, [{'op': 'g_value', 'var': name, 'flat': rng.choice(finite), 'how': 'ulp'}]))
        E.append(('value', name, one))
        if not full:
            # the other geometry variables get one more edit of a random kind
            how = rng.choice(['append1', 'prepend1', 'reverse', 'flatten', 'split'])
            E.append(rng.choice([
                ('shape:' + how, name, [{'op': 'g_shape', 'var': name, 'how': how}]),
                ('rename', name, [{'op': 'g_rename', 'var': name, 'to': name + '_r'}]),
                ('attr_add', name, [{'op': 'g_attr_add', 'var': name, 'key': 'note', 'value': 'added'}]),
            ]))
            continue
        if vals.dtype.kind == 'f' and not np.isnan(vals).all():
            E.append(('value', name, [{'op': 'g_value', 'var': name, 'flat': rng.randrange(size), 'how': 'nan'}]))
        if dt in OTHER_WIDTH:
            E.append(('dtype:astype', name, [{'op': 'g_dtype', 'var': name, 'to': OTHER_WIDTH[dt], 'how': 'astype'}]))
        for to in SAME_WIDTH.get(dt, [])[:1 + rng.randrange(2)]:
            E.append(('dtype:view', name, [{'op': 'g_dtype', 'var': name, 'to': to, 'how': 'view'}]))
            E.append(('dtype:inplace', name, [{'op': 'g_dtype', 'var': name, 'to': to, 'how': 'inplace_view'}]))
        for how in ['append1', 'prepend1', 'reverse', 'flatten', 'split']:
            E.append(('shape:' + how, name, [{'op': 'g_shape', 'var': name, 'how': how}]))
        E.append(('rename', name, [{'op': 'g_rename', 'var': name, 'to': rng.choice([name + '_r', 'r_' + name, name + '_ω', 'x'])}]))
        k, val = rng.choice(NEW_ATTRS)
        E.append(('attr_add', name, [{'op': 'g_attr_add', 'var': name, 'key': k, 'value': val}]))
        # attribute names of every shape count, also the underscore-prefixed ones netCDF tools write
        k, val = rng.choice([('_CoordinateAxisType', 'Lat'), ('_note', 'added'), ('_Storage', 'chunked'), ('_', 1),
                             ('__x', {'t': 'float', 'v': 0.5})])
        E.append(('attr_add', name, [{'op': 'g_attr_add', 'var': name, 'key': k, 'value': val}]))
        neutral = [k for k, _ in K.NEUTRAL_ATTRS if k in v.attrs]
        for k in rng.sample(neutral, min(len(neutral), 3)):
            E.append(('attr_change', name, [{'op': 'g_attr_change', 'var': name, 'key': k, 'variant': rng.randrange(4)}]))
        if neutral:
            E.append(('attr_remove', name, [{'op': 'g_attr_remove', 'var': name, 'key': rng.choice(neutral)}]))
        if 'bounds' in v.attrs and v.attrs['bounds'] in expected:
            E.append(('attr_remove:bounds', name, [{'op': 'g_attr_remove', 'var': name, 'key': 'bounds'}]))
        if 'valid_min' in v.attrs:
            E.append(('attr_pun', name, [{'op': 'g_attr_pun', 'var': name, 'key': 'valid_min'}]))
        if len(v.attrs) >= 2:
            E.append(('attr_reorder', name, [{'op': 'g_attr_reorder', 'var': name}]))
    E.append(('convention:subclass', None, [{'op': 'g_conv', 'to': 'subclass'}]))
    E.append(('convention:subclass-same-module', None, [{'op': 'g_conv', 'to': 'subclass:name'}]))
    E.append(('convention:subclass-same-name', None, [{'op': 'g_conv', 'to': 'subclass:module'}]))
    if state['conv'] == 'shoc_simple':
        E.append(('convention:cf2d', None, [{'op': 'g_conv', 'to': 'cf2d'}]))
    return E


# --------------------------------------------------------------------------
# direct calls of the three hashing helpers

INT_PROBES = [0, 1, -1, 4, 255, 256, 65535, 65536, 16777215, 16777216, 1234, 2 ** 31 - 5, 2 ** 31 - 1, 2 ** 31,
              2 ** 31 + 1, -2 ** 31, -2 ** 31 - 1, -2 ** 31 + 1, 2 ** 32, 2 ** 32 - 1, 2 ** 32 + 7, -2 ** 32, 2 ** 40,
              -2 ** 40, 2 ** 63, 2 ** 64 + 3, 10 ** 30]
STR_PROBES = ['', 'a', '1234', 'lat', 'float64', 'é', 'naïve', '€', '😀', 'a😀b€cé', '\x00', 'a\x00b', ' ', 'x' * 300,
              '\x7f\x80', '߿ࠀ', '￿\U00010000', '\U0010ffff', '\ud800', 'ab\udfffcd', 'emsarray.conventions.grid']
ATTR_PROBES = [
    {}, {'a': 'b'}, {'units': 'degrees_north', 'standard_name': 'latitude'}, {'n': 1}, {'n': 10 ** 12}, {'x': 1.5},
    {'f': np.float32(2.5)}, {'i': np.int32(-999)}, {'r': np.array([0, 360], dtype='i2')}, {'s': 'é€😀'},
    {'l': [1, 2, 3]}, {'t': (1, 'a')}, {'k': 'v', 'k2': 'v'}, {'b': b'bytes'}, {'none': None, 'true': True},
    {'long': 'x' * 300}, {str(i): i for i in range(20)},
]


def direct_items(ctx, rng) -> list:
    from emsarray.operations import cache
    items = []
    ints = list(INT_PROBES) + [rng.randint(-2 ** 31, 2 ** 31 - 1) for _ in range(ctx.budget(40, 400))] \
        + [rng.randint(-2 ** 34, 2 ** 34) for _ in range(ctx.budget(20, 200))]
    for v in ints:
        rec = K.Recorder()
        try:
            cache.hash_int(rec, v)
            out = hb(rec.stream)
        except Exception:
            out = 'ERR'
        inside = -2 ** 31 <= v <= 2 ** 31 - 1
        # direct oracle: refused exactly outside int32, never wrapped, 4 bytes that read back
        if inside:
            if out == 'ERR' or int.from_bytes(bytes.fromhex(out), 'little', signed=True) != v or len(out) != 8:
                ctx.oracle_fail('hash-int-wrong-bytes', {'direct': 'int', 'v': v}, f'hash_int({v}) fed {out}')
        elif out != 'ERR':
            ctx.oracle_fail('hash-int-out-of-range-accepted', {'direct': 'int', 'v': v},
                            f'hash_int({v}) did not raise and fed {out}')
        line = f'int {v}'
        items.append((line, out, {'direct': 'int', 'v': v, 'op': line}))
        ctx.count('direct:int:' + ('in' if inside else 'out'))
        if not inside or abs(v) >= 2 ** 24:
            ctx.nontrivial(('int', v))
    strs = list(STR_PROBES)
    alphabet = 'ab_ 0é€😀\x00ω'
    for _ in range(ctx.budget(20, 200)):
        strs.append(''.join(rng.choice(alphabet) for _ in range(rng.randint(0, 12))))
    for s in strs:
        rec = K.Recorder()
        try:
            cache.hash_string(rec, s)
            out = hb(rec.stream)
        except Exception:
            out = 'ERR'
        cps = ','.join(str(ord(c)) for c in s) or '-'
        line = f'str {cps}'
        items.append((line, out, {'direct': 'str', 'cps': [ord(c) for c in s], 'op': line}))
        ctx.count('direct:str')
        if any(ord(c) > 127 for c in s) or not s:
            ctx.nontrivial(('str', s))
    for d in ATTR_PROBES:
        rec = K.Recorder()
        try:
            cache.hash_attributes(rec, d)
            out = hb(rec.stream)
        except Exception:
            out = 'ERR'
        blob = marshal.dumps(d, 4)
        line = f'attrs {len(d)} {hb(blob)}'
        items.append((line, out, {'direct': 'attrs', 'repr': repr(d)[:200], 'op': line}))
        ctx.count('direct:attrs')
        ctx.nontrivial(('attrs', repr(d)[:80]))
    return items


# --------------------------------------------------------------------------
# the F10 quirk model of marshal (str -> str dictionaries of short ASCII strings)

def parse_marshal_strdict(blob: bytes):
    """(dict shared?, [(text, interned, shared, ident) pairs]) read off a real marshal blob, or None
    when the blob contains anything but short ASCII strings"""
    if not blob or blob[0] not in (0x7b, 0xfb):
        return None
    shared = blob[0] == 0xfb
    table = [0] if shared else []
    objs = []
    by_ident = {}
    i, next_id = 1, 1
    while True:
        if i >= len(blob):
            return None
        t = blob[i]
        i += 1
        if t == 0x30:
            break
        if t in (0x7a, 0xfa, 0xda):
            n = blob[i]
            text = blob[i + 1:i + 1 + n]
            i += 1 + n
            if any(c > 127 for c in text):
                return None
            o = (text.decode('ascii'), t == 0xda, t in (0xfa, 0xda), next_id)
            by_ident[next_id] = o
            if t & 0x80:
                table.append(next_id)
            next_id += 1
            objs.append(o)
        elif t == 0x72:
            idx = int.from_bytes(blob[i:i + 4], 'little')
            i += 4
            if idx >= len(table) or table[idx] == 0:
                return None
            objs.append(by_ident[table[idx]])
        else:
            return None
    if i != len(blob) or len(objs) % 2:
        return None
    return shared, list(zip(objs[0::2], objs[1::2]))


def marshal_items(ctx, rng, extra_dicts: list) -> list:
    lit = {'standard_name': 'latitude', 'units': 'degrees_north', 'axis': 'Y'}
    fresh = {K.fresh_value(k): K.fresh_value(v) for k, v in lit.items()}
    shared_value = K.fresh_value('shared text')
    twice = {K.fresh_value('a'): shared_value, K.fresh_value('bb'): shared_value, 'c': 'latitude', 'latitude': 'c'}
    dicts = [lit, fresh, twice, {}, {'k': 'v'}, {K.fresh_value('long'): K.fresh_value('x' * 255)}] + extra_dicts
    for _ in range(ctx.budget(10, 60)):
        d = {}
        for _ in range(rng.randint(0, 5)):
            k = rng.choice(['units', 'standard_name', 'axis', 'bounds', 'note', 'k' + str(rng.randint(0, 9))])
            v = rng.choice(['m', 'latitude', 'degrees_east', 'X', 'v' + str(rng.randint(0, 9))])
            d[k if rng.random() < 0.5 else K.fresh_value(k)] = v if rng.random() < 0.5 else K.fresh_value(v)
        dicts.append(d)
    items = []
    for d in dicts:
        blob = marshal.dumps(d, 4)
        parsed = parse_marshal_strdict(blob)
        if parsed is None:
            ctx.count('marshal-model:unsupported')
            continue
        shared, pairs = parsed
        enc = ','.join('~'.join(f'{hx(t)}/{int(i)}/{int(s)}/{ident}' for t, i, s, ident in pair) for pair in pairs) or '-'
        line = f'marshal {int(shared)} {enc}'
        items.append((line, hb(blob), {'direct': 'marshal', 'repr': repr(d)[:200], 'op': line}))
        ctx.count('marshal-model')
        ctx.nontrivial(('marshal', hb(blob)))
        # the content is what the texts say
        if [(a[0], b[0]) for a, b in pairs] != list(d.items()):
            raise AssertionError('harness: marshal blob parsed to other texts than the dictionary holds')
    return items


# --------------------------------------------------------------------------
# malformed / unusual configurations: correspondence of the inventories' error branches

def malformed_cases(rng, tier: str) -> list:
    out = []

    def base(conv, **kw):
        r = G.random_recipe(rng, conv, tier, **kw)
        return G.attach_vars(rng, r, n_vars=1)
    # CF: explicit names, one missing; no candidate at all; bounds naming a missing variable
    r = base('cf1d', bounds='contig')
    lat, lon = r['latname'], r['lonname']
    out.append(('cf-explicit', {'recipe': r, 'edits': [], 'kwargs': {'latitude': lat, 'longitude': lon}}))
    out.append(('cf-explicit-missing', {'recipe': r, 'edits': [], 'kwargs': {'latitude': 'nope', 'longitude': lon}}))
    out.append(('cf-bounds-missing', {'recipe': r, 'edits': [{'op': 'remove_var', 'name': lon + '_bnds'}],
                                      'expected_drop': [lon + '_bnds']}))
    r2 = dict(base('cf1d', bounds='none'))
    r2['lat_attrs'] = {'long_name': 'no marker'}
    out.append(('cf-no-latitude', {'recipe': r2, 'edits': []}))
    r3 = dict(base('cf1d', bounds='none'))
    r3['lat_attrs'] = {'axis': 'Y'}
    r3['lon_attrs'] = {'units': 'degree_E'}
    out.append(('cf-axis-units', {'recipe': r3, 'edits': []}))
    # two latitude candidates: the first in `variables` order wins
    r4 = base('cf2d', bounds='none', holes=False)
    out.append(('cf-second-candidate', {'recipe': r4, 'edits': [
        {'op': 'add_var', 'name': 'other_lat', 'on': 'grid', 'attrs': {'standard_name': 'latitude'}}]}))
    # ShocSimple: a (j, i) variable without standard_name met before the coordinates raises KeyError
    r5 = base('shoc_simple', bounds='none', holes=False, coords_as='vars')
    for s in range(3):
        out.append(('shoc-simple-order', {'recipe': r5, 'edits': [
            {'op': 'add_var', 'name': 'aaa', 'on': 'grid', 'attrs': {'units': 'm'}}, {'op': 'reorder', 'seed': s}]}))
    # SHOC standard: a coordinate variable missing
    r6 = base('shoc_standard', holes=False)
    out.append(('shoc-standard-missing', {'recipe': r6, 'edits': [{'op': 'remove_var', 'name': 'x_left'}]}))
    # UGRID: explicit topology key; mesh attribute naming absent variables; one-word coordinates; extra roles
    r7 = base('ugrid', coords_as='vars', tables=['face_edge', 'edge_node'])
    for s in range(3):      # a second variable with cf_role = mesh_topology: the first data variable wins
        out.append(('ugrid-two-meshes', {'recipe': r7, 'edits': [
            {'op': 'add_var', 'name': 'OtherMesh', 'on': 'scalar', 'dtype': 'i4', 'attrs': {'cf_role': 'mesh_topology'}},
            {'op': 'reorder', 'seed': s}]}))
    for key, val, tag in [('face_face_connectivity', 'absent_variable', 'ugrid-role-absent'),
                          ('edge_coordinates', 'absent_x absent_y', 'ugrid-coords-absent'),
                          ('edge_coordinates', 'oneword', 'ugrid-coords-oneword'),
                          ('face_coordinates', 'Mesh2_node_x absent_y', 'ugrid-coords-half')]:
        out.append((tag, {'recipe': r7, 'edits': [{'op': 'g_attr_add', 'var': 'Mesh2', 'key': key, 'value': val}],
                          'expected_add': (['Mesh2_node_x'] if tag == 'ugrid-coords-half' else [])}))
    out.append(('ugrid-no-mesh', {'recipe': r7, 'edits': [{'op': 'remove_var', 'name': 'Mesh2'}]}))
    out.append(('ugrid-no-node-y', {'recipe': r7, 'edits': [{'op': 'remove_var', 'name': 'Mesh2_node_y'}]}))
    return [c for c in out if c is not None]


# --------------------------------------------------------------------------
# fresh interpreters

def run_children(cases: list, seeds: list) -> dict:
    """{seed: result}; every child interpreter rebuilds every case from its description.
    Payload, stdout and stderr go through temporary files (a pipe would fill up and stall)."""
    import tempfile
    env0 = dict(os.environ)
    procs = {}
    results = {}
    pending = list(seeds)
    max_par = min(8, max(1, (os.cpu_count() or 2) // 2))
    root = str(util.__file__).rsplit('/harness/', 1)[0]
    with tempfile.TemporaryDirectory(prefix='verif_c16_children_') as tmp:
        payload = os.path.join(tmp, 'cases.json')
        with open(payload, 'w') as f:
            json.dump({'cases': cases}, f)
        while pending or procs:
            while pending and len(procs) < max_par:
                seed = pending.pop(0)
                env = dict(env0, PYTHONHASHSEED=str(seed), PYTHONWARNINGS='ignore')
                fout = open(os.path.join(tmp, f'out_{seed}'), 'w+')
                ferr = open(os.path.join(tmp, f'err_{seed}'), 'w+')
                p = subprocess.Popen([sys.executable, '-m', 'harness.gen.cachekey'], cwd=root, env=env,
                                     stdin=open(payload), stdout=fout, stderr=ferr, text=True)
                procs[seed] = (p, fout, ferr)
            for seed, (p, fout, ferr) in list(procs.items()):
                if p.poll() is None:
                    continue
                del procs[seed]
                fout.seek(0)
                ferr.seek(0)
                out, err = fout.read(), ferr.read()
                fout.close()
                ferr.close()
                line = [l for l in out.splitlines() if l.startswith('C16CHILD ')]
                if p.returncode != 0 or not line:
                    raise RuntimeError(f'child interpreter (PYTHONHASHSEED={seed}) failed: rc={p.returncode}\n{err[-1500:]}')
                results[seed] = json.loads(line[0][len('C16CHILD '):])
            time.sleep(0.02)
    return results


# --------------------------------------------------------------------------

def base_cases(ctx, rng) -> list:
    n = ctx.budget(10, 80)
    out = []
    for d in range(n):
        conv = G.CONVS[d % len(G.CONVS)]
        kw = {}
        if conv == 'ugrid':
            kw = {'coords_as': rng.choice(['vars', 'coords']), 'face_coords': rng.choice([None, 'vars', 'coords'])}
            two_dim = rng.choice(['Two', 'Two', 'nMesh2_two'])
            if d == G.CONVS.index('ugrid'):
                # the first UGRID base always has edge tables on a size-2 dimension that is not called 'Two'
                two_dim = 'nMesh2_two'
                kw['tables'] = rng.choice([['edge_node'], ['edge_node', 'face_edge'], ['edge_node', 'edge_face', 'face_face']])
        elif conv in ('cf1d', 'cf2d', 'shoc_simple'):
            kw = {'coords_as': rng.choice(['coords', 'vars'])}
            if conv != 'cf1d':
                kw['holes'] = rng.random() < 0.5
        else:
            kw = {'coords_as': rng.choice(['coords', 'vars'])}
        if ctx.tier == 'quick':
            kw.update({'max_n': 4} if conv != 'ugrid' else {'max_w': 2, 'max_h': 2})
        recipe = G.random_recipe(rng, conv, ctx.tier, **kw)
        if conv == 'ugrid':
            recipe['names'] = {'two_dim': two_dim}
            enc = recipe['enc']
            if 'face_edge' in enc['tables'] and not {'edge_node', 'edge_face'} & set(enc['tables']):
                # UGRID allows face_edge_connectivity only together with edges; without an edge dimension
                # Mesh2DTopology.has_valid_face_edge_connectivity raises (C10's ground, not a dataset of ours)
                enc['edge_dim_declared'] = True
        # alternate in-memory / netCDF so that every convention sees both within 10 bases
        out.append(finish_base(rng, conv, recipe, (d // len(G.CONVS)) % 2 == 1))
    return out


def finish_base(rng, conv: str, recipe: dict, netcdf: bool) -> dict:
    recipe = G.attach_vars(rng, recipe, n_vars=rng.randint(1, 3), dtypes=('f8', 'i4'))
    if conv == 'shoc_simple':
        for vr in recipe['vars']:
            vr['attrs'] = {'standard_name': 'sea_water_something'}
    return {'recipe': recipe, 'netcdf': netcdf, 'enrich': True, 'stabilise': True, 'edits': []}


FLOAT_OTHER = {'float64': 'float32', 'float32': 'float64'}


def storage_type_bases(ctx, rng) -> list:
    """Bases whose floating point geometry variables are STORED with another floating point type than the one
    their values have in memory (`encoding['dtype']`): double precision in memory / single precision on disk (set by
    hand to save space, or a single precision file whose coordinates were replaced by better ones), and the reverse.
    The geometry of the property is the values and their type; the type of the storage is neither."""
    out = []
    n = ctx.budget(3, 15)
    start = rng.randrange(len(G.CONVS))
    for k in range(n):
        conv = G.CONVS[(start + k) % len(G.CONVS)]
        kw = {'coords_as': rng.choice(['coords', 'vars'])}
        if conv == 'ugrid':
            kw.update(face_coords=rng.choice(['vars', 'coords']), tables=rng.choice([[], ['edge_node'], ['face_face']]))
        elif conv != 'cf1d' and conv != 'shoc_standard':
            kw['holes'] = rng.random() < 0.5
        if ctx.tier == 'quick':
            kw.update({'max_n': 4} if conv != 'ugrid' else {'max_w': 2, 'max_h': 2})
        recipe = G.random_recipe(rng, conv, ctx.tier, **kw)
        if conv == 'cf1d' and rng.random() < 0.5:
            # one axis held in single precision (the generator uses it only where every value is exact in it)
            recipe[rng.choice(['lon_dtype', 'lat_dtype'])] = 'f4'
        case = finish_base(rng, conv, recipe, netcdf=rng.random() < 0.4)
        try:
            ds, state, _ = K.materialise(case)
        except Exception:  # noqa  -- a recipe xarray cannot write
            case['netcdf'] = False
            ds, state, _ = K.materialise(case)
        floats = [nm for nm in state['expected']
                  if nm in ds.variables and ds.variables[nm].dtype.name in FLOAT_OTHER
                  and 'cf_role' not in ds.variables[nm].attrs]
        chosen = [nm for nm in floats if rng.random() < 0.7] or floats[:1]
        case['enc_dtypes'] = {nm: FLOAT_OTHER[ds.variables[nm].dtype.name] for nm in chosen}
        out.append(case)
    return out


def edge_coordinate_bases(ctx, rng) -> list:
    """UGRID meshes with characteristic edge coordinates (`edge_coordinates`), alternately on a mesh whose edge
    dimension is only the one these coordinates span (no `edge_dimension` attribute, no edge_node / edge_face table)
    and on a mesh that declares its edges."""
    out = []
    for k in range(ctx.budget(2, 10)):
        kw = {'coords_as': rng.choice(['vars', 'coords']), 'face_coords': rng.choice([None, 'vars', 'coords'])}
        if k % 2 == 0:
            kw.update(tables=rng.choice([[], ['face_edge'], ['face_face'], ['face_edge', 'face_face']]),
                      edge_dim_declared=False, transposed=False)
        else:
            kw.update(tables=rng.choice([['edge_node'], ['edge_node', 'edge_face'], ['face_edge'], []]),
                      edge_dim_declared=True)
        if ctx.tier == 'quick':
            kw.update(max_w=2, max_h=2)
        recipe = G.random_recipe(rng, 'ugrid', ctx.tier, **kw)
        case = finish_base(rng, 'ugrid', recipe, netcdf=(k // 2) % 2 == 1)
        case['edge_coords'] = rng.choice(['vars', 'coords'])
        out.append(case)
    return out


# --------------------------------------------------------------------------
# datasets of realistic size (harness/gen/c16_extra.py): direct oracle only

def big_bases(ctx, rng) -> list:
    """Bases of all five convention classes whose multi-dimensional geometry variables have the sizes real model
    grids have: of every five, three between 7 * 10^4 and 4 * 10^5 elements in their largest such variable, two
    between 2 * 10^3 and 6 * 10^4 (which conventions get which size rotates with the run)."""
    out = []
    start = rng.randrange(len(X.CONVS))
    for k in range(ctx.budget(5, 15)):
        conv = X.CONVS[(start + k) % len(X.CONVS)]
        lo, hi = (70_000, 400_000) if (k + k // len(X.CONVS)) % 5 in (0, 2, 3) else (2_000, 60_000)
        out.append({'big': X.random_big(rng, conv, lo, hi), 'netcdf': False, 'enrich': True, 'stabilise': True,
                    'edits': []})
    return out


def big_nongeo_edit_sets(rng, ev: Eval) -> list:
    E = [('add_var:grid', [{'op': 'add_var', 'name': 'extra_a', 'on': 'grid', 'base': rng.randint(0, 99), 'dtype': 'f4',
                            'attrs': {'units': 'kg', 'standard_name': 'sea_water_mass'}}]),
         ('change_var', [{'op': 'change_var', 'name': 'eta', 'flat': rng.randint(0, 10 ** 6)}]),
         ('remove_var', [{'op': 'remove_var', 'name': 'eta'}]),
         ('time_steps', [{'op': 'time_steps', 'n': rng.choice([1, 3, 5])}]),
         ('gattr_add', [{'op': 'gattr', 'key': 'institution', 'value': 'x' * rng.randint(1, 40)}]),
         ('reorder', [{'op': 'reorder', 'seed': rng.randint(0, 10 ** 6)}]),
         # the same values held another way: one dask chunk, many dask chunks, column-major memory, a deep copy
         ('chunk', [{'op': 'chunk'}]),
         ('chunk:several', [{'op': 'chunk', 'size': rng.choice([200, 257, 1000])}]),
         ('memory_layout', [{'op': 'fortran_layout', 'names': list(ev.state['expected'])}]),
         ('deep_copy', [{'op': 'copy', 'deep': True}])]
    return E


def run_big_base(ctx, rng, bcase: dict, child_cases: list, child_expect: list) -> None:
    b = Eval(bcase)
    conv = b.state['conv']
    bdesc = {'case': bcase}
    ctx.count('big-base:' + conv)
    ctx.evaluated()
    if not b.ok:
        ctx.oracle_fail('cache-key-raises-on-valid-dataset', bdesc, f'make_cache_key raised {b.error}')
        return
    if b.names != b.state['expected']:
        ctx.oracle_fail('inventory-mismatch', bdesc,
                        f"get_all_geometry_names() = {b.names}, the dataset was built with {b.state['expected']}")
    if b.key != b.key_rec or len(b.key) != 64:
        ctx.oracle_fail('default-hash-not-blake2b-of-stream', bdesc,
                        f'make_cache_key(ds) = {b.key}, blake2b-32 of the recorded stream = {b.key_rec}')
    g0, c0 = geometry_content(b.ds, b.state)
    largest = max((int(b.ds.variables[n].size) for n in b.state['expected'] if b.ds.variables[n].ndim >= 2), default=0)
    ctx.count('big-base:largest-nd-variable:' + ('>2^16' if largest > 2 ** 16 else '<=2^16'))
    child_cases.append(bcase)
    child_expect.append((b.key, bdesc))

    # ---------- the same geometry, other non-geometry content / other representation: the key must not move ----
    for kind, edits in big_nongeo_edit_sets(rng, b):
        case = dict(bcase, edits=bcase['edits'] + edits)
        try:
            e = Eval(case)
        except Exception:  # noqa  -- an edit that cannot be applied to this dataset
            ctx.count(f'n/a:big:{kind}')
            continue
        desc = {'base': bcase, 'edited': case, 'expect': 'same', 'kind': 'big:' + kind}
        ctx.count(f'big-nongeo:{kind}')
        ctx.evaluated()
        ctx.nontrivial(('big', conv, 'N', kind, json.dumps(bcase['big'], sort_keys=True)))
        if not e.ok:
            ctx.oracle_fail('cache-key-raises-after-nongeometry-edit', desc,
                            f'{kind}: make_cache_key raised {e.error} (base key {b.key[:16]}…)')
            continue
        if geometry_content(e.ds, e.state) != (g0, c0):
            raise AssertionError(f'harness: non-geometry edit {kind} altered the geometry')
        if e.key != b.key:
            ctx.oracle_fail('cache-key-nongeometry-edit-changes-key', desc,
                            f'{kind} changed the key {b.key[:16]}… -> {e.key[:16]}… of a dataset whose largest geometry '
                            f'variable has {largest} elements (streams differ at {first_diff(b.stream, e.stream)})')

    # ---------- one value changed, at positions spread from the first element to the last: the key must move ------
    expected = list(b.state['expected'])
    nd = sorted((n for n in expected if b.ds.variables[n].ndim >= 2), key=lambda n: -int(b.ds.variables[n].size))
    chosen = nd[:1] + rng.sample(nd[1:], max(0, min(2, len(nd) - 1))) + rng.sample([n for n in expected if n not in nd],
                                                                           min(1, len(expected) - len(nd)))
    for name in chosen:
        var = b.ds.variables[name]
        vals = np.asarray(var.values)
        many = vals.ndim >= 2
        # (the largest variable: both sides of EVERY power of two from 2^10 up)
        for p in X.stratified_positions(rng, int(vals.size), parts=4 if many else 2,
                                        powers=None if name == chosen[0] else 2 if many else 1):
            edit = {'op': 'g_value', 'var': name, 'flat': p}
            if vals.dtype.kind == 'f' and np.isfinite(vals.reshape(-1)[p]) and rng.random() < 0.5:
                edit['how'] = 'ulp'
            case = dict(bcase, edits=bcase['edits'] + [edit])
            try:
                e = Eval(case)
            except Exception:  # noqa
                ctx.count('n/a:big:value')
                continue
            index = [int(i) for i in np.unravel_index(p, vals.shape)] if vals.shape else []
            desc = {'base': bcase, 'edited': case, 'expect': 'differ', 'kind': 'big:value',
                    'variable': name, 'shape': list(vals.shape), 'index': index}
            ctx.count('big-geo:value' + (':ulp' if edit.get('how') else ''))
            ctx.evaluated()
            ctx.nontrivial(('big', conv, 'G', 'value', name, p, json.dumps(bcase['big'], sort_keys=True)))
            if not e.ok:
                ctx.oracle_fail('cache-key-raises-on-valid-dataset', desc,
                                f'one value of {name} changed: make_cache_key raised {e.error}')
                continue
            if geometry_content(e.ds, e.state) == (g0, c0):
                ctx.count('n/a:big:value:no-change')
                continue
            if e.key == b.key:
                ctx.oracle_fail(SIG_BIG, desc,
                                f'{name} {vals.dtype.name}{list(vals.shape)}: element {index} (flat position {p} of '
                                f'{vals.size}) changed from {vals.reshape(-1)[p]!r} to '
                                f'{np.asarray(e.ds.variables[name].values).reshape(-1)[p]!r}, the key is unchanged '
                                f'({b.key[:16]}…; {len(b.stream)} bytes were hashed for '
                                f'{sum(int(b.ds.variables[n].values.nbytes) for n in expected)} bytes of geometry values)')
            elif p == vals.size - 1 and rng.random() < 0.5:
                child_cases.append(case)
                child_expect.append((e.key, desc))

    # ---------- the other single edits (shape, name, attribute, convention), one random kind per variable ----------
    for kind, name, edits in geo_edit_sets(rng, b, full_vars=0):
        if kind.startswith('value') or kind == 'attr_reorder':
            continue
        case = dict(bcase, edits=bcase['edits'] + edits)
        try:
            e = Eval(case)
        except Exception:  # noqa
            ctx.count(f'n/a:big:{kind}')
            continue
        desc = {'base': bcase, 'edited': case, 'expect': 'differ', 'kind': 'big:' + kind}
        ctx.count(f'big-geo:{kind}')
        ctx.evaluated()
        ctx.nontrivial(('big', conv, 'G', kind, name, json.dumps(edits, sort_keys=True)))
        if not e.ok:
            ctx.count(f'geo-err:big:{conv}:{kind}')      # no longer a dataset of the convention
            continue
        if geometry_content(e.ds, e.state) == (g0, c0):
            ctx.count(f'n/a:big:{kind}:no-change')
            continue
        if e.key == b.key:
            ctx.oracle_fail('cache-key-geometry-edit-keeps-key', desc,
                            f'{kind} on {name or conv} left the key unchanged ({b.key[:16]}…)')


# ==========================================================================
# >>> round 6 (harness/gen/c16_extra6.py): geometry that a coarser notion of equality would identify
#
# Pairs of datasets (A, B) that differ in ONE name or ONE attribute of one geometry variable, where the two names /
# texts are different spellings that a text normalisation identifies (NFC / NFD / NFKC / NFKD, case, invisible code
# points, surrounding white space), or the two attribute values compare equal in Python and differ in type or
# representation (360 / 360.0, 1 / True / numpy.int64(1), 0.0 / -0.0, 'm' / numpy.str_('m'), tuples of such).
# Both keys are computed one after the other IN THIS PROCESS (the earlier dataset is the history of the later one; the
# order is random) and must differ; some pairs are recomputed in the fresh interpreters in the OTHER order and must
# get the same two keys there.  The bases have attribute dictionaries of scalars only (what coordinate variables of
# real files carry) as well as the enriched ones with array attributes.

def equivalence_pairs(rng6, ref: 'Eval', bcase: dict, plain: dict, n_rename: int, n_value: int) -> list:
    """[(kind, variable or None, relation, case A, case B, value A, value B)]"""
    state = ref.state
    conv = state['conv']
    expected = [n for n in state['expected'] if n in ref.ds.variables]
    out = []
    # ---- names: one geometry variable renamed to two spellings of one name
    must = ['nfc', 'nfd']
    for k in range(n_rename):
        name = rng6.choice(expected)
        got = X6.spelling_pairs(rng6, 1, spaces=conv != 'ugrid', must=tuple(must[k:k + 1]), prefix=name + '_')
        for rel, a, b in got:
            base = bcase if k % 2 else plain
            out.append(('rename', name, rel, dict(base, edits=base['edits'] + [{'op': 'g_rename', 'var': name, 'to': a}]),
                        dict(base, edits=base['edits'] + [{'op': 'g_rename', 'var': name, 'to': b}]), a, b))
    # ---- the name of the convention class
    for rel, a, b in X6.spelling_pairs(rng6, 1, spaces=False, must=(), prefix='Local'):
        out.append(('convention-name', None, rel, dict(plain, edits=plain['edits'] + [{'op': 'g_conv', 'to': 'subclass:named=' + a}]),
                    dict(plain, edits=plain['edits'] + [{'op': 'g_conv', 'to': 'subclass:named=' + b}]), a, b))
    # ---- attribute texts and attribute names
    name = rng6.choice(expected)
    for rel, a, b in X6.spelling_pairs(rng6, 1, spaces=True, must=(rng6.choice(['nfc', 'nfd']),)):
        out.append(('attr-text', name, rel,
                    dict(plain, edits=plain['edits'] + [{'op': 'g_attr_add', 'var': name, 'key': 'comment', 'value': a}]),
                    dict(plain, edits=plain['edits'] + [{'op': 'g_attr_add', 'var': name, 'key': 'comment', 'value': b}]), a, b))
    for rel, a, b in X6.spelling_pairs(rng6, 1, spaces=True, must=(), prefix='note_'):
        out.append(('attr-name', name, rel,
                    dict(plain, edits=plain['edits'] + [{'op': 'g_attr_add', 'var': name, 'key': a, 'value': 'x'}]),
                    dict(plain, edits=plain['edits'] + [{'op': 'g_attr_add', 'var': name, 'key': b, 'value': 'x'}]), a, b))
    # ---- attribute values that compare equal; the other attributes of the variable are scalars
    for k, (rel, sa, sb) in enumerate(X6.equal_value_pairs(rng6, n_value)):
        name = rng6.choice(expected)
        base = bcase if (k % 4 == 3) else plain          # (one in four on the enriched base: array attributes too)
        present = set(ref.ds.variables[name].attrs) | ({k2 for k2, _ in K.NEUTRAL_ATTRS} if base is bcase else set())
        key = rng6.choice([k2 for k2 in X6.NEUTRAL_KEYS if k2 not in present])
        scalars = [{'op': 'g_attr_add', 'var': name, 'key': k2, 'value': v}
                   for k2, v in rng6.sample(X6.SCALAR_ATTRS, rng6.randint(0, 3)) if k2 not in present]
        at = rng6.randint(0, len(scalars))
        ea = scalars[:at] + [{'op': 'g_attr_add', 'var': name, 'key': key, 'value': sa}] + scalars[at:]
        eb = scalars[:at] + [{'op': 'g_attr_add', 'var': name, 'key': key, 'value': sb}] + scalars[at:]
        out.append(('attr-value', name, rel, dict(base, edits=base['edits'] + ea), dict(base, edits=base['edits'] + eb), sa, sb))
    return out


def scalar_line(v, real: bytes):
    """the `mscalar` line of the driver for a scalar attribute value (None when the value is outside that model:
    strings, tuples, an int beyond int32), given what CPython's marshal really wrote for it"""
    import struct
    ref = (real[0] >> 7) & 1
    if v is None:
        kind, payload = 'none', '-'
    elif type(v) is bool:
        kind, payload = 'bool', str(int(v))
    elif type(v) is int:
        if not -2 ** 31 <= v < 2 ** 31:
            return None
        kind, payload = 'int', str(v)
    elif type(v) is float:
        kind, payload = 'float', struct.pack('<d', v).hex()
    elif isinstance(v, np.generic) and not isinstance(v, (np.str_, np.bytes_)):
        kind, payload = 'buffer', v.tobytes().hex()
    else:
        return None
    return f'mscalar {ref} {kind} {payload}', hb(real)


def run_equivalence_pairs(ctx, bases: list, items: list, child_cases: list, child_expect: list) -> None:
    import random
    rng6 = random.Random(f'C16:{ctx.seed}:{int(ctx.searching)}:c16-extra6')
    # the scalar model of marshal (Core/CacheKeyScalars.lean, theorem scalar_bytes_injective) against CPython's marshal,
    # on every representation of every number of the generator, held once and held twice
    for x in X6.NUMBERS + [None, 2 ** 31 - 1, -2 ** 31]:
        for spec in ([None] if x is None else X6.representations(x)):
            for shared in (False, True):
                v = X6.decode(spec)
                # (a temporary has one reference: no FLAG_REF; a value held in a variable has more)
                got = scalar_line(v, marshal.dumps(v, 4) if shared else marshal.dumps(X6.decode(spec), 4))
                if got is None:
                    ctx.count('marshal-scalar:outside-model')
                    continue
                items.append((got[0], got[1], {'direct': 'mscalar', 'repr': repr(v), 'op': got[0]}))
                ctx.count('marshal-scalar')
                ctx.nontrivial(('mscalar', got[0]))
    seen_conv = set()
    chosen = []
    for bcase in bases:             # one base per convention class (thorough: three)
        conv = bcase['recipe']['conv']
        if bcase.get('enc_dtypes') or bcase.get('edge_coords'):
            continue
        if sum(1 for c in chosen if c[0] == conv) >= (1 if ctx.tier == 'quick' else 3):
            continue
        chosen.append((conv, bcase))
    for conv, bcase in chosen:
        plain = dict(bcase, enrich=False)
        try:
            ref = Eval(plain)
        except Exception:  # noqa
            ctx.count('n/a:equiv:base')
            continue
        if not ref.ok:
            continue                # (the base loop reports a base that raises)
        seen_conv.add(ref.state['conv'])
        n_rename, n_value = (6, 8) if ctx.tier == 'quick' else (10, 14)
        pairs = equivalence_pairs(rng6, ref, bcase, plain, n_rename, n_value)
        sent_child = set()
        for kind, name, rel, case_a, case_b, va, vb in pairs:
            if rng6.random() < 0.5:         # which of the two is the earlier one in this process
                case_a, case_b, va, vb = case_b, case_a, vb, va
            try:
                a = Eval(case_a)
                b = Eval(case_b)
            except Exception:  # noqa  -- an edit that cannot be applied to this dataset
                ctx.count(f'n/a:equiv:{kind}')
                continue
            desc = {'base': case_a, 'edited': case_b, 'expect': 'differ', 'kind': f'equiv:{kind}:{rel}',
                    'variable': name, 'first': va, 'second': vb,
                    'history': ['key of `base`', 'key of `edited`, in the same process']}
            ctx.count(f'equiv:{kind}' + ('' if kind == 'attr-value' else f':{rel}'))
            ctx.evaluated(2)
            if not (a.ok and b.ok):
                # no longer a dataset of the convention under this name (e.g. ShocSimple coordinates, a renamed
                # dimension coordinate): the conventions' own validation, not covered here
                ctx.count(f'equiv-err:{a.state["conv"]}:{kind}:{int(a.ok)}{int(b.ok)}')
                continue
            ctx.nontrivial(('equiv', a.state['conv'], kind, rel, json.dumps([va, vb], sort_keys=True)))
            ga, gb = geometry_content(a.ds, a.state), geometry_content(b.ds, b.state)
            if ga == gb:
                raise AssertionError(f'harness: the two members of an equivalence pair ({kind}, {rel}) have the same geometry content')
            for x, c in ((a, case_a), (b, case_b)):
                if x.key != x.key_rec or len(x.key) != 64:
                    ctx.oracle_fail('default-hash-not-blake2b-of-stream', {'case': c},
                                    f'make_cache_key(ds) = {x.key}, blake2b-32 of the recorded stream = {x.key_rec}')
                if not x.state.get('uncertain') and not two_dimension_guess_wrong(x):
                    items.append((x.stream_line(), x.stream_out(), {'case': c, 'op': 'stream'}))
            if not (a.state.get('uncertain') or b.state.get('uncertain') or two_dimension_guess_wrong(a)
                    or two_dimension_guess_wrong(b)):
                items.append((f'diff {a.head()} {b.head()}', first_diff(a.stream, b.stream),
                              {'base': case_a, 'edited': case_b, 'op': 'diff'}))
            if a.key == b.key:
                erased = False
                if kind == 'attr-value':
                    erased = X6.type_erased_pair(X6.decode(va), X6.decode(vb))
                if kind == 'attr-value':
                    what = f'one attribute of {name} = {X6._describe(va)} / {X6._describe(vb)}'
                else:
                    what = {'rename': f'{name} renamed to', 'convention-name': 'convention class named',
                            'attr-text': f'attribute comment of {name} =', 'attr-name': f'attribute of {name} named'}[kind] \
                        + f' {ascii(va)} ({len(va)} code points) / {ascii(vb)} ({len(vb)} code points)'
                ctx.oracle_fail(SIG_PUN if erased else 'cache-key-geometry-edit-keeps-key', desc,
                                f'{what} ({rel}): two different geometries, both keys computed one after the other in this '
                                f'process are {a.key[:16]}… (streams: {first_diff(a.stream, b.stream)})')
                continue
            # the same two keys in a fresh interpreter that meets the two datasets in the OTHER order
            if kind not in sent_child and (kind in ('rename', 'attr-value') or rng6.random() < 0.3):
                sent_child.add(kind)
                child_cases.append(case_b)
                child_expect.append((b.key, dict(desc, history=['key of `edited`', 'key of `base`', 'in a fresh interpreter'])))
                child_cases.append(case_a)
                child_expect.append((a.key, dict(desc, history=['key of `edited`', 'key of `base`', 'in a fresh interpreter'])))
    ctx.notes.append(f'equivalence pairs (round 6) on conventions {sorted(seen_conv)}')
# <<< round 6
# ==========================================================================


def run(ctx) -> None:
    rng = ctx.rng
    items: list = []
    t0 = time.time()

    # ---- corpus: minimised inputs of findings that were repaired, run first on every run ------------
    corpus_dir = os.path.join(os.path.dirname(os.path.dirname(os.path.abspath(__file__))), 'corpus', 'c16')
    for fn in sorted(os.listdir(corpus_dir)) if os.path.isdir(corpus_dir) else []:
        if not fn.endswith('.json'):
            continue
        with open(os.path.join(corpus_dir, fn)) as f:
            entry = json.load(f)
        a, e = Eval(entry['base']), Eval(entry['edited'])
        ctx.count('corpus')
        ctx.evaluated()
        ctx.nontrivial(('corpus', fn))
        desc = {'base': entry['base'], 'edited': entry['edited'], 'expect': entry['expect'], 'kind': 'corpus:' + fn}
        same = a.ok and e.ok and a.key == e.key
        if not (a.ok and e.ok) or same != (entry['expect'] == 'same'):
            ctx.oracle_fail(entry['signature'], desc,
                            f"corpus {fn}: keys {a.key or a.error} / {e.key or e.error}, the property demands {entry['expect']}"
                            f" (inventories {a.names} / {e.names})")
        else:
            for x, c in ((a, entry['base']), (e, entry['edited'])):
                items.append((x.stream_line(), x.stream_out(), {'case': c, 'op': 'stream'}))

    # ---- the three helpers, called directly -------------------------------------------------
    items += direct_items(ctx, rng)

    # ---- F10 probes on datasets that are NOT stabilised -------------------------------------
    bases = base_cases(ctx, rng)
    probe_bases = [c for c in bases[:ctx.budget(5, 20)]]
    bases = bases + storage_type_bases(ctx, rng) + edge_coordinate_bases(ctx, rng)
    raw_attr_dicts = []
    for bcase in probe_bases:
        for probe in ['fresh_attrs', 'netcdf', 'pickle', 'copy_alive', 'mfdataset']:
            try:
                res = run_probe(bcase, probe)
            except Exception as ex:  # e.g. a dataset xarray cannot write
                ctx.count(f'n/a:probe:{probe}:{type(ex).__name__}')
                continue
            raw_attr_dicts += res.pop('attr_dicts', [])
            ctx.count(f'probe:{probe}')
            ctx.evaluated()
            if res.get('skip'):
                continue
            ctx.nontrivial(('probe', probe, json.dumps(bcase['recipe'], sort_keys=True)[:200]))
            if res['same_geometry'] and res['key_a'] != res['key_b']:
                if res.get('encoding_dtype_differs'):
                    ctx.oracle_fail(SIG_ENC, {'probe': probe, 'case': res['case']},
                                    f"the same data opened from one file and from two files (open_mfdataset): names, dtypes, "
                                    f"shapes, values and attributes are equal, keys differ {res['key_a'][:16]}… != "
                                    f"{res['key_b'][:16]}…; encoding['dtype'] (single, multi-file) = {res['detail']}")
                    continue
                ctx.oracle_fail(SIG_F10 if res['flags'] else 'cache-key-equal-geometry-different-key',
                                {'probe': probe, 'case': res['case']},
                                f"{probe}: names, dtypes, shapes, values and attributes are equal, keys differ "
                                f"{res['key_a'][:16]}… != {res['key_b'][:16]}… (attribute bytes differ for {res['flags']})")

    # one mesh whose connectivity is stored as integers with a fill value: decoded to float64, so that the dtype of
    # the encoding (kept by open_dataset, lost by open_mfdataset) and of the values differ
    for _ in range(ctx.budget(1, 4)):
        r = G.random_recipe(rng, 'ugrid', ctx.tier, coords_as='vars', fill='attr', face_coords=None, max_w=2, max_h=2,
                            tables=rng.choice([[], ['edge_node'], ['face_face']]), concave=True, midpoints=True)
        mcase = {'recipe': r, 'netcdf': False, 'enrich': True, 'stabilise': True, 'edits': []}
        try:
            res = run_probe(mcase, 'mfdataset')
        except Exception as ex:  # noqa
            ctx.count(f'n/a:probe:mfdataset:{type(ex).__name__}')
            continue
        ctx.count('probe:mfdataset:int-with-fill')
        ctx.evaluated()
        if res['same_geometry'] and res['key_a'] != res['key_b']:
            ctx.oracle_fail(SIG_ENC if res.get('encoding_dtype_differs') else 'cache-key-equal-geometry-different-key',
                            {'probe': 'mfdataset', 'case': res['case']},
                            f"the same data opened from one file and from two files (open_mfdataset): names, dtypes, shapes, "
                            f"values and attributes are equal, keys differ {res['key_a'][:16]}… != {res['key_b'][:16]}…; "
                            f"encoding['dtype'] (single, multi-file) = {res.get('detail')}")
    items += marshal_items(ctx, rng, raw_attr_dicts)

    # ---- datasets × edits -------------------------------------------------------------------
    child_cases: list = []
    child_expect: list = []
    reorder_changes = [0, 0]
    covered: dict = {}
    for bi, bcase in enumerate(bases):
        b = Eval(bcase)
        conv = b.state['conv']
        tag = f"{conv}{'+nc' if bcase['netcdf'] else ''}"
        ctx.count('base:' + tag)
        bdesc = {'case': bcase}
        if not b.ok:
            ctx.oracle_fail('cache-key-raises-on-valid-dataset', bdesc, f'make_cache_key raised {b.error}')
            continue
        # direct oracle on the base: inventory = what the generator built; default hash = blake2b-32 of the stream
        if b.names != b.state['expected']:
            two = two_dimension_guess_wrong(b)
            ctx.oracle_fail(SIG_TWO if two else 'inventory-mismatch', bdesc,
                            f"get_all_geometry_names() = {b.names}, the dataset was built with {b.state['expected']}"
                            + (f" (a dimension of size 2 precedes the one the edge tables use: {dict(b.ds.sizes)})" if two else ''))
            if two:
                ctx.count('base-skipped:two-dimension-guess')
                continue
        items.append((b.stream_line(), b.stream_out(), {'case': bcase, 'op': 'stream'}))
        items.append((b.inv_line(), b.inv_out(), {'case': bcase, 'op': 'inv'}))
        if b.key != b.key_rec or len(b.key) != 64:
            ctx.oracle_fail('default-hash-not-blake2b-of-stream', bdesc,
                            f'make_cache_key(ds) = {b.key}, blake2b-32 of the recorded stream = {b.key_rec}')
        g0, c0 = geometry_content(b.ds, b.state)
        child_cases.append(bcase)
        child_expect.append((b.key, bdesc))

        # ---------- a history on ONE dataset object: key, edit a geometry variable in place, key again ----------
        # (the key is a function of the content at the time of the call, not of the object it was first asked of)
        try:
            from emsarray.operations.cache import make_cache_key
            hds, hstate, _ = K.materialise(bcase)
            K.make_convention(hds, hstate)
            k1 = make_cache_key(hds)
            hname = rng.choice([n for n in hstate['expected'] if n in hds.variables])
            hvar = hds.variables[hname]
            how = 'attr'
            if type(hvar).__name__ != 'IndexVariable' and hvar.dtype.kind == 'f' and hvar.size and rng.random() < 0.5:
                raw = hvar.values
                flat = raw.reshape(-1)
                if np.shares_memory(flat, raw) and np.isfinite(flat[0]):
                    flat[0] += 0.125
                    how = 'value'
            if how == 'attr':
                hvar.attrs['comment'] = 'edited in place'
            k2 = make_cache_key(hds)
            ctx.evaluated()
            ctx.count(f'history:{how}')
            if k2 == k1 == b.key:
                ctx.oracle_fail('cache-key-stale-after-inplace-edit', {'case': bcase, 'variable': hname, 'how': how,
                                                                     'history': ['key', f'edit {hname} in place ({how})', 'key']},
                                f'make_cache_key(ds) twice on one dataset object with {hname} edited in place in between '
                                f'returns the same key {k1[:16]}…')
        except Exception as ex:  # noqa  -- a dataset the in-place edit does not apply to
            ctx.count(f'history-n/a:{type(ex).__name__}')

        # ---------- non-geometry edits: the key must not move ----------
        for kind, edits in nongeo_edit_sets(rng, b):
            case = dict(bcase, edits=bcase['edits'] + edits)
            try:
                e = Eval(case)
            except Exception as ex:  # an edit that cannot be applied to this dataset
                ctx.count(f'n/a:{kind}')
                continue
            desc = {'base': bcase, 'edited': case, 'expect': 'same', 'kind': kind}
            ctx.count(f'nongeo:{kind}')
            ctx.nontrivial((tag, 'N', kind, json.dumps(edits, sort_keys=True)))
            if not (e.ok and two_dimension_guess_wrong(e)):
                # (where the known two-dimension finding strikes, the oracle below reports it; the primary model
                # keeps demanding the tables as built, and is not compared)
                items.append((e.stream_line(), e.stream_out(), {'case': case, 'op': 'stream'}))
            if not e.ok:
                ctx.oracle_fail('cache-key-raises-after-nongeometry-edit', desc,
                                f'{kind}: make_cache_key raised {e.error} (base key {b.key[:16]}…)')
                continue
            g1, c1 = geometry_content(e.ds, e.state)
            if (g1, c1) != (g0, c0):
                raise AssertionError(f'harness: non-geometry edit {kind} altered the geometry')
            two = two_dimension_guess_wrong(e)
            if e.names != e.state['expected']:
                ctx.oracle_fail(SIG_TWO if two else 'inventory-mismatch', desc,
                                f'{kind}: inventory {e.names} != {e.state["expected"]}')
            if e.key != b.key:
                flagged = flags_only_difference(b, e)
                ctx.oracle_fail(SIG_TWO if two else SIG_F10 if flagged else 'cache-key-nongeometry-edit-changes-key', desc,
                                f'{kind} changed the key {b.key[:16]}… -> {e.key[:16]}… '
                                f'(streams differ at {first_diff(b.stream, e.stream)}'
                                + (f'; inventory {e.names} instead of {e.state["expected"]}' if two else '') + ')')
            if two:
                continue        # the model (validity of the tables as built) is the behaviour demanded
            covered[(conv, 'N:' + kind.split(':')[0])] = covered.get((conv, 'N:' + kind.split(':')[0]), 0) + 1
            if rng.random() < 0.12:
                child_cases.append(case)
                child_expect.append((b.key, desc))

        # ---------- single geometry edits: the key must move ----------
        for kind, name, edits in geo_edit_sets(rng, b, full_vars=ctx.budget(2, 3) if not ctx.searching else 3):
            case = dict(bcase, edits=bcase['edits'] + edits)
            try:
                e = Eval(case)
            except Exception:
                ctx.count(f'n/a:{kind}')
                continue
            role = role_of(b.state, name) if name else conv
            desc = {'base': bcase, 'edited': case, 'expect': 'differ', 'kind': kind}
            ctx.count(f'geo:{kind}')
            ctx.nontrivial((tag, 'G', kind, role, json.dumps(edits, sort_keys=True)))
            if not e.ok:
                # the edited dataset is no longer a dataset of the convention (e.g. ShocSimple coordinates must
                # have dimensions (j, i)); the model does not cover the conventions' own validation
                ctx.count(f'geo-err:{conv}:{kind}')
                continue
            certain = not e.state.get('uncertain') and not two_dimension_guess_wrong(e)
            if certain:
                items.append((e.stream_line(), e.stream_out(), {'case': case, 'op': 'stream'}))
            else:
                ctx.count(f'model-not-asked:{conv}:{kind}')
            g1, c1 = geometry_content(e.ds, e.state)
            if kind == 'attr_reorder':
                reorder_changes[0] += 1
                reorder_changes[1] += int(e.key != b.key)
                continue                                  # outside the quantifier: counted, not judged
            if (g1, c1) == (g0, c0):
                ctx.count(f'n/a:{kind}:no-change')
                continue
            covered[(conv, 'G:' + kind.split(':')[0])] = covered.get((conv, 'G:' + kind.split(':')[0]), 0) + 1
            # first difference of the two streams: model vs recording
            if certain:
                items.append((f'diff {b.head()} {e.head()}', first_diff(b.stream, e.stream),
                              {'base': bcase, 'edited': case, 'op': 'diff'}))
            if kind == 'value' and e.names == b.names and len(e.stream) == len(b.stream):
                changed = [k for k in range(len(b.stream)) if b.stream[k] != e.stream[k]]
                v0 = np.asarray(b.ds.variables[name].values)
                v1 = np.asarray(e.ds.variables[name].values)
                raw0, raw1 = v0.tobytes('C'), v1.tobytes('C')
                byte_changes = [k for k in range(len(raw0)) if raw0[k] != raw1[k]]
                if byte_changes:
                    i = b.state['expected'].index(name)
                    line = f'pos {b.spec} {b.vars} {i} {byte_changes[0]}'
                    items.append((line, str(changed[0]) if changed else 'none', {'base': bcase, 'edited': case, 'op': 'pos'}))
                    if len(changed) != len(byte_changes):
                        ctx.oracle_fail('value-edit-changes-other-bytes', desc,
                                        f'{len(byte_changes)} data bytes changed, {len(changed)} stream bytes changed')
            if e.key == b.key:
                how = edits[0].get('how')
                if kind == 'attr_pun':
                    sig = SIG_PUN
                elif how in ('inplace_view', 'view') and same_bytes_same_stored_name(b.ds.variables[name],
                                                                                   e.ds.variables.get(name)):
                    # the known finding: the bytes of the values are the same, their type is not, and the type NAME
                    # hashed is the one of encoding['dtype'] on at least one side (in place: the encoding stays;
                    # otherwise: values reinterpreted as exactly the type the base was stored with, e.g. an int64
                    # table with a fill value, decoded to float64, read as int64)
                    sig = SIG_ENC
                elif kind.startswith('value') and stored_narrower(b.ds.variables[name]):
                    # the values differ in memory (geometry_content above) but not once rounded to the type
                    # the variable is stored with
                    sig = SIG_PREC
                else:
                    sig = 'cache-key-geometry-edit-keeps-key'
                ctx.oracle_fail(sig, desc, f'{kind} on {name or conv} left the key unchanged ({b.key[:16]}…)')
            if rng.random() < 0.05:
                child_cases.append(case)
                child_expect.append((e.key, desc))

        # a different package version: stream correspondence only
        if bi % 3 == 0:
            case = dict(bcase, version='9.9.' + str(rng.randint(0, 99)))
            e = Eval(case)
            items.append((e.stream_line(), e.stream_out(), {'case': case, 'op': 'stream'}))

    # ---- malformed / unusual configurations --------------------------------------------------
    for tagm, mc in malformed_cases(rng, ctx.tier):
        case = {'recipe': mc['recipe'], 'netcdf': False, 'enrich': False, 'stabilise': True, 'edits': mc['edits'],
                'kwargs': mc.get('kwargs', {}), 'expected_drop': mc.get('expected_drop', []),
                'expected_add': mc.get('expected_add', [])}
        try:
            e = Eval(case)
        except Exception as ex:  # noqa
            ctx.count(f'n/a:malformed:{tagm}')
            continue
        ctx.count(f'malformed:{tagm}:{"ok" if e.ok else "ERR"}')
        ctx.nontrivial(('malformed', tagm))
        items.append((e.stream_line(), e.stream_out(), {'case': case, 'op': 'stream', 'malformed': True}))
        items.append((e.inv_line(), e.inv_out(), {'case': case, 'op': 'inv', 'malformed': True}))

    # ---- round 6: pairs of geometry that a coarser notion of equality would identify ---------------
    t_eq = time.time()
    ctx.guarded(lambda: run_equivalence_pairs(ctx, bases, items, child_cases, child_expect), {'block': 'equivalence pairs'})
    ctx.notes.append(f'equivalence pairs: {round(time.time() - t_eq, 1)} s')

    # ---- datasets of realistic size: direct oracle only --------------------------------------------
    t_big = time.time()
    for bcase in big_bases(ctx, rng):
        ctx.guarded(lambda: run_big_base(ctx, rng, bcase, child_cases, child_expect), {'case': bcase})
    ctx.notes.append(f'datasets of realistic size: {round(time.time() - t_big, 1)} s')

    # ---- fresh interpreters, different hash seeds ---------------------------------------------
    n_seeds = 3 if ctx.tier == 'quick' else 16
    seeds = [rng.randint(1, 4294967295) for _ in range(n_seeds - 1)] + [0]
    if ctx.searching:
        seeds = seeds[:2]
    results = run_children(child_cases, seeds)
    for seed, res in results.items():
        ctx.count('child-interpreters')
        for (key, desc), r in zip(child_expect, res['results']):
            ctx.evaluated()
            if not r['ok'] or r['key'] != key:
                ctx.oracle_fail('cache-key-differs-across-processes', dict(desc, hashseed=seed),
                                f"PYTHONHASHSEED={seed}: key {r.get('key')} ({r.get('error')}) != {key} in the parent")
            else:
                ctx.nontrivial(('child', seed, key))
    ctx.notes.append(f'{len(child_cases)} cases recomputed in {len(seeds)} fresh interpreters (PYTHONHASHSEED {seeds})')
    if reorder_changes[0]:
        ctx.notes.append(f'attribute reorder (outside the quantifier, not judged): {reorder_changes[1]}/{reorder_changes[0]} changed the key')
    missing = [f'{c}:{k}' for c in G.CONVS for k in
               ['G:value', 'G:dtype', 'G:shape', 'G:rename', 'G:attr_add', 'G:attr_change', 'G:attr_remove', 'G:convention',
                'N:add_var', 'N:change_var', 'N:remove_var', 'N:time_steps', 'N:gattr_add', 'N:gattr_remove']
               if not covered.get((c, k))]
    ctx.notes.append('coverage holes (convention:edit kind with no judged case): ' + (', '.join(missing) or 'none'))
    ctx.notes.append(f'python side {round(time.time() - t0, 1)} s')

    if ctx.searching and ctx.driver is None:
        ctx.evaluated(len(items))
        return
    ctx.check_batch(items)


def run_probe(bcase: dict, probe: str) -> dict:
    """Two datasets with the same geometry content whose attribute objects were made differently."""
    from emsarray.operations.cache import make_cache_key
    case_a = dict(bcase, stabilise=False, netcdf=False)
    if probe == 'mfdataset':
        return run_mfdataset_probe(bcase)
    if probe == 'copy_alive':
        # the SAME dataset object, before and after a shallow copy of it exists
        case_a = dict(bcase, stabilise=False, netcdf=True)
        ds, state, built = K.materialise(case_a)
        K.make_convention(ds, state)
        blobs_a = {n: marshal.dumps(ds.variables[n].attrs, 4) for n in state['expected']}
        key_a = make_cache_key(ds)
        other = ds.copy()
        key_b = make_cache_key(ds)
        blobs_b = {n: marshal.dumps(ds.variables[n].attrs, 4) for n in state['expected']}
        del other
        return {'case': case_a, 'same_geometry': True, 'key_a': key_a, 'key_b': key_b,
                'flags': [n for n in blobs_a if blobs_a[n] != blobs_b[n]]}
    case_b = dict(case_a, edits=case_a['edits'] + [{'op': probe}])
    a, b = Eval(case_a), Eval(case_b)
    if not (a.ok and b.ok):
        return {'skip': True}
    ga, gb = geometry_content(a.ds, a.state), geometry_content(b.ds, b.state)
    return {'case': case_b, 'same_geometry': ga == gb, 'key_a': a.key, 'key_b': b.key,
            'flags': flags_only_difference(a, b),
            'attr_dicts': [{k: v for k, v in e.ds.variables[n].attrs.items() if isinstance(v, str)}
                           for e in (a, b) for n in e.state['expected'][:2]]}


def run_mfdataset_probe(bcase: dict) -> dict:
    """The same data written to one file and to two files split along time: opened with open_dataset and with
    open_mfdataset.  Both datasets are stabilised, so that F10 has no part in the comparison."""
    import tempfile
    import xarray as xr
    from emsarray.operations.cache import make_cache_key
    case = dict(bcase, stabilise=False, netcdf=False)
    ds, state, built = K.materialise(case)
    ds = ds.copy()
    for var in ds.variables.values():
        if '_FillValue' in var.attrs:
            var.encoding['_FillValue'] = var.attrs.pop('_FillValue')
    if 'time' in ds.dims:
        ds = ds.drop_dims('time')
    gdims, gshape = built.grids[built.default_kind]
    ds = ds.assign_coords(time=xr.Variable(['time'], np.arange(4.0), attrs={'units': 'days since 2000-01-01'}))
    ds['eta'] = xr.Variable(('time',) + tuple(gdims), np.zeros((4,) + tuple(gshape)))
    with tempfile.TemporaryDirectory(prefix='verif_c16_mf_') as tmp:
        paths = [os.path.join(tmp, n) for n in ('all.nc', 'a.nc', 'b.nc')]
        ds.to_netcdf(paths[0])
        ds.isel(time=slice(0, 2)).to_netcdf(paths[1])
        ds.isel(time=slice(2, 4)).to_netcdf(paths[2])
        with xr.open_dataset(paths[0], decode_times=False) as f:
            one = f.load()
        with xr.open_mfdataset(paths[1:], data_vars=['eta'], decode_times=False) as f:
            many = f.load()
    out = []
    for d in (one, many):
        K.stabilise(d)
        st = json.loads(json.dumps(state))
        K.make_convention(d, st)
        out.append((make_cache_key(d), geometry_content(d, st),
                    {n: (getattr(d.variables[n].encoding.get('dtype'), 'name', None), d.variables[n].dtype.name)
                     for n in st['expected']}))
    # variables for which "encoding dtype, else dtype of the values" names two different types in the two datasets
    enc_differs = [n for n in out[0][2] if (out[0][2][n][0] or out[0][2][n][1]) != (out[1][2][n][0] or out[1][2][n][1])]
    return {'case': case, 'same_geometry': out[0][1] == out[1][1], 'key_a': out[0][0], 'key_b': out[1][0],
            'flags': [], 'encoding_dtype_differs': enc_differs,
            'detail': {n: (out[0][2][n], out[1][2][n]) for n in enc_differs}}


# --------------------------------------------------------------------------

def replay(ctx, data) -> int:
    return util.generic_replay(ctx, data, run_one)


def run_one(ctx, inp: dict) -> dict:
    out = {}
    if 'probe' in inp:
        base = dict(inp['case'], edits=[e for e in inp['case'].get('edits', []) if e.get('op') != inp['probe']])
        res = run_probe(base, inp['probe'])
        out['impl'] = (f"same geometry content: {res.get('same_geometry')}; key A = {res.get('key_a')}; "
                       f"key B = {res.get('key_b')}; attribute bytes differ for {res.get('flags')}"
                       + (f"; encoding dtype / values dtype (A, B) = {res.get('detail')}" if res.get('detail') else ''))
        out['verdict'] = 'VIOLATES' if res.get('same_geometry') and res.get('key_a') != res.get('key_b') else 'holds'
        return out
    if inp.get('direct') == 'mscalar':        # round 6: the scalar model of marshal, replayed by its op line
        out['impl'] = inp.get('repr')
        if ctx.driver and inp.get('op'):
            out['model'] = ctx.model([inp['op']])[0]
        return out
    if 'direct' in inp:
        from emsarray.operations import cache
        rec = K.Recorder()
        try:
            if inp['direct'] == 'int':
                cache.hash_int(rec, inp['v'])
            elif inp['direct'] == 'str':
                cache.hash_string(rec, ''.join(chr(c) for c in inp['cps']))
            else:
                out['note'] = 'attribute probes are replayed by the op line only'
            out['impl'] = hb(rec.stream)
        except Exception as ex:  # noqa
            out['impl'] = 'ERR'
        if ctx.driver and inp.get('op') and inp['direct'] != 'attrs':
            out['model'] = ctx.model([inp['op']])[0]
        return out
    if 'expect' in inp:
        a, b = Eval(inp['base']), Eval(inp['edited'])
        out['impl'] = f"base key = {a.key or a.error}; edited key = {b.key or b.error}"
        same = a.ok and b.ok and a.key == b.key
        out['verdict'] = 'holds' if same == (inp['expect'] == 'same') else f"VIOLATES: the property demands {inp['expect']}"
        if a.ok and b.ok:
            out['streams'] = first_diff(a.stream, b.stream)
        return out
    if inp.get('op') in ('stream', 'inv'):
        e = Eval(inp['case'])
        line, impl = (e.stream_line(), e.stream_out()) if inp['op'] == 'stream' else (e.inv_line(), e.inv_out())
        out['impl'] = impl[:300]
        if ctx.driver:
            m = ctx.model([line])[0]
            out['model'] = m[:300]
            if impl != m and impl not in ('ERR',) and m not in ('ERR', 'BAD', 'ERR:omitted'):
                out['first difference'] = first_diff(bytes.fromhex(impl.replace('-', '')), bytes.fromhex(m.replace('-', ''))) \
                    if inp['op'] == 'stream' else 'inventories differ'
        return out
    if inp.get('op') in ('diff', 'pos'):
        a, b = Eval(inp['base']), Eval(inp['edited'])
        out['impl'] = first_diff(a.stream, b.stream)
        if ctx.driver and inp['op'] == 'diff':
            out['model'] = ctx.model([f'diff {a.head()} {b.head()}'])[0]
        return out
    return {'error': 'unrecognised replay input'}
