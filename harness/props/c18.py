"""C18 — transects cover exactly the part of the path inside the model, in path order."""
from __future__ import annotations

import sys
import types
from fractions import Fraction

import numpy as np
import shapely
import xarray as xr

from harness import util
from harness.gen import datasets as G
from harness.gen import geomspec as S
from harness.gen import pathclip as PC

# emsarray.transect imports cfunits, which needs the udunits2 C library (absent in this sandbox).
# It is only used to format axis units; a stand-in module keeps the import working.
if 'cfunits' not in sys.modules:
    try:
        import cfunits  # noqa: F401
    except Exception:
        _stub = types.ModuleType('cfunits')

        class _Units:
            def __init__(self, units=None):
                self.units = units

            def formatted(self):
                return str(self.units)
        _stub.Units = _Units
        sys.modules['cfunits'] = _stub

ID = 'C18'
MODULE = 'EmsModel.Props.C18'
DRIVER = 'C18'
REQUIRED = ['Ems.C18.segment_start_le_end', 'Ems.C18.segments_sorted', 'Ems.C18.segment_names_cell',
            'Ems.C18.coverage_1d', 'Ems.C18.data_pairing', 'Ems.C18.miss_is_empty', 'Ems.C18.segments_perm']
RULE = ('grids (CF 1-D, CF 2-D / SHOC simple with stored bounds and holes, SHOC standard with masked nodes) and UGRID meshes '
        '(triangles, quads, concave, collinear, dropped cells) on unsheared integer lattices x polylines with vertices on the '
        'half-integer lattice and axis-parallel / 45-degree legs (so every cut point is exactly representable): several vertices, '
        'starting / ending inside or outside, crossing holes, running along cell edges, leaving and re-entering a cell, missing '
        'the model. The line pieces per cell given to the model come from an exact Fraction clipper (harness/gen/pathclip.py), '
        'not from GEOS. Compared: (cell, start, end) of every segment in path order; prepared data columns. Oracle: each segment '
        'lies in its cell, indexes coherent, start <= end, path order, lengths add up to the path length inside the model, '
        'data pairing. Non-trivial: >= 3 segments, or a hole / re-entry / edge-running stretch; distinct by (recipe, path).')
TRUSTED = ['GEOS polygon-line intersection on exactly representable cut points; cartopy / PROJ distances are only used for ordering']
ASSUMPTIONS = ['metric lengths depend on PROJ floating point: only parameter-space coverage is proved; planar lengths are compared with a 1e-9 relative tolerance in the oracle']

DEPTH_NAME = {'cf1d': 'depth', 'cf2d': 'depth', 'shoc_simple': 'zc', 'shoc_standard': 'z_centre', 'ugrid': 'depth'}


def rat(v) -> str:
    return util.rat_str(v)


def split_at_vertices(a, b) -> list:
    """GEOS may or may not cut a piece at the path's own vertices (integer parameters); the
    property does not care, so both sides are compared cut at every vertex"""
    import math
    cuts = [a] + [Fraction(k) for k in range(math.floor(a) + 1, math.ceil(b)) if a < k < b] + [b]
    return list(zip(cuts, cuts[1:]))


def make_path(rng, xs, ys) -> list:
    """vertices on the half-integer lattice, legs E / NE / SE / N / S, x never decreasing, no retrace"""
    x0, x1, y0, y1 = min(xs), max(xs), min(ys), max(ys)
    H = Fraction(1, 2)
    x = Fraction(rng.randint(int(x0) * 2 - 3, int(x0) * 2 + 2), 2)
    y = Fraction(rng.randint(int(y0) * 2 - 1, int(y1) * 2 + 1), 2)
    if rng.random() < 0.15:           # far away: misses the model
        y = y1 + 50
    pts = [(x, y)]
    last_vertical = 0
    for _ in range(rng.randint(1, 5)):
        step = Fraction(rng.randint(1, 8), 2)
        kind = rng.choice(['E', 'E', 'NE', 'SE', 'N', 'S'])
        if kind == 'N' and last_vertical == -1:
            kind = 'E'
        if kind == 'S' and last_vertical == 1:
            kind = 'E'
        if kind == 'E':
            x, last_vertical = x + step, 0
        elif kind == 'NE':
            x, y, last_vertical = x + step, y + step, 0
        elif kind == 'SE':
            x, y, last_vertical = x + step, y - step, 0
        elif kind == 'N':
            y, last_vertical = y + step, 1
        else:
            y, last_vertical = y - step, -1
        if abs(y) > 85:
            break
        pts.append((x, y))
    if len(pts) < 2:
        pts.append((pts[0][0] + 1, pts[0][1]))
    return pts


def add_depth(built, rng):
    name = DEPTH_NAME[built.conv]
    nk = built.ds.sizes.get('k', 2)
    attrs = {'positive': 'down', 'standard_name': 'depth', 'axis': 'Z', 'units': 'm', 'long_name': 'depth'}
    if name == 'depth':
        ds = built.ds.rename_dims({'k': 'depth'}) if 'k' in built.ds.dims else built.ds
        ds = ds.assign_coords({'depth': xr.DataArray(np.arange(nk, dtype='f8'), dims=['depth'], attrs=attrs)})
        kdim = 'depth'
    else:
        ds = built.ds.assign_coords({name: xr.DataArray(np.arange(nk, dtype='f8'), dims=['k'], attrs=attrs)})
        kdim = 'k'
    return ds, kdim


def examine(ctx, recipe, items) -> None:
    from emsarray import transect
    rng = ctx.rng
    built = G.build(recipe)
    ds, kdim = add_depth(built, rng)
    conv = built.conv_class(ds)
    conv.bind()
    raw = built.polys
    vbits = S.geos_valid_bits(raw)
    kept = [q if (q is not None and vbits[n] == '1') else None for n, q in enumerate(raw)]
    cells = [q for q in kept if q is not None]
    if not cells:
        return
    xs = [p[0] for q in cells for p in q]
    ys = [p[1] for q in cells for p in q]
    polys = conv.polygons
    var = next((n for n, i in built.vars.items() if i.kind == 'face' and 'k' in i.dims), None)
    for _ in range(3):
        path = make_path(rng, xs, ys)
        # a track may carry a third ordinate (altitude of the instrument, say): the cells are two-dimensional and the
        # path's position over them does not depend on it
        zs = [rng.choice([0, 10, 900, -50]) for _ in path] if rng.random() < 0.3 else None
        if zs is None:
            line = shapely.LineString([(float(x), float(y)) for x, y in path])
        else:
            line = shapely.LineString([(float(x), float(y), float(z)) for (x, y), z in zip(path, zs)])
        desc = {'recipe': recipe, 'path': [[str(x), str(y)] for x, y in path], 'z': zs}
        # ---- ground truth pieces (exact) -------------------------------------------------------------
        truth = []
        for n, q in enumerate(kept):
            if q is None:
                continue
            ivs = PC.clip(path, q)
            if ivs:
                truth.append((n, ivs))
        pieces = ';'.join(f"{n}=" + ','.join(f'{rat(a)}:{rat(b)}' for a, b in ivs) for n, ivs in truth) or '-'
        mline = f'segments {pieces}'
        # ---- real transect --------------------------------------------------------------------------------
        t = transect.Transect(ds, line)
        segs = t.segments
        got = []
        bad_param = False
        for s in segs:
            a = PC.param_of((Fraction(s.start_point.x), Fraction(s.start_point.y)), path)
            b = PC.param_of((Fraction(s.end_point.x), Fraction(s.end_point.y)), path)
            if a is None or b is None:
                bad_param = True
                break
            got.append((int(s.linear_index), a, b))
        if bad_param:
            ctx.oracle_fail('segment-endpoint-off-path', desc, 'a segment end point does not lie on the path')
            continue
        # GEOS cuts the pieces of one cell at noding points of its choosing (path vertices, polygon
        # vertices the path passes through); the property does not care how a stretch inside one cell
        # is cut, so contiguous pieces of the same cell are merged before comparing
        merged = {}
        for n, a, b in sorted(got, key=lambda g: (g[0], g[1], g[2])):
            lst = merged.setdefault(n, [])
            if lst and lst[-1][1] == a:
                lst[-1] = (lst[-1][0], b)
            else:
                lst.append((a, b))
        canon = sorted(((n, a, b) for n, ivs in merged.items() for a, b in ivs), key=lambda g: (g[1], g[2], g[0]))
        out = '|'.join(f'{n},{rat(a)},{rat(b)}' for n, a, b in canon) or '(none)'
        items.append((mline, out, {**desc, 'op': mline}))
        n_seg = len(got)
        total_cells = {n for n, _, _ in got}
        reentry = len(got) != len(total_cells)
        if n_seg >= 3 or reentry or any(q is None for q in kept):
            ctx.nontrivial((str(recipe), str(path)))
        ctx.count(f'segments:{min(n_seg, 6)}')
        # ---- direct oracle ---------------------------------------------------------------------------------
        order_ok = all((got[i][1], got[i][2]) <= (got[i + 1][1], got[i + 1][2]) for i in range(len(got) - 1))
        if not order_ok:
            ctx.oracle_fail('segments-not-in-path-order', desc, f'segments in order {[(n, str(a), str(b)) for n, a, b in got]}')
        for s, (n, a, b) in zip(segs, got):
            if not (a <= b) or not (s.start_distance <= s.end_distance):
                ctx.oracle_fail('segment-start-after-end', desc, f'cell {n}: start {a} end {b}')
                break
            if polys[n] is None or not polys[n].buffer(1e-9).covers(s.intersection):
                ctx.oracle_fail('segment-outside-its-cell', desc, f'segment {s.intersection.wkt} is not within cell {n}')
                break
            try:
                back = int(conv.ravel_index(s.index))
            except Exception:
                back = None
            if back != n or s.polygon is not polys[n] and not s.polygon.equals(polys[n]):
                ctx.oracle_fail('segment-index-incoherent', desc, f'segment names linear index {n}, native index {s.index} is cell {back}')
                break
        # coverage: the lengths add up to the length of the path inside the model
        union = shapely.unary_union([p for p in polys if p is not None])
        inside_len = line.intersection(union).length
        seg_len = sum(s.intersection.length for s in segs)
        if abs(seg_len - inside_len) > 1e-9 * max(1.0, inside_len):
            # which stretch is reported more than once?
            dup = [(got[i][0], got[j][0]) for i in range(len(got)) for j in range(i + 1, len(got))
                   if got[i][0] != got[j][0] and max(got[i][1], got[j][1]) < min(got[i][2], got[j][2])]
            sig = 'transect-edge-running-duplicated' if dup and seg_len > inside_len else 'transect-coverage-differs'
            ctx.oracle_fail(sig, desc, f'segment lengths add up to {seg_len}, the path inside the model is {inside_len} long'
                            + (f'; cells {dup[:3]} report the same stretch' if dup else ''))
        if not truth and segs:
            ctx.oracle_fail('segments-for-a-miss', desc, 'the path misses every cell but segments were reported')
        # data pairing
        if var is not None and segs:
            da = ds[var]
            prepared = t.prepare_data_array_for_transect(da)
            flat = conv.ravel(da)
            want = np.asarray(flat.transpose(kdim, flat.dims[-1]).values)[:, [g[0] for g in got]]
            gotv = np.asarray(prepared.values)
            ctx.evaluated()
            if gotv.shape != want.shape or not np.array_equal(gotv, want, equal_nan=True):
                ctx.oracle_fail('transect-data-not-of-its-cell', {**desc, 'var': var}, 'prepared data columns are not the values of the segments\' cells')
            # the same Transect asked again for another array of the same name and shape (another time step, an
            # anomaly): the answer is about the array that was passed, not about the first one
            da2 = (da + 5000).rename(da.name)
            got2 = np.asarray(t.prepare_data_array_for_transect(da2).values)
            ctx.evaluated()
            if got2.shape != want.shape or not np.array_equal(got2, want + 5000, equal_nan=True):
                ctx.oracle_fail('transect-data-of-an-earlier-array', {**desc, 'var': var},
                                'a second array of the same name prepared on the same Transect came back with other values than its own')
            layers = ';'.join(','.join(str(int(v)) for v in row) for row in np.asarray(flat.transpose(kdim, flat.dims[-1]).values))
            cl = f"columns {layers} {','.join(str(g[0]) for g in got)}"
            items.append((cl, ';'.join(','.join(str(int(v)) for v in row) for row in gotv), {**desc, 'op': cl}))


def make_recipe(ctx, k):
    rng = ctx.rng
    conv = G.CONVS[k % len(G.CONVS)]
    if conv == 'cf1d':
        recipe = G.random_cf1d(rng, max_n=5, bounds='contig')
        recipe['lat'] = [v % 40 - 20 for v in recipe['lat']]
        recipe['lat'] = sorted(set(recipe['lat'])) if len(set(recipe['lat'])) >= 2 else [0, 2, 4]
        recipe['lon'] = sorted(set(recipe['lon'])) if len(set(recipe['lon'])) >= 2 else [10, 12]
        recipe['bounds'] = 'none'
    elif conv in ('cf2d', 'shoc_simple'):
        recipe = G.random_cf2d(rng, conv, max_n=4, bounds='stored', axis_aligned=True)
    elif conv == 'shoc_standard':
        recipe = G.random_shoc_standard(rng, max_n=4, axis_aligned=True)
    else:
        recipe = G.random_ugrid(rng, max_w=3, max_h=3, sheared=False, coords_as='vars', tables=[], edge_dim_declared=False)
    recipe = dict(recipe)
    recipe['vars'] = [{'name': 'temp', 'kind': 'face', 'extra': ['k'], 'base': 1000, 'dtype': 'f8'}]
    recipe['sizes_extra'] = {'k': 2}
    probe = G.build({k_: v for k_, v in recipe.items() if k_ not in ('vars', 'sizes_extra')})
    G.finalize_var_orders(rng, recipe['vars'], probe.grids, permute=True)
    return recipe


def run(ctx) -> None:
    items: list = []
    for k in range(ctx.budget(40, 300)):
        recipe = make_recipe(ctx, k)
        ctx.guarded(lambda: examine(ctx, recipe, items), {'recipe': recipe})
    if ctx.searching and ctx.driver is None:
        ctx.evaluated(len(items))
        return
    ctx.check_batch(items)


def run_one(ctx, inp):
    out = {}
    if inp.get('op') and ctx.driver:
        out['model'] = ctx.model([inp['op']])[0]
    return out


def replay(ctx, data) -> int:
    return util.generic_replay(ctx, data, run_one)
