"""C18 — transects cover exactly the part of the path inside the model, in path order."""
from __future__ import annotations

import sys
import types
from fractions import Fraction

import numpy as np
import shapely
import xarray as xr

from harness import util
from harness.gen import datasets as G
from harness.gen import geomspec as S
from harness.gen import pathclip as PC
from harness.gen import c18_extra6 as E6

# emsarray.transect imports cfunits, which needs the udunits2 C library (absent in this sandbox).
# It is only used to format axis units; a stand-in module keeps the import working.
if 'cfunits' not in sys.modules:
    try:
        import cfunits  # noqa: F401
    except Exception:
        _stub = types.ModuleType('cfunits')

        class _Units:
            def __init__(self, units=None):
                self.units = units

            def formatted(self):
                return str(self.units)
        _stub.Units = _Units
        sys.modules['cfunits'] = _stub

ID = 'C18'
MODULE = 'EmsModel.Props.C18'
DRIVER = 'C18'
REQUIRED = ['Ems.C18.segment_start_le_end', 'Ems.C18.segments_sorted', 'Ems.C18.segment_names_cell',
            'Ems.C18.coverage_1d', 'Ems.C18.data_pairing', 'Ems.C18.miss_is_empty', 'Ems.C18.segments_perm',
            'Ems.C18.clip_sound', 'Ems.C18.clip_complete', 'Ems.C18.clip_none_iff', 'Ems.C18.clip_piece_iff',
            'Ems.C18.clip_path_sound', 'Ems.C18.clip_path_complete', 'Ems.C18.segments_within_cells',
            'Ems.C18.disjoint_interiors_pieces_overlap_only_on_boundaries', 'Ems.C18.shared_edge_same_piece']
# sixth round: theorems about the new input classes (recorded tracks, resolution)
EXTRA_MODULES = list(globals().get('EXTRA_MODULES', [])) + ['EmsModel.Props.C18Tracks', 'EmsModel.Props.C18Resolution']
REQUIRED += ['Ems.C18.every_leg_has_its_segment', 'Ems.C18.runs_without_the_joining_leg_lose_a_cell',
             'Ems.C18.resolution_invariant', 'Ems.C18.transect_resolution_invariant']
RULE = ('grids (CF 1-D, CF 2-D / SHOC simple with stored bounds and holes, SHOC standard with masked nodes) and UGRID meshes '
        '(triangles, quads, concave, collinear, dropped cells) on unsheared integer lattices x polylines with vertices on the '
        'half-integer lattice and axis-parallel / 45-degree legs (so every cut point is exactly representable): several vertices, '
        'starting / ending inside or outside, crossing holes, running along cell edges, leaving and re-entering a cell, missing '
        'the model. The reference for the line pieces is the Lean clipper of Core/PathClip.lean, run by the driver on the '
        "generator's cell polygons and the path: `transect <path> <all cells>` (clip every cell, build and sort the segments) is "
        'compared with (cell, start, end) of every segment of the real Transect in path order, and `clip <cell> <path>` with the '
        'pieces GEOS returned for every cell that the real Transect reports or the independent Fraction clipper '
        '(harness/gen/pathclip.py) says is crossed; contiguous pieces of one cell are merged on both sides. Convex cells go '
        'through clipPathConvex (proved exact: clip_sound / clip_complete), which the driver also requires to agree with the '
        'event-based clipPathSimple; concave mesh faces go through clipPathSimple; `convex` is compared with GEOS (hull area = '
        'area), `propcheck` re-tests ends and midpoint of every Lean piece with the exact point-in-polygon. The pieces of '
        'gen/pathclip.py still feed the older `segments` line and an oracle comparison with GEOS, as a cross-check independent '
        'of Lean. A path is reversed (sailed east to west, x never increasing) with probability 0.4, so the cells are met in an order '
        'that is neither increasing nor decreasing linear index and whose sorting permutation is not its own inverse. How the dataset '
        "*holds* its numbers varies per recipe (recipe['store']): numpy; dask-backed via `.chunk` (the data variable only, or every "
        'variable; chunks of 1 / 2 / 3 or one chunk along the horizontal dimensions, 1 or one chunk along depth); written to netCDF '
        'and opened with `open_dataset(chunks=...)`. On one Transect three arrays are prepared: the variable, another array of the same '
        'name (+5000), and the same numbers held the other way round (in memory <-> chunked along the grid dimensions). Also compared: '
        'prepared data columns (model input: the tag values of the generator, not emsarray\'s ravel). Oracle: each segment lies in its cell, is not a single point, indexes '
        'coherent, start <= end, path order, pieces equal to the exact Fraction clip, lengths add up to the path length inside '
        'the model, data pairing (column j of every prepared array = the generator\'s tag values of the cell of segment j at every depth, '
        'shape (depth, segments); an exception from the preparation is a failure of the clause, not of the run). Non-trivial: >= 3 segments, or a hole / re-entry / edge-running stretch; distinct by '
        '(recipe, path). '
        # ---- sixth round
        'Sixth round (harness/gen/c18_extra6.py, a random stream of its own): (a) RESOLUTION - the models and paths of all the classes '
        'above drawn at 2^-k degrees per lattice unit, k = 1..14 (cells from ~50 km down to a few metres; path vertices and cut points '
        'metres to kilometres apart), anywhere in longitude, astride the equator; every clipped cell goes to the Lean clipper twice, as '
        'drawn and on the lattice (resolution_invariant), and both must be what GEOS returned. (b) TRACKS - paths of 6..300 vertices as '
        'an instrument records them: runs of fixes 1/8..3/4 of a cell apart, passages of legs 1.5..3.5 cells long, and mixtures (a '
        'two-state chain: all passage / stations joined by passages / mixed / nearly all dense), turning round at the sides of the model, '
        'two tracks per model, over CF 1-D, CF 2-D / SHOC simple with holes, SHOC standard with masked nodes and UGRID meshes (concave '
        'faces, dropped cells) that are 2..4 cells across and up to 170 cells long, drawn at 2^-2..2^-12 degrees per unit; 40 % sailed '
        'the other way. Every oracle above applies unchanged (exact Fraction clip of every cell against every leg; a long track over a '
        'long model sends a sample of its crossed cells to the Lean clipper instead of the whole transect). (c) on the models of this '
        'round the distance a segment covers (end_distance - start_distance) is compared with the geodesic length (pyproj, WGS84) of its '
        'piece of the path, leg by leg.')
TRUSTED = ['GEOS polygon-line intersection itself (compared on every case with the proved Lean clipper on exactly representable cut '
           'points, never proved); cartopy / PROJ distances are only used for ordering',
           'for concave mesh faces the Lean reference is the event-based clipPathSimple (no theorem; agrees with the proved convex '
           'clipper on every convex cell met, and with harness/gen/pathclip.py)',
           'insideConvex (intersection of the edge half-planes) is the cell polygon only for convex rings: `convex` is decided in Lean '
           'and compared with GEOS; that the half-plane set of a convex ring equals the ring\'s polygon is classical geometry, not proved']
ASSUMPTIONS = ['metric lengths depend on PROJ floating point: only parameter-space coverage is proved; planar lengths are compared with a 1e-9 relative tolerance in the oracle',
               'in this sandbox cartopy\'s PlateCarree -> azimuthal equidistant conversion displaces every per-vertex projection centre northwards by '
               '0.67 % of its latitude (21 km at 45 degrees; DESIGN.md 8.4), so the distances of the unchanged code are in path order only where that '
               'is well below the shortest piece of path: the fine-resolution models and the tracks of the sixth round therefore lie astride the equator '
               '(vertices within 18 half-lattice units / 3 cells of it), and the metric comparison of a segment\'s covered distance with the geodesic '
               'length of its piece allows 1.5 % of the distance from the equator per measurement + 2 % of the length',
               'segments_within_cells is proved for convex cells (CF grids, SHOC, convex mesh faces); for concave mesh faces "lies within its cell" rests on the correspondence and the oracle']
LEVEL_NOTE = ('The clipping of the path against a convex cell is part of the Lean model and proved exact (every point of a piece is in '
              'the cell, every point of the leg in the cell is in the piece); GEOS is compared against it, not against Python code. '
              'Partial: metric lengths (PROJ) are outside the model - coverage is proved in path-parameter space, distances are compared '
              'for order only; for concave mesh faces the clipper is an unproved event clipper cross-checked against the proved one on every '
              'convex cell; GEOS constructive geometry itself is compared, never proved. One known finding (edge-running stretches reported '
              'once per adjacent cell). Trusted: Lean kernel (axioms propext, Quot.sound, Classical.choice), the hand-written model, the '
              'harness (generators, canonicalisers, driver parser), numpy/xarray/shapely behaviour taken as parameters.')

DEPTH_NAME = {'cf1d': 'depth', 'cf2d': 'depth', 'shoc_simple': 'zc', 'shoc_standard': 'z_centre', 'ugrid': 'depth'}


def rat(v) -> str:
    return util.rat_str(v)


def split_at_vertices(a, b) -> list:
    """GEOS may or may not cut a piece at the path's own vertices (integer parameters); the
    property does not care, so both sides are compared cut at every vertex"""
    import math
    cuts = [a] + [Fraction(k) for k in range(math.floor(a) + 1, math.ceil(b)) if a < k < b] + [b]
    return list(zip(cuts, cuts[1:]))


def ring_str(pts) -> str:
    return ';'.join(f'{rat(x)},{rat(y)}' for x, y in pts)


def make_path(rng, xs, ys) -> list:
    """vertices on the half-integer lattice, legs E / NE / SE / N / S, x never decreasing, no retrace"""
    x0, x1, y0, y1 = min(xs), max(xs), min(ys), max(ys)
    H = Fraction(1, 2)
    x = Fraction(rng.randint(int(x0) * 2 - 3, int(x0) * 2 + 2), 2)
    y = Fraction(rng.randint(int(y0) * 2 - 1, int(y1) * 2 + 1), 2)
    if rng.random() < 0.15:           # far away: misses the model
        y = y1 + 50
    pts = [(x, y)]
    last_vertical = 0
    for _ in range(rng.randint(1, 5)):
        step = Fraction(rng.randint(1, 8), 2)
        kind = rng.choice(['E', 'E', 'NE', 'SE', 'N', 'S'])
        if kind == 'N' and last_vertical == -1:
            kind = 'E'
        if kind == 'S' and last_vertical == 1:
            kind = 'E'
        if kind == 'E':
            x, last_vertical = x + step, 0
        elif kind == 'NE':
            x, y, last_vertical = x + step, y + step, 0
        elif kind == 'SE':
            x, y, last_vertical = x + step, y - step, 0
        elif kind == 'N':
            y, last_vertical = y + step, 1
        else:
            y, last_vertical = y - step, -1
        if abs(y) > 85:
            break
        pts.append((x, y))
    if len(pts) < 2:
        pts.append((pts[0][0] + 1, pts[0][1]))
    return pts


def add_depth(built, rng):
    name = DEPTH_NAME[built.conv]
    nk = built.ds.sizes.get('k', 2)
    attrs = {'positive': 'down', 'standard_name': 'depth', 'axis': 'Z', 'units': 'm', 'long_name': 'depth'}
    if name == 'depth':
        ds = built.ds.rename_dims({'k': 'depth'}) if 'k' in built.ds.dims else built.ds
        ds = ds.assign_coords({'depth': xr.DataArray(np.arange(nk, dtype='f8'), dims=['depth'], attrs=attrs)})
        kdim = 'depth'
    else:
        ds = built.ds.assign_coords({name: xr.DataArray(np.arange(nk, dtype='f8'), dims=['k'], attrs=attrs)})
        kdim = 'k'
    return ds, kdim


STORE_DOC = """recipe['store'] says how the dataset handed to Transect *holds* its numbers (the numbers are the same):
  None                      numpy arrays, as the generator built them
  {'how': 'chunk', 'scope': 'var'|'all', 'grid': n|-1, 'k': n|-1}
                            dask-backed (`.chunk`): the data variable only, or every variable of the dataset; chunks of n along
                            every horizontal (grid) dimension, of k along the depth dimension (-1: one chunk)
  {'how': 'file', 'grid': .., 'k': ..}
                            written to netCDF and opened with `open_dataset(path, chunks=...)` (dask over a lazily read file)
"""


def random_store(rng):
    c = rng.random()
    if c < 0.45:
        return None
    how = 'file' if c < 0.6 else 'chunk'
    return {'how': how, 'scope': rng.choice(['var', 'all']),
            'grid': rng.choice([1, 2, 2, 3, -1]), 'k': rng.choice([1, -1])}


def apply_store(ds, store, kdim, var_names, cleanup):
    """the dataset of `add_depth` held as `store` says; `cleanup` collects what has to be closed / removed afterwards"""
    if not store:
        return ds
    sizes = {d: (store['k'] if d == kdim else store['grid']) for d in ds.dims}
    if store['how'] == 'file':
        import os
        import tempfile
        d = tempfile.mkdtemp(prefix='verifc18')
        path = os.path.join(d, 'ds.nc')
        cleanup.append(lambda: (os.path.exists(path) and os.remove(path), os.rmdir(d)))
        ds.to_netcdf(path)
        opened = xr.open_dataset(path, chunks=sizes)
        cleanup.insert(0, opened.close)
        return opened
    if store['scope'] == 'all':
        return ds.chunk(sizes)
    ds = ds.copy()
    for name in var_names:
        ds[name] = ds[name].chunk({d: sizes[d] for d in ds[name].dims})
    return ds


def truth_layers(info, gdims, kname='k'):
    """[depth, linear cell index] of a tagged variable, from the generator's description of it alone (value at C-order
    position p of the stored array is base + p): what `ravel` + moving the depth axis must give"""
    arr = (np.arange(int(np.prod(info.shape)), dtype='f8') + info.base).reshape(info.shape)
    perm = [info.dims.index(kname)] + [info.dims.index(d) for d in gdims]
    arr = arr.transpose(perm)
    return arr.reshape(arr.shape[0], -1)


def examine(ctx, recipe, items, rng=None) -> None:
    cleanup: list = []
    try:
        examine_stored(ctx, recipe, items, cleanup, rng)
    finally:
        for fn in cleanup:
            try:
                fn()
            except Exception:
                pass


def own_paths(ctx, rng, xs, ys):
    """the three paths of a recipe of the first five rounds, drawn one at a time (the stream is shared with the case body)"""
    for _ in range(3):
        path = make_path(rng, xs, ys)
        if rng.random() < 0.4:
            # the same track sailed the other way (x never increasing): the cells are met in another order, in general
            # neither increasing nor decreasing linear index
            path = path[::-1]
            ctx.count('path:east-to-west')
        # a track may carry a third ordinate (altitude of the instrument, say): the cells are two-dimensional and the
        # path's position over them does not depend on it
        zs = [rng.choice([0, 10, 900, -50]) for _ in path] if rng.random() < 0.3 else None
        yield path, zs


# above this many (cells x legs) a case is judged by the oracle and by per-cell `clip` lines of a sample of cells only
# (the `transect` line clips every cell against every leg in the interpreted driver)
BIG_CASE = 3000
MANY_CELLS = 64      # above this many cells `convex` is asked for the cells that are clipped, not for every cell


def examine_stored(ctx, recipe, items, cleanup, rng=None) -> None:
    from emsarray import transect
    rng = rng or ctx.rng
    built = G.build(recipe)
    ds, kdim = add_depth(built, rng)
    store = recipe.get('store')
    var_names = [n for n, i in built.vars.items() if i.kind is not None]
    try:
        ds = apply_store(ds, store, kdim, var_names, cleanup)
    except Exception as e:      # the dataset cannot be written by xarray (nothing emsarray did): hold it chunked in memory instead
        ctx.count(f'store:file-not-writable({type(e).__name__})')
        store = {**store, 'how': 'chunk', 'scope': 'all'}
        ds = apply_store(ds, store, kdim, var_names, cleanup)
    ctx.count('store:' + ('numpy' if not store else f"{store['how']}/{store.get('scope', 'all') if store['how'] == 'chunk' else 'all'}"
                          f"/grid-{'split' if store['grid'] != -1 else 'whole'}"))
    conv = built.conv_class(ds)
    conv.bind()
    raw = built.polys
    vbits = S.geos_valid_bits(raw)
    kept = [q if (q is not None and vbits[n] == '1') else None for n, q in enumerate(raw)]
    cells = [q for q in kept if q is not None]
    if not cells:
        return
    xs = [p[0] for q in cells for p in q]
    ys = [p[1] for q in cells for p in q]
    polys = conv.polygons
    var = next((n for n, i in built.vars.items() if i.kind == 'face' and 'k' in i.dims), None)
    # the Lean `convex` test decides which clipper is the reference for a cell; GEOS's view of the same ring (generator ground truth)
    cvx = {}
    for n, q in enumerate(kept):
        if q is None:
            continue
        gp = shapely.Polygon([(float(x), float(y)) for x, y in q])
        cv = '1' if gp.area > 0 and gp.convex_hull.area == gp.area else '0'
        cvx[n] = cv
        ctx.count(f'cell-convex:{cv}')
        if len(cells) <= MANY_CELLS:
            items.append((f'convex {ring_str(q)}', cv, {'recipe': recipe, 'cell': n, 'op': f'convex {ring_str(q)}'}))
    # ---- extra6: a recipe of the sixth round (resolution / tracks) brings its own paths -------------------------
    source = E6.paths(ctx, rng, recipe, xs, ys, make_path) if recipe.get('e6') else own_paths(ctx, rng, xs, ys)
    for path, zs in source:
        if zs is None:
            line = shapely.LineString([(float(x), float(y)) for x, y in path])
        else:
            line = shapely.LineString([(float(x), float(y), float(z)) for (x, y), z in zip(path, zs)])
        desc = {'recipe': recipe, 'path': [[str(x), str(y)] for x, y in path], 'z': zs}
        # ---- ground truth pieces (exact) -------------------------------------------------------------
        truth = []
        boxes = PC.leg_boxes(path)
        for n, q in enumerate(kept):
            if q is None:
                continue
            ivs = PC.clip(path, q, boxes)
            if ivs:
                truth.append((n, ivs))
        pieces = ';'.join(f"{n}=" + ','.join(f'{rat(a)}:{rat(b)}' for a, b in ivs) for n, ivs in truth) or '-'
        mline = f'segments {pieces}'
        # ---- real transect --------------------------------------------------------------------------------
        t = transect.Transect(ds, line)
        segs = t.segments
        got = []
        bad_param = False
        for s in segs:
            a = PC.param_of((Fraction(s.start_point.x), Fraction(s.start_point.y)), path)
            b = PC.param_of((Fraction(s.end_point.x), Fraction(s.end_point.y)), path)
            if a is None or b is None:
                bad_param = True
                break
            got.append((int(s.linear_index), a, b))
        if bad_param:
            ctx.oracle_fail('segment-endpoint-off-path', desc, 'a segment end point does not lie on the path')
            continue
        # GEOS cuts the pieces of one cell at noding points of its choosing (path vertices, polygon
        # vertices the path passes through); the property does not care how a stretch inside one cell
        # is cut, so contiguous pieces of the same cell are merged before comparing
        merged = {}
        for n, a, b in sorted(got, key=lambda g: (g[0], g[1], g[2])):
            lst = merged.setdefault(n, [])
            if lst and lst[-1][1] == a:
                lst[-1] = (lst[-1][0], b)
            else:
                lst.append((a, b))
        canon = sorted(((n, a, b) for n, ivs in merged.items() for a, b in ivs), key=lambda g: (g[1], g[2], g[0]))
        out = '|'.join(f'{n},{rat(a)},{rat(b)}' for n, a, b in canon) or '(none)'
        items.append((mline, out, {**desc, 'op': mline}))
        # ---- the Lean clipper as the reference: whole transect, then cell by cell ------------------------------
        pstr = ring_str(path)
        cells_s = '|'.join(f'{n}={ring_str(q)}' for n, q in enumerate(kept) if q is not None) or '-'
        tline = f'transect {pstr} {cells_s}'
        # ---- extra6: a long track over a long model is clipped by the driver for a sample of its cells only
        big = len(cells) * (len(path) - 1) > BIG_CASE
        ctx.count('lean-reference:' + ('sample-of-cells' if big else 'every-cell'))
        if not big:
            items.append((tline, out, {**desc, 'op': tline}))
        crossed = sorted(set(merged) | {n for n, _ in truth})
        tracked = bool(recipe.get('e6', {}).get('tracks'))
        if big or tracked:
            # (the whole-transect line above, when it is sent, has every cell; the per-cell lines repeat the long path)
            crossed = crossed[::max(1, len(crossed) // 3)][:4]
        for position, n in enumerate(crossed):
            if len(cells) > MANY_CELLS and 0 <= n < len(kept) and kept[n] is not None:
                items.append((f'convex {ring_str(kept[n])}', cvx[n], {'recipe': recipe, 'cell': n, 'op': f'convex {ring_str(kept[n])}'}))
            if not (0 <= n < len(kept)) or kept[n] is None:
                continue        # a segment of a cell without geometry: the oracle below reports it
            want = ','.join(f'{rat(a)}:{rat(b)}' for a, b in merged.get(n, [])) or '-'
            cline = f'clip {ring_str(kept[n])} {pstr}'
            items.append((cline, want, {**desc, 'cell': n, 'op': cline}))
            if recipe.get('e6') and (not tracked or position < 2):
                # extra6: the same cell and path on the lattice they were drawn from (Ems.C18.resolution_invariant): same pieces
                e6 = recipe['e6']
                lline = (f'clip {ring_str([E6.to_lattice(e6, x, y) for x, y in kept[n]])} '
                         f'{ring_str([E6.to_lattice(e6, x, y) for x, y in path])}')
                items.append((lline, want, {**desc, 'cell': n, 'drawn': 'on the lattice', 'op': lline}))
            pline = f'propcheck {ring_str(kept[n])} {pstr}'
            if not tracked or position < 1:
                items.append((pline, 'ok', {**desc, 'cell': n, 'op': pline}))
            ctx.count('clip-pairs:convex-cell(proved clipper)' if cvx.get(n) == '1' else 'clip-pairs:concave-cell(event clipper)')
            if len(merged.get(n, [])) >= 2:
                ctx.count('clip-pairs:cell-left-and-re-entered')
        n_seg = len(got)
        total_cells = {n for n, _, _ in got}
        reentry = len(got) != len(total_cells)
        if n_seg >= 3 or reentry or any(q is None for q in kept):
            ctx.nontrivial((str(recipe), str(path)))
        ctx.count(f'segments:{min(n_seg, 6)}')
        # ---- direct oracle ---------------------------------------------------------------------------------
        order_ok = all((got[i][1], got[i][2]) <= (got[i + 1][1], got[i + 1][2]) for i in range(len(got) - 1))
        if not order_ok:
            ctx.oracle_fail('segments-not-in-path-order', desc, f'segments in order {[(n, str(a), str(b)) for n, a, b in got]}')
        for s, (n, a, b) in zip(segs, got):
            if not (a <= b) or not (s.start_distance <= s.end_distance):
                ctx.oracle_fail('segment-start-after-end', desc, f'cell {n}: start {a} end {b}')
                break
            if a == b:
                ctx.oracle_fail('segment-is-a-single-point', desc, f'cell {n}: a segment that starts and ends at path parameter {a} '
                                '(a point touch is not a piece of the path inside the cell)')
                break
            if polys[n] is None or not polys[n].buffer(1e-9).covers(s.intersection):
                ctx.oracle_fail('segment-outside-its-cell', desc, f'segment {s.intersection.wkt} is not within cell {n}')
                break
            try:
                back = int(conv.ravel_index(s.index))
            except Exception:
                back = None
            if back != n or s.polygon is not polys[n] and not s.polygon.equals(polys[n]):
                ctx.oracle_fail('segment-index-incoherent', desc, f'segment names linear index {n}, native index {s.index} is cell {back}')
                break
        # ---- extra6: the distance a segment covers (end - start, metres) is the length of its piece of the path. Judged on
        # the models of the sixth round only: they lie astride the equator, where the displaced projection centres of this
        # sandbox (DESIGN.md 8.4) change a distance by a known, small amount (harness/gen/c18_extra6.py)
        if recipe.get('e6') and order_ok:
            wrong = E6.metric_failures(path, segs, got)
            ctx.evaluated()
            if wrong:
                pos, n, covered, expected, tol = wrong[0]
                ctx.oracle_fail('segment-distance-not-the-length-of-its-piece', desc,
                                f'segment {pos} (cell {n}) covers {covered:.3f} m of the transect (end_distance - start_distance) '
                                f'but its piece of the path is {expected:.3f} m long (tolerance {tol:.3f} m); {len(wrong)} such segment(s)')
        # coverage: the lengths add up to the length of the path inside the model
        union = shapely.unary_union([p for p in polys if p is not None])
        inside_len = line.intersection(union).length
        seg_len = sum(s.intersection.length for s in segs)
        if abs(seg_len - inside_len) > 1e-9 * max(1.0, inside_len):
            # which stretch is reported more than once?
            dup = [(got[i][0], got[j][0]) for i in range(len(got)) for j in range(i + 1, len(got))
                   if got[i][0] != got[j][0] and max(got[i][1], got[j][1]) < min(got[i][2], got[j][2])]
            sig = 'transect-edge-running-duplicated' if dup and seg_len > inside_len else 'transect-coverage-differs'
            ctx.oracle_fail(sig, desc, f'segment lengths add up to {seg_len}, the path inside the model is {inside_len} long'
                            + (f'; cells {dup[:3]} report the same stretch' if dup else ''))
        if not truth and segs:
            ctx.oracle_fail('segments-for-a-miss', desc, 'the path misses every cell but segments were reported')
        # independent of Lean: the pieces per cell are the exact Fraction clip of the path against the cell
        exact = sorted((n, a, b) for n, ivs in truth for a, b in ivs)
        reported = sorted((n, a, b) for n, ivs in merged.items() for a, b in ivs)
        if exact != reported:
            diff = sorted(set(exact) ^ set(reported))[:4]
            ctx.oracle_fail('segments-differ-from-exact-clip', desc, 'per cell, the stretches of the path reported differ from the exact '
                            f'clip of the path against the cell polygon: {[(n, str(a), str(b)) for n, a, b in diff]}')
        # data pairing: the expected columns come from the generator's description of the variable (tag base + C-order
        # position), not from emsarray's own ravel
        if var is not None and segs:
            info = built.vars[var]
            layers_arr = truth_layers(info, built.grids[info.kind][0])
            cells_of = [g[0] for g in got]
            if any(not (0 <= c < layers_arr.shape[1]) for c in cells_of):
                continue            # a segment of a cell that does not exist: reported above
            want = layers_arr[:, cells_of]

            def columns_of(arr):
                """(values, complaint) of one prepared array; anything it is or raises is an answer, not a crash"""
                try:
                    prepared = t.prepare_data_array_for_transect(arr)
                    vals = np.asarray(prepared.values)
                    dims = tuple(prepared.dims)
                except Exception as e:  # noqa
                    return None, f'raised {type(e).__name__}: {e}'
                if vals.shape != want.shape:
                    return vals, f'has shape {vals.shape} (dims {dims}), expected (depth, segment) = {want.shape}'
                return vals, None

            def came_from(vals, offset=0):
                flat_truth = {float(v) + offset: c for c, v in enumerate(layers_arr[0])}
                return [flat_truth.get(float(v), '?') for v in vals[0]]

            da = ds[var]
            gotv, complaint = columns_of(da)
            ctx.evaluated()
            ctx.count('prepare:' + ('dask-grid-split' if da.chunks is not None and any(
                len(c) > 1 for d, c in zip(da.dims, da.chunks) if d != kdim) else 'dask-grid-whole' if da.chunks is not None else 'numpy'))
            if complaint is None and not np.array_equal(gotv, want, equal_nan=True):
                complaint = (f'columns hold the values of cells {came_from(gotv)}, the segments in path order are of cells {cells_of}')
            if complaint is not None:
                ctx.oracle_fail('transect-data-not-of-its-cell', {**desc, 'var': var},
                                f'prepared data columns are not the values of the segments\' cells at every depth: {complaint}')
            # the same Transect asked again for another array of the same name and shape (another time step, an
            # anomaly): the answer is about the array that was passed, not about the first one
            da2 = (da + 5000).rename(da.name)
            got2, complaint2 = columns_of(da2)
            ctx.evaluated()
            if complaint2 is not None or not np.array_equal(got2, want + 5000, equal_nan=True):
                ctx.oracle_fail('transect-data-of-an-earlier-array', {**desc, 'var': var},
                                'a second array of the same name prepared on the same Transect came back with other values than its own'
                                + (f': {complaint2}' if complaint2 else ''))
            # ... and for the same numbers held the other way round (the dataset in memory, the array to plot dask-backed in
            # small chunks along the grid dimensions, or the reverse): which cell a column belongs to does not depend on it
            if da.chunks is None:
                n3 = rng.choice([1, 2, 3]) * (1 if len(cells) <= 64 else 8)     # (extra6: long models in larger chunks)
                da3 = da.chunk({d: (-1 if d == kdim else n3) for d in da.dims})
                how3 = f'chunked by {n3} along the grid dimensions'
            else:
                n3 = 0
                da3 = da.compute()
                how3 = 'loaded into memory'
            got3, complaint3 = columns_of(da3)
            ctx.evaluated()
            if complaint3 is None and not np.array_equal(got3, want, equal_nan=True):
                complaint3 = f'columns hold the values of cells {came_from(got3)}, the segments in path order are of cells {cells_of}'
            if complaint3 is not None:
                ctx.oracle_fail('transect-data-not-of-its-cell', {**desc, 'var': var, 'rehold': n3},
                                f'the same array {how3} and prepared on the same Transect: {complaint3}')
            if gotv is not None and gotv.ndim == 2 and gotv.size:
                layers = ';'.join(','.join(str(int(v)) for v in row) for row in layers_arr)
                cl = f"columns {layers} {','.join(str(c) for c in cells_of)}"
                items.append((cl, ';'.join(','.join(str(int(v)) for v in row) for row in gotv), {**desc, 'op': cl}))
                if got3 is not None and got3.ndim == 2 and got3.size:
                    items.append((cl, ';'.join(','.join(str(int(v)) for v in row) for row in got3), {**desc, 'rehold': n3, 'op': cl}))


def has_concave_face(recipe) -> bool:
    for q in G.build(recipe).polys:
        if q is None:
            continue
        m = len(q)
        turns = [PC.cross(q[i], q[(i + 1) % m], q[(i + 2) % m]) for i in range(m)]
        if any(t > 0 for t in turns) and any(t < 0 for t in turns):
            return True
    return False


def dress(rng, recipe):
    """the data variable, its dimension order and how the dataset holds its numbers"""
    recipe = dict(recipe)
    recipe['vars'] = [{'name': 'temp', 'kind': 'face', 'extra': ['k'], 'base': 1000, 'dtype': 'f8'}]
    recipe['sizes_extra'] = {'k': 2}
    probe = G.build({k_: v for k_, v in recipe.items() if k_ not in ('vars', 'sizes_extra')})
    G.finalize_var_orders(rng, recipe['vars'], probe.grids, permute=True)
    recipe['store'] = random_store(rng)
    return recipe


def make_recipe(ctx, k, concave: bool = False, rng=None):
    rng = rng or ctx.rng
    conv = 'ugrid' if concave else G.CONVS[k % len(G.CONVS)]
    if concave:
        # the stream of meshes with a concave face (L-shaped hexagons, pentagons with a reflex vertex): the cells the
        # event-based clipper is the reference for, and the ones a path leaves and re-enters
        for _ in range(12):
            recipe = G.random_ugrid(rng, max_w=3, max_h=3, sheared=False, coords_as='vars', tables=[], edge_dim_declared=False)
            if has_concave_face(recipe):
                break
    elif conv == 'cf1d':
        recipe = G.random_cf1d(rng, max_n=5, bounds='contig')
        recipe['lat'] = [v % 40 - 20 for v in recipe['lat']]
        recipe['lat'] = sorted(set(recipe['lat'])) if len(set(recipe['lat'])) >= 2 else [0, 2, 4]
        recipe['lon'] = sorted(set(recipe['lon'])) if len(set(recipe['lon'])) >= 2 else [10, 12]
        recipe['bounds'] = 'none'
    elif conv in ('cf2d', 'shoc_simple'):
        recipe = G.random_cf2d(rng, conv, max_n=4, bounds='stored', axis_aligned=True)
    elif conv == 'shoc_standard':
        recipe = G.random_shoc_standard(rng, max_n=4, axis_aligned=True)
    else:
        recipe = G.random_ugrid(rng, max_w=3, max_h=3, sheared=False, coords_as='vars', tables=[], edge_dim_declared=False)
    return dress(rng, recipe)


def run(ctx) -> None:
    items: list = []
    for k in range(ctx.budget(40, 300)):
        recipe = make_recipe(ctx, k)
        ctx.guarded(lambda: examine(ctx, recipe, items), {'recipe': recipe})
    for k in range(ctx.budget(8, 60)):
        recipe = make_recipe(ctx, k, concave=True)
        ctx.guarded(lambda: examine(ctx, recipe, items), {'recipe': recipe})
    # ---- extra6 (own stream, after everything that draws from ctx.rng) -------------------------------------------
    sub = E6.sub_rng(ctx)
    for k in range(ctx.budget(12, 90)):
        # the models of the loops above at 2^-k degrees per lattice unit, astride the equator
        recipe = E6.random_placement(sub, make_recipe(ctx, k, concave=(k % 6 == 5), rng=sub))
        ctx.guarded(lambda: examine(ctx, recipe, items, rng=sub), {'recipe': recipe})
    for k in range(ctx.budget(10, 80)):
        # recorded tracks (tens to hundreds of vertices: stations, passages) over models long enough to hold them
        recipe = dress(sub, E6.track_recipe(sub, k))
        if recipe['store']:
            recipe['store'] = {**recipe['store'], 'grid': sub.choice([3, 8, 20, 50, -1])}
        ctx.guarded(lambda: examine(ctx, recipe, items, rng=sub), {'recipe': recipe})
    # ---- /extra6 ---------------------------------------------------------------------------------------------------
    if ctx.searching and ctx.driver is None:
        ctx.evaluated(len(items))
        return
    ctx.check_batch(items)


def rerun_data(inp) -> dict:
    """re-execute the data-pairing clause on the real code for a recorded input (recipe incl. storage, path, variable)"""
    from emsarray import transect
    cleanup: list = []
    try:
        recipe = inp['recipe']
        built = G.build(recipe)
        ds, kdim = add_depth(built, None)
        ds = apply_store(ds, recipe.get('store'), kdim, [n for n, i in built.vars.items() if i.kind is not None], cleanup)
        built.conv_class(ds).bind()
        path = [(Fraction(x), Fraction(y)) for x, y in inp['path']]
        zs = inp.get('z')
        line = shapely.LineString([(float(x), float(y)) + ((float(zs[i]),) if zs else ()) for i, (x, y) in enumerate(path)])
        t = transect.Transect(ds, line)
        cells = [int(s.linear_index) for s in t.segments]
        info = built.vars[inp['var']]
        layers_arr = truth_layers(info, built.grids[info.kind][0])
        da = ds[inp['var']]
        if 'rehold' in inp:
            da = da.chunk({d: (-1 if d == kdim else inp['rehold']) for d in da.dims}) if inp['rehold'] else da.compute()
        vals = np.asarray(t.prepare_data_array_for_transect(da).values)
        where = {float(v): c for c, v in enumerate(layers_arr[0])}
        return {'segment_cells_in_path_order': cells, 'prepared_columns_hold_cells': [where.get(float(v), '?') for v in vals[0]],
                'data_pairing_holds': bool(vals.shape == (layers_arr.shape[0], len(cells)) and np.array_equal(vals, layers_arr[:, cells]))}
    finally:
        for fn in cleanup:
            try:
                fn()
            except Exception:
                pass


def rerun_segments(inp) -> dict:
    """(extra6) re-execute the segment clauses on the real code for a recorded input (recipe, path): cells and path parameters of
    the segments in the order reported, against the exact clip of the path against every cell"""
    from emsarray import transect
    cleanup: list = []
    try:
        recipe = inp['recipe']
        built = G.build(recipe)
        ds, kdim = add_depth(built, None)
        ds = apply_store(ds, recipe.get('store'), kdim, [n for n, i in built.vars.items() if i.kind is not None], cleanup)
        built.conv_class(ds).bind()
        path = [(Fraction(x), Fraction(y)) for x, y in inp['path']]
        zs = inp.get('z')
        line = shapely.LineString([(float(x), float(y)) + ((float(zs[i]),) if zs else ()) for i, (x, y) in enumerate(path)])
        segs = transect.Transect(ds, line).segments
        got = [(int(s.linear_index), PC.param_of((Fraction(s.start_point.x), Fraction(s.start_point.y)), path),
                PC.param_of((Fraction(s.end_point.x), Fraction(s.end_point.y)), path)) for s in segs]
        vbits = S.geos_valid_bits(built.polys)
        exact = sorted((n, a, b) for n, q in enumerate(built.polys) if q is not None and vbits[n] == '1' for a, b in PC.clip(path, q))
        out = {'path_vertices': len(path), 'segments_reported': len(got), 'pieces_of_the_exact_clip': len(exact),
               'cells_crossed_without_a_segment': sorted({n for n, _, _ in exact} - {n for n, _, _ in got})[:20]}
        if all(a is not None and b is not None for _, a, b in got):
            out['start_after_end'] = [(n, str(a), str(b)) for n, a, b in got if a > b][:5]
            out['in_path_order'] = all((got[i][1], got[i][2]) <= (got[i + 1][1], got[i + 1][2]) for i in range(len(got) - 1))
            if recipe.get('e6') and out['in_path_order']:
                out['covered_distance_differs_from_piece_length'] = [
                    f'segment {pos} cell {n}: covers {c:.3f} m, piece {e:.3f} m (tolerance {t:.3f})'
                    for pos, n, c, e, t in E6.metric_failures(path, segs, got)][:5]
        return out
    finally:
        for fn in cleanup:
            try:
                fn()
            except Exception:
                pass


def run_one(ctx, inp):
    out = {}
    if inp.get('op') and ctx.driver:
        out['model'] = ctx.model([inp['op']])[0]
    if inp.get('var') and inp.get('recipe') and inp.get('path') and not inp.get('op'):
        import warnings
        warnings.simplefilter('ignore')
        out.update(rerun_data(inp))
    elif inp.get('recipe') and inp.get('path') and not inp.get('op'):
        import warnings
        warnings.simplefilter('ignore')
        out.update(rerun_segments(inp))
    return out


def replay(ctx, data) -> int:
    return util.generic_replay(ctx, data, run_one)
