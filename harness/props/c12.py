"""C12 — ocean floor extraction returns the deepest valid value of every water column."""
from __future__ import annotations

import itertools
import warnings

import numpy as np

from harness import util
from harness.gen import datasets as G
from harness.gen import depth as D
from harness.props.c13 import snapshot, snap_diff, _eq, _attrs_eq, majority_down

ID = 'C12'
MODULE = 'EmsModel.Props.C12'
DRIVER = 'C12'
REQUIRED = [
    'Ems.C12.floor_index_spec', 'Ems.C12.floor_index_none', 'Ems.C12.floor_index_valid_only',
    'Ems.C12.column_floor_spec', 'Ems.C12.floor_spec', 'Ems.C12.other_vars_untouched',
    'Ems.C12.depth_removed', 'Ems.C12.ocean_floor_succeeds', 'Ems.C12.keep_bounds_breaks_ocean_floor', 'Ems.C12.sizes_kept',
    # B1: about the term generated from the source of _find_ocean_floor_indexes / ocean_floor (harness/trans_depth.py)
    'Ems.C12.depth_source_translated', 'Ems.C12.find_floor_term_spec', 'Ems.C12.find_floor_term_last_valid',
    'Ems.C12.ocean_floor_steps_generated',
]
EXTRA_MODULES = ['EmsModel.Props.C12Src']
RULE = ('(a) every floor shape of a 2x3 column grid with 2 layers (3^6 = 729 wet-layer assignments, each column '
        '0..all layers wet) is enumerated, spread over datasets of the four conventions with a 2x3 face grid; each '
        'dataset carries up to four depth coordinates in the four axis configurations {positive up, down} x '
        '{deep-to-shallow, shallow-to-deep}, a spare dimension doubling the shapes per group, and variables with '
        'the depth dimension in a rotating position; (b) random datasets of all five conventions: 1-3 depth '
        'coordinates with 2-4 levels, every grid kind (faces, edges, nodes), one variable per position of the depth '
        'dimension, with / without time dimension, with / without positive attribute, with / without bounds '
        'variable (before / after the data variables), gaps inside the water column, integer variables; '
        '(c) extended stream, model against code only: bounds held as coordinates, time-varying floor, variables '
        'of one group with different floors, two depth dimensions on one variable, one-level axes, no time '
        'coordinate, unknown names; (d) the column routine by itself (skipped, counted, when the private helper '
        'changes its interface); (e) placement of the vertical grid against the datum: a minimal 2x2 dataset with '
        'the axis crossing / wholly above / touching the datum x both signs x both layer orders, and plain xarray '
        'datasets holding every column of valid / missing layers (gaps included) of length 2..5 (6 thorough) x '
        '{all layers below the datum, top layer at it, axis crossing it, all layers above it} x {positive up, down} '
        'x {deep-to-shallow, shallow-to-deep} x {positive attribute, sign guessed}, oracle and model. Real calls go through Convention.ocean_floor() and through '
        'operations.depth.ocean_floor; the model line carries the whole dataset and the order in which the code '
        'visits the depth dimensions (sorted by hash). Non-trivial = at least one column is neither full nor '
        'empty or the axis is not already positive-down shallow-to-deep; distinct = distinct (convention, axis '
        'configuration, floor shape, depth position).')
TRUSTED = ['xarray: cumsum(skipna) / argmax along a named dimension, isel with an integer DataArray indexer '
           '(pointwise by dimension name; result dimension order = indexed dimension replaced by the indexer\'s '
           'dimensions), merge(compat="override") keeps the left operand\'s variables, drop_dims',
           'the order in which `sorted(depth_dimensions, key=hash)` visits the dimensions is passed to the model; '
           'Ems.C12.floor_spec holds for every order']
ASSUMPTIONS = ['non-spatial (time) dimensions are non-empty and are not depth dimensions; each group has at least one spatial dimension',
               'static floor: inside one (depth dimension, spatial dimension set) group validity depends only on '
               '(layer, spatial location), not on the variable or the non-spatial index',
               'each variable has at most one depth dimension; depth coordinates as in C13 on pairwise distinct dimensions',
               'xarray coordinates that carry a depth dimension are one-dimensional',
               'kb = true (code as written): no data variable with a depth dimension is named by a bounds attribute '
               '(finding ocean-floor-bounds-variable); the theorems hold for kb = false without this assumption']
LEVEL_NOTE = ('a variable with a depth dimension but no spatial dimension (a profile) is dropped by the code; the '
              'property speaks of horizontal locations, so this is recorded as an observation, not a finding')

BOUNDS_SIG = 'ocean-floor-bounds-variable'


def call_floor(db: D.DBuilt, names, ns, via: str):
    from emsarray.operations import depth as E
    with warnings.catch_warnings():
        warnings.simplefilter('ignore')
        try:
            if via == 'accessor':
                return db.convention().ocean_floor(), None
            if via == 'function-iter':
                # the arguments are declared Iterable: one-shot iterators are as good as lists
                return E.ocean_floor(db.ds, iter(list(names)), non_spatial_variables=(n for n in list(ns))), None
            if via == 'function-da':
                # ... and a coordinate may be named by the data array itself
                return E.ocean_floor(db.ds, [db.ds[n] for n in names], non_spatial_variables=[db.ds[n] for n in ns]), None
            return E.ocean_floor(db.ds, list(names), non_spatial_variables=list(ns)), None
        except Exception as e:  # noqa
            return None, f'{type(e).__name__}: {e}'


def helper_index(column: str) -> str | None:
    """`_find_ocean_floor_indexes` on one column of v(alid) / n(an); None when the private helper
    cannot be called as (data_array, depth_dimension) or does not return one integer any more"""
    import xarray as xr
    try:
        from emsarray.operations.depth import _find_ocean_floor_indexes
        arr = xr.DataArray(np.array([1.0 if ch == 'v' else np.nan for ch in column]), dims=['k'])
        with warnings.catch_warnings():
            warnings.simplefilter('ignore')
            return str(int(_find_ocean_floor_indexes(arr, 'k').values))
    except Exception:  # noqa
        return None


# ---- B1 begin: helpers of the source-translator cross-check (harness/trans_depth.py) --------------------------
SRC_POOL = [-2.5, -1.0, 0.0, 0.5, 3.0, 1000.0]
SRC_OP_COLUMNS = [[1, None, 1], [None, 1, 1], [None, None], [5, None, -3, None], [None, 2, None, 2, 1], [2, 2, 2],
                  [0, -1, -1], [0.5], [None], [3, 1, 3, 0], [-1, None, -1, -2], [None, 0, 0.25, 0.25]]


def src_column_values(column: str, k: int) -> list:
    """numbers (dyadic, of both signs, zero included) for the valid layers of a v/n column; None = NaN"""
    return [SRC_POOL[(k + 3 * j) % len(SRC_POOL)] if ch == 'v' else None for j, ch in enumerate(column)]


def src_col_str(vals) -> str:
    return ','.join(D.rat(v) for v in vals) or '-'


def helper_index_values(vals) -> str | None:
    """`_find_ocean_floor_indexes` on one column of numbers; None when the private helper cannot be called"""
    import xarray as xr
    try:
        from emsarray.operations.depth import _find_ocean_floor_indexes
        arr = xr.DataArray(np.array([np.nan if v is None else float(v) for v in vals], dtype='f8'), dims=['k'])
        with warnings.catch_warnings():
            warnings.simplefilter('ignore')
            return str(int(_find_ocean_floor_indexes(arr, 'k').values))
    except Exception:  # noqa
        return None


def xarray_op(op: str, vals) -> str:
    """what xarray itself computes for one construct of the expression language of Core/DepthSrc.lean"""
    import xarray as xr
    arr = xr.DataArray(np.array([np.nan if v is None else float(v) for v in vals], dtype='f8'), dims=['k'])
    try:
        with warnings.catch_warnings():
            warnings.simplefilter('ignore')
            if op == 'argmax':
                return str(int(arr.argmax('k').values))
            res = arr.cumsum('k') if op == 'cumsum' else arr * 0 + 1
            return ','.join(D.rat(v) for v in D.flat_values(res.values)) or '-'
    except Exception:  # noqa
        return 'ERR'
# ---- B1 end --------------------------------------------------------------------------------------------------


def visit_order(db: D.DBuilt, names) -> list | None:
    """the order of `sorted(depth_dimensions, key=hash)` in this process"""
    try:
        dims = [str(db.ds[n].dims[0]) for n in names]
    except Exception:
        return None
    return sorted(dims, key=hash)


def floor_line(db: D.DBuilt, kb: int, names, ns, order=None) -> str:
    line = f"floor {kb} {D.dataset_str(db.sizes, db.mvars)} {','.join(names) or '-'} {','.join(ns) or '-'}"
    if order is not None:
        line += ' ' + (','.join(order) or '-')
    return line


def has_bounds_var(db: D.DBuilt) -> bool:
    return any(c.get('bounds') == 'var' for ax in db.recipe['depth']['axes'] for c in ax['coords'])


# ---------------------------------------------------------------------------------------
# direct property oracle

def oracle(ctx, db: D.DBuilt, names, out, snap_in, snap_after, desc):
    def fail(sig, msg):
        ctx.oracle_fail(sig, desc, msg)
    spec = db.recipe['depth']
    ds = db.ds
    d = snap_diff(snap_in, snap_after)
    if d:
        fail('input-mutated', f'the input dataset changed: {d}')
    if out is None:
        return
    coords = {c['name']: (ax, c) for ax in spec['axes'] for c in ax['coords']}
    depth_dims = {coords[n][0]['dim'] for n in names}
    phys = {}
    for n in names:
        ax, c = coords[n]
        vin = [float(v) for v in c['values']]
        down = (c['positive'] == 'down') if c.get('positive') is not None else majority_down(vin)
        phys.setdefault(ax['dim'], [v if down else -v for v in vin])
    bounds_names = {n + '_bnds' for n in coords}
    for n in out.variables:
        if set(map(str, out[n].dims)) & depth_dims:
            fail('depth-not-removed', f'{n} still has dimensions {out[n].dims}')
    for n in names:
        if n in out.variables:
            fail('depth-not-removed', f'depth coordinate {n} is still in the result')
    if set(map(str, out.sizes)) & depth_dims:
        fail('depth-not-removed', f'sizes {dict(out.sizes)}')
    for n in ds.variables:
        n = str(n)
        u = ds[n]
        udd = [str(x) for x in u.dims if str(x) in depth_dims]
        if not udd:
            if n not in out.variables:
                fail('other-variable-changed', f'{n} (no depth dimension) is missing from the result')
                continue
            o = out[n]
            if tuple(o.dims) != tuple(u.dims) or not _eq(u.values, o.values) or str(o.dtype) != str(u.dtype) \
                    or not _attrs_eq(dict(u.attrs), dict(o.attrs)) or (n in out.coords) != (n in ds.coords):
                fail('other-variable-changed', f'{n}{tuple(u.dims)} changed: {o.dims} {o.values.tolist()} {dict(o.attrs)}')
            continue
        if n in names or n in bounds_names or n in ds.coords or len(udd) != 1:
            continue
        dd = udd[0]
        tdim = spec['time']['dim'] if spec.get('time') else None
        spatial = [x for x in map(str, u.dims) if x != dd and x != tdim]
        if not spatial:
            continue          # a profile: no horizontal location (dropped by the code; see LEVEL_NOTE)
        if n not in out.variables:
            fail('floor-variable-lost', f'{n}{tuple(u.dims)} is missing from the result')
            continue
        o = out[n]
        if set(map(str, o.dims)) != set(map(str, u.dims)) - {dd} or not _attrs_eq(dict(u.attrs), dict(o.attrs)):
            fail('floor-dims', f'{n}: dims {u.dims} -> {o.dims}, attrs {dict(o.attrs)}')
            continue
        ph = phys[dd]
        ut = np.asarray(u.transpose(dd, *o.dims).values, dtype='f8')
        exp = np.full(o.shape, np.nan)
        for idx in itertools.product(*[range(s) for s in o.shape]):
            col = ut[(slice(None),) + idx]
            valid = [j for j in range(len(col)) if col[j] == col[j]]
            if valid:
                exp[idx] = col[max(valid, key=lambda j: ph[j])]
        got = np.asarray(o.values, dtype='f8')
        if not _eq(exp, got):
            bad = next(idx for idx in itertools.product(*[range(s) for s in o.shape])
                       if not _eq(exp[idx], got[idx]))
            fail('not-deepest-valid', f'{n}{tuple(u.dims)} at {dict(zip(o.dims, bad))}: column '
                 f'{ut[(slice(None),) + bad].tolist()} with physical depths {ph}: expected {exp[bad]}, got {got[bad]}')


# ---------------------------------------------------------------------------------------
# recipes

AXIS_CONFIGS = [(up, deep_first) for up in (False, True) for deep_first in (False, True)]


def exhaustive_recipes(rng, n_layers: int = 2):
    """all (n_layers+1)^6 floor shapes of a 2x3 grid, packed into datasets"""
    shapes = list(itertools.product(range(n_layers + 1), repeat=6))
    rng.shuffle(shapes)
    convs = ['cf1d', 'cf2d', 'shoc_simple', 'shoc_standard']
    k = 0
    di = 0
    while k < len(shapes):
        conv = convs[di % len(convs)]
        pool = list(D.name_pool(conv))
        base_r = D.base_recipe(rng, conv, 2, 3)
        base = G.build(base_r)
        axes = []
        cfgs = list(AXIS_CONFIGS)
        rng.shuffle(cfgs)
        for a, (name, dim) in enumerate(pool):
            up, deep_first = cfgs[a % 4]
            dim = name if (a + di) % 3 == 0 else dim
            c = D.random_coord(rng, conv, name, dim, n_layers, positive=rng.choice(['match', 'match', None]),
                               bounds=None, as_=rng.choice(['coord', 'var']), deep_first=deep_first, up=up)
            axes.append({'dim': dim, 'n': n_layers, 'coords': [c]})
        spec = {'time': D.time_spec(rng, conv), 'axes': axes, 'vars': [], 'bounds_last': False}
        vb = 1
        used = []
        for a, ax in enumerate(axes):
            if k >= len(shapes):
                break
            spare = True
            wet = []
            take = shapes[k:k + 2]
            k += len(take)
            if len(take) == 1:
                take = take * 2
            for col in range(6):
                wet += [take[0][col], take[1][col]]      # canonical order (..., grid, spare)
            used += take
            vs = D.group_vars(rng, base, spec, ax, 'face', vbase=vb, positions='random', wet=wet, spare=spare)
            # rotate the position of the depth dimension of the first variable deterministically
            v0 = vs[0]
            dims, _ = D.var_layout(base, spec, v0)
            kc = dims.index(ax['dim'])
            v0['order'] = D.depth_positions(len(dims), kc)[(di + a) % len(dims)]
            spec['vars'] += vs
            vb += len(vs) + 1
        spec['vars'].append({'name': 'surf', 'kind': 'face', 'axis': None, 'time': True, 'base': 770000})
        yield {'base': base_r, 'depth': spec}, used
        di += 1


def random_recipe(rng, conv: str, tier: str, deep: bool = False):
    big = tier == 'thorough'
    ny, nx = (3, 4) if (big and rng.random() < 0.5) else (2, 3)
    levels = (2, 3, 4) if big else (2, 3)
    if deep:
        # water columns far deeper than any small counter type holds (127, 255 layers and beyond)
        levels = (129, 150, 257, 300)
    r = D.random_dataset(rng, conv, ny=ny, nx=nx, levels=levels,
                         positions='random' if deep else rng.choice(['all', 'shuffled-all']), kinds_per_axis=1 if deep else 2,
                         bounds=rng.choice([None, None, 'var']), shared_dim=rng.random() < 0.15)
    spec = r['depth']
    base = G.build(r['base'])
    # gaps inside the water column (same for every variable of the group: the floor stays static)
    groups = {}
    for vr in spec['vars']:
        if vr.get('axis') is not None and vr.get('kind') is not None:
            groups.setdefault((vr['axis'], vr['kind']), []).append(vr)
    for (axd, kind), vs in groups.items():
        ax = next(a for a in spec['axes'] if a['dim'] == axd)
        if rng.random() < 0.4:
            ncol = len(vs[0]['wet'])
            gaps = []
            for _ in range(rng.randint(1, 3)):
                c = rng.randrange(ncol)
                if vs[0]['wet'][c] >= 2:
                    gaps.append([c, rng.randrange(vs[0]['wet'][c] - 1)])
            for vr in vs:
                vr['gaps'] = gaps
        elif rng.random() < 0.15:
            for vr in vs:
                vr['wet'] = [ax['n']] * len(vr['wet'])
                vr['dtype'] = 'i4'
    return r


def extended_recipe(rng, conv: str):
    """-> (recipe, names | None, ns | None, label); model against code only"""
    label = rng.choice(['bounds-coord', 'tvar', 'tvar', 'group-differs', 'group-differs', 'two-depth-dims',
                        'single-level', 'no-time', 'unknown', 'no-ns', 'subset'])
    r = D.random_dataset(rng, conv, n_axes=rng.choice([1, 2]), levels=(2, 3),
                         positions='random', kinds_per_axis=rng.choice([1, 2]),
                         bounds='coord' if label == 'bounds-coord' else None,
                         time=None if label == 'no-time' else 'yes')
    spec = r['depth']
    base = G.build(r['base'])
    names = ns = None
    dvars = [v for v in spec['vars'] if v.get('axis') is not None and v.get('kind') is not None]
    if label == 'tvar':
        if not spec.get('time') or spec['time']['n'] < 2:
            spec['time'] = D.time_spec(rng, conv, 2)
            for vr in dvars:
                vr['time'] = True
                vr['order'] = None
        for vr in dvars:
            if vr.get('time'):
                # blank the floor layer itself at one time step: the floor differs between time steps
                cols = [c for c, w in enumerate(vr['wet']) if w >= 1]
                vr['tvar'] = [[rng.randrange(spec['time']['n']), c, vr['wet'][c] - 1]
                              for c in rng.sample(cols, min(len(cols), 3))]
    elif label == 'group-differs' and dvars:
        vr = rng.choice(dvars)
        ax = next(a for a in spec['axes'] if a['dim'] == vr['axis'])
        vr['wet'] = [rng.randint(0, ax['n']) for _ in vr['wet']]
    elif label == 'two-depth-dims' and len(spec['axes']) >= 2 and dvars:
        # a variable over both depth dimensions: built as a variable of the first axis with the
        # second depth dimension standing in for the spare dimension
        vr = dict(rng.choice(dvars))
        other = next(a for a in spec['axes'] if a['dim'] != vr['axis'])
        vr['name'] = 'twodepth'
        vr['base'] = 5550000
        vr['also'] = other['dim']
        spec['vars'].append(vr)
    elif label == 'single-level':
        ax = spec['axes'][0]
        ax['n'] = 1
        for cc in ax['coords']:
            cc['values'] = cc['values'][:1]
        for vr in spec['vars']:
            if vr.get('axis') == ax['dim'] and vr.get('wet'):
                vr['wet'] = [min(w, 1) for w in vr['wet']]
    elif label == 'unknown':
        names = [c['name'] for a in spec['axes'] for c in a['coords']] + ['no_such_variable']
    elif label == 'no-ns':
        ns = []
    elif label == 'subset':
        allc = [c['name'] for a in spec['axes'] for c in a['coords']]
        names = rng.sample(allc, rng.randint(0, len(allc)))
    return r, names, ns, label


def build_extended(recipe) -> D.DBuilt:
    db = D.build(recipe)
    ds = db.ds
    changed = False
    for vr in recipe['depth']['vars']:
        if vr.get('also'):
            u = ds[vr['name']]
            n2 = int(ds.sizes[vr['also']])
            import xarray as xr
            stacked = np.stack([u.values + 100000 * j for j in range(n2)], axis=-1)
            ds[vr['name']] = xr.DataArray(stacked, dims=tuple(u.dims) + (vr['also'],), attrs=u.attrs)
            changed = True
    if changed:
        db.ds = ds
        db.sizes, db.mvars = D.model_view(ds)
    return db


def minimal_recipes():
    """smallest inputs of the classes that matter, run first so that a recorded failure is small:
    one positive-down coordinate with / without a bounds variable stored after / before the data"""
    for bounds, last in ((None, False), ('var', False), ('var', True)):
        base = {'conv': 'cf1d', 'lat': [0, 2], 'lon': [0, 2], 'ydim': 'lat', 'xdim': 'lon', 'latname': 'lat',
                'lonname': 'lon', 'bounds': 'none', 'coords_as': 'coords', 'bounds_as': 'vars'}
        coord = {'name': 'depth', 'values': [1, 3], 'positive': 'down', 'as': 'coord', 'bounds': bounds}
        spec = {'time': None, 'axes': [{'dim': 'depth', 'n': 2, 'coords': [coord]}], 'bounds_last': last,
                'vars': [{'name': 'temp', 'kind': 'face', 'axis': 'depth', 'time': False, 'order': None,
                          'base': 1000, 'wet': [2, 2, 2, 1]}]}
        yield {'base': base, 'depth': spec}


def signed_minimal_recipes():
    """the same minimal dataset with the vertical grid placed differently against the datum: crossing it,
    wholly above it (every depth negative), touching it; under both signs and both layer orders; the
    columns hold 3, 2, 1 and 0 layers counted from the surface, so the deepest valid layer of a column is
    in turn below, at and above the datum"""
    for cls, phys in (('cross', [-3, -1, 2]), ('above', [-5, -3, -1]), ('zero-bottom', [-2, -1, 0]), ('zero-top', [0, 1, 2])):
        for up in (False, True):
            for deep_first in (False, True):
                vals = [(-v if up else v) for v in phys]
                if deep_first:
                    vals = vals[::-1]
                base = {'conv': 'cf1d', 'lat': [0, 2], 'lon': [0, 2], 'ydim': 'lat', 'xdim': 'lon', 'latname': 'lat',
                        'lonname': 'lon', 'bounds': 'none', 'coords_as': 'coords', 'bounds_as': 'vars'}
                coord = {'name': 'depth', 'values': vals, 'positive': 'up' if up else 'down', 'as': 'coord', 'bounds': None}
                spec = {'time': None, 'axes': [{'dim': 'depth', 'n': 3, 'coords': [coord]}], 'bounds_last': False,
                        'vars': [{'name': 'temp', 'kind': 'face', 'axis': 'depth', 'time': False, 'order': None,
                                  'base': 1000, 'wet': [3, 2, 1, 0]}]}
                yield (cls, up, deep_first), {'base': base, 'depth': spec}


# ---------------------------------------------------------------------------------------
# every column against every placement of the axis (plain xarray datasets, operations.ocean_floor)

SIGN_CLASSES = ('below', 'zero-top', 'cross', 'above')


def signed_axis(cls: str, n: int) -> list:
    """strictly increasing physical depths (positive down) of n layers"""
    if cls == 'below':
        return [1 + 2 * i for i in range(n)]
    if cls == 'zero-top':
        return [2 * i for i in range(n)]
    if cls == 'cross':
        return [2 * i - n for i in range(n)]        # n odd: no layer at the datum; n even: one
    return [i - n for i in range(n)]                # 'above': every layer above the datum


class Plain:
    """a dataset that is not bound to a convention, with the same fields the correspondence uses"""
    conv = 'plain'

    def __init__(self, recipe):
        import xarray as xr
        col = recipe['columns']
        n, up, deep_first = col['n'], col['up'], col['deep_first']
        phys = signed_axis(col['cls'], n)
        vals = [(-v if up else v) for v in phys]
        order = list(range(n))[::-1] if deep_first else list(range(n))      # stored index -> physical rank
        vals = [vals[r] for r in order]
        pats = list(itertools.product((True, False), repeat=n))            # by physical rank, shallowest first
        ncol = len(pats)
        nt = 2
        valid = np.array([[pats[c][order[j]] for c in range(ncol)] for j in range(n)])     # (k, x) stored order
        temp = np.arange(n * ncol, dtype='f8').reshape(n, ncol) + 1000
        temp[~valid] = np.nan
        salt = np.arange(nt * ncol * n, dtype='f8').reshape(nt, ncol, n) + 5000
        salt[np.broadcast_to(~valid.T[None], salt.shape)] = np.nan
        attrs = {'long_name': 'layer z'}
        if col['positive']:
            attrs['positive'] = 'up' if up else 'down'
        else:
            attrs['axis'] = 'Z'
        ds = xr.Dataset(
            {'temp': (('k', 'x'), temp, {'units': 'u_temp'}), 'salt': (('t', 'x', 'k'), salt, {'units': 'u_salt'}),
             'eta': (('t', 'x'), np.arange(nt * ncol, dtype='f8').reshape(nt, ncol) + 9000, {'units': 'u_eta'})},
            coords={'t': (('t',), np.arange(nt, dtype='f8'), {'long_name': 'Time'}),
                    'z': (('k',), np.array(vals, dtype='f8'), attrs)})
        coord = {'name': 'z', 'values': vals, 'positive': attrs.get('positive'), 'as': 'coord', 'bounds': None}
        self.recipe = dict(recipe, depth={'time': {'name': 't', 'dim': 't', 'n': nt}, 'bounds_last': False, 'vars': [],
                                          'axes': [{'dim': 'k', 'n': n, 'coords': [coord]}]})
        self.ds = ds
        self.sizes, self.mvars = D.model_view(ds)
        self.time_name = 't'


def column_recipes(max_n: int):
    for n in range(1, max_n + 1):
        for cls in SIGN_CLASSES:
            for up in (False, True):
                for deep_first in (False, True):
                    for positive in (True, False):
                        yield {'columns': {'n': n, 'cls': cls, 'up': up, 'deep_first': deep_first, 'positive': positive}}


def build_any(recipe, stream: str = ''):
    if 'columns' in recipe:
        return Plain({'columns': recipe['columns']})
    return build_extended(recipe) if stream.startswith('extended') else D.build(recipe)


def shape_nontrivial(wet, n) -> bool:
    return any(0 < w < n for w in wet)


def run(ctx) -> None:
    rng = ctx.rng
    items = []

    def one(db, names, ns, via, stream, valid, key):
        # whatever the implementation returns or raises is a verdict about it, never a crash of the run
        ctx.guarded(lambda: _one(db, names, ns, via, stream, valid, key),
                    {'recipe': db.recipe, 'names': list(names), 'ns': list(ns), 'via': via, 'stream': stream})

    def _one(db, names, ns, via, stream, valid, key):
        snap_in = snapshot(db.ds)
        out, err = call_floor(db, names, ns, via)
        impl = 'ERR' if out is None else 'OK ' + D.dataset_line(out)
        order = visit_order(db, names)
        desc = {'recipe': db.recipe, 'names': list(names), 'ns': list(ns), 'via': via, 'stream': stream}
        kb = 0
        if impl == 'ERR' and valid:
            if has_bounds_var(db):
                # the code as written drags the bounds variable of a depth coordinate into every group's subset
                kb = 1
                ctx.oracle_fail(BOUNDS_SIG, desc, 'ocean_floor raised on a dataset whose depth coordinate has a bounds '
                                f'variable stored after a data variable of the same depth dimension: {err}')
            else:
                ctx.oracle_fail('ocean-floor-raised', desc, f'ocean_floor raised on a well-formed dataset: {err}')
        line = floor_line(db, kb, names, ns, order)
        if not valid and order is not None and len(set(order)) > 1 and ctx.driver is not None:
            # outside the hypotheses (e.g. two depth dimensions on one variable) the result may depend on
            # the arbitrary visiting order; such a case says nothing about the code and is skipped
            alts = ctx.model([floor_line(db, kb, names, ns, list(p)) for p in itertools.permutations(order)])
            if len(set(alts)) > 1:
                ctx.count('extended:order-dependent-skipped')
                return
        desc['op'] = line
        items.append((line, impl, desc))
        ctx.count(f'{stream}:{db.conv}')
        ctx.count('result:' + ('ERR' if impl == 'ERR' else 'OK'))
        if valid:
            ctx.evaluated()
            oracle(ctx, db, names, out, snap_in, snapshot(db.ds), desc)
            # do the hypotheses of the dataset-level theorems (Ems.C12.Setting) hold for this input?
            shared = any(len(ax['coords']) > 1 for ax in db.recipe['depth']['axes'])
            dsline = D.dataset_str(db.sizes, db.mvars)
            for k in (0, 1):
                want = '0' if shared or (k == 1 and has_bounds_var(db)) else '1'
                hl = f"hyp {k} {dsline} {','.join(names) or '-'} {','.join(ns) or '-'}"
                items.append((hl, want, dict(desc, op=hl, stream='hyp')))
            ctx.count('theorem hypotheses hold (kb=0)' if not shared else 'theorem hypotheses do not hold (shared dimension)')
        ctx.nontrivial(key)

    # (0) fixed minimal inputs
    for k, recipe in enumerate(minimal_recipes()):
        db = D.build(recipe)
        one(db, D.discovery(db), [], 'function', 'minimal', True, ('minimal', k))
    # ... and the same dataset with the vertical grid crossing / above / touching the datum
    for key, recipe in signed_minimal_recipes():
        db = D.build(recipe)
        one(db, D.discovery(db), [], 'function-da' if key[2] else 'function', 'minimal-signed', True, ('minimal-signed',) + key)

    # (a) all floor shapes of a 2x3 grid with 2 layers
    n_shapes = 0
    for recipe, shapes in exhaustive_recipes(rng, 2):
        db = D.build(recipe)
        names = D.discovery(db)
        n_shapes += len(shapes)
        via = 'accessor' if n_shapes % 3 else 'function'
        one(db, names, [db.time_name], via, 'exhaustive', True, ('exh', db.conv, n_shapes))
        for s in shapes:
            if shape_nontrivial(s, 2):
                ctx.nontrivial(('shape', s))
    ctx.exhaustive = True
    ctx.notes.append('all 3^6 = 729 floor shapes of the 2x3 grid with 2 layers enumerated')
    if ctx.thorough:
        # 3 layers: 4^6 = 4096 shapes, all of them
        for recipe, shapes in exhaustive_recipes(rng, 3):
            db = D.build(recipe)
            one(db, D.discovery(db), [db.time_name], 'function', 'exhaustive3', True, ('exh3', db.conv, tuple(shapes[0])))

    # (b) random datasets
    for i in range(ctx.budget(100, 800)):
        conv = D.CONVS[i % 5]
        recipe = random_recipe(rng, conv, ctx.tier, deep=(i % 10 == 7))
        db = D.build(recipe)
        names = D.discovery(db)
        got = [str(c.name) for c in db.convention().depth_coordinates]
        via = 'accessor' if (i % 2 == 0 and got == names) else ['function', 'function-iter', 'function-da'][(i // 2) % 3]
        cfg = tuple(sorted((c['name'], c.get('positive'), c.get('bounds'), tuple(c['values']))
                           for ax in recipe['depth']['axes'] for c in ax['coords']))
        one(db, names, [db.time_name], via, 'random', True, ('rnd', conv, cfg, i))

    # (c) extended stream: model against code only
    for i in range(ctx.budget(60, 400)):
        conv = D.CONVS[i % 5]
        recipe, names, ns, label = extended_recipe(rng, conv)
        try:
            db = build_extended(recipe)
        except Exception:
            ctx.count('extended:unbuildable')
            continue
        if names is None:
            names = D.discovery(db)
        if ns is None:
            ns = [db.time_name] if db.time_name else []
        via = 'accessor' if label in ('no-time',) and rng.random() < 0.5 else 'function'
        if via == 'accessor':
            # Convention.ocean_floor() needs a time coordinate: without one it raises
            out, err = call_floor(db, names, ns, via)
            ctx.evaluated()
            if out is not None:
                ctx.disagree('accessor ocean_floor without time coordinate', 'OK', 'ERR',
                             {'recipe': recipe, 'stream': 'extended:' + label, 'via': via, 'names': names, 'ns': ns})
            continue
        one(db, names, ns, via, 'extended:' + label, False, ('ext', conv, label, i))

    # (e) every column of valid / missing layers up to length 5 (6) against every placement of the axis
    # relative to the datum, both signs, both layer orders, with / without the positive attribute
    for recipe in column_recipes(6 if ctx.thorough else 5):
        col = recipe['columns']
        db = Plain(recipe)
        # a one-level axis is outside the hypotheses (as 'single-level' in the extended stream: the code as
        # written raises while normalising it, the model mirrors that): model against code only
        one(db, ['z'], ['t'], 'function-da' if col['n'] % 2 == 0 and col['up'] else 'function',
            'columns' if col['n'] >= 2 else 'extended:columns-one-level', col['n'] >= 2, ('columns',) + tuple(col.values()))

    # (d) the column routine by itself: every column of v/n up to length 6 (propcheck = model-side spec)
    cols = [''.join(c) for n in range(1, 7) for c in itertools.product('vn', repeat=n)]
    if not (ctx.searching and ctx.driver is None):
        outs = ctx.model([f'propcheck {c}' for c in cols])
        for c, o in zip(cols, outs):
            ctx.evaluated()
            if o != '1':
                ctx.disagree(f'propcheck {c}', '1', o, {'column': c, 'stream': 'column'})
        # and against xarray's own cumsum / argmax
        for c in rng.sample(cols, min(len(cols), 60)):
            got = helper_index(c)
            if got is None:
                # the private helper no longer has the interface (data_array, depth_dimension) -> int array:
                # that is not a statement about the property (the public entry points are what the other
                # streams and the column oracle below exercise); counted, not compared
                ctx.count('column:private-helper-interface-changed')
                continue
            items.append((f'fidx {c}', got, {'column': c, 'stream': 'column', 'op': f'fidx {c}'}))

    # ---- B1 begin: cross-check of the source translator (harness/trans_depth.py -> Gen.depthFindFloorIndexes) --
    # the term generated from the source text, evaluated by the driver on columns of numbers / NaN, against the running
    # helper; and the meaning given to each construct of the expression language against xarray itself
    for k, c in enumerate(cols):
        if len(c) > 4 and k % 3:
            continue
        vals = src_column_values(c, k)
        got = helper_index_values(vals)
        if got is None:
            ctx.count('src-column:private-helper-interface-changed')
            continue
        line = 'srcfidx ' + src_col_str(vals)
        items.append((line, got, {'column': c, 'values': vals, 'stream': 'src-column', 'op': line}))
    for vals in SRC_OP_COLUMNS:
        for op in ('cumsum', 'argmax', 'indicator'):
            line = f'srcop {op} {src_col_str(vals)}'
            items.append((line, xarray_op(op, vals), {'values': vals, 'stream': 'src-op', 'op': line}))
    # ---- B1 end ---------------------------------------------------------------------------------------------

    if ctx.searching and ctx.driver is None:
        ctx.evaluated(len(items))
        return
    ctx.check_batch(items)


def replay(ctx, data) -> int:
    return util.generic_replay(ctx, data, run_one)


def run_one(ctx, inp: dict) -> dict:
    out = {}
    if inp.get('stream') in ('src-column', 'src-op'):        # B1: source-translator cross-check
        op = inp['op']
        out['impl'] = (helper_index_values(inp['values']) or 'private helper not callable') if op.startswith('srcfidx') \
            else xarray_op(op.split()[1], inp['values'])
        if ctx.driver:
            out['model'] = ctx.model([op])[0]
        return out
    if inp.get('stream') == 'column':
        c = inp['column']
        out['impl'] = helper_index(c) or 'private helper not callable as (data_array, depth_dimension)'
        if ctx.driver:
            out['model'] = ctx.model([f'fidx {c}'])[0]
        return out
    stream = inp.get('stream', '')
    db = build_any(inp['recipe'], stream)
    names, ns, via = inp['names'], inp['ns'], inp.get('via', 'function')
    snap_in = snapshot(db.ds)
    res, err = call_floor(db, names, ns, via)
    out['impl'] = 'ERR' if res is None else 'OK ' + D.dataset_line(res)
    if err:
        out['error'] = err
    if ctx.driver and via != 'accessor' or (ctx.driver and not stream.startswith('extended')):
        out['model'] = ctx.model([floor_line(db, 0, names, ns, visit_order(db, names))])[0]
        out['model (code as written, kb=1)'] = ctx.model([floor_line(db, 1, names, ns, visit_order(db, names))])[0]
    if not stream.startswith('extended'):
        class Rec:
            def __init__(self):
                self.fails = []

            def oracle_fail(self, sig, desc, msg):
                self.fails.append(f'{sig}: {msg}')
        rec = Rec()
        oracle(rec, db, names, res, snap_in, snapshot(db.ds), {})
        if res is None:
            rec.fails.append('ocean_floor raised on a well-formed dataset')
        out['oracle'] = rec.fails or 'property holds on this input'
    return out
