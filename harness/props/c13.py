"""C13 — depth normalisation reorients coordinates and data together, idempotently."""
from __future__ import annotations

import copy
import itertools
import re
import warnings

import numpy as np

from harness import util
from harness.gen import datasets as G
from harness.gen import depth as D

ID = 'C13'
MODULE = 'EmsModel.Props.C13'
DRIVER = 'C13'
REQUIRED = [
    'Ems.C13.normalize_succeeds', 'Ems.C13.normalize_sign', 'Ems.C13.normalize_order',
    'Ems.C13.bounds_follow', 'Ems.C13.data_attached', 'Ems.C13.data_attached_profile',
    'Ems.C13.normalize_idempotent', 'Ems.C13.none_untouched_sign', 'Ems.C13.none_untouched_order',
    'Ems.C13.none_none_identity', 'Ems.C13.others_untouched', 'Ems.C13.normalize_rejects',
    'Ems.C13.normalize_preserves_valid',
    'Ems.C13.sign_only_succeeds', 'Ems.C13.sign_only_sign', 'Ems.C13.sign_only_bounds',
    'Ems.C13.sign_only_data_untouched', 'Ems.C13.sign_only_idempotent', 'Ems.C13.sign_only_none_identity',
    # B1: about the loop body generated from the source of normalize_depth_variables (harness/trans_depth.py)
    'Ems.C13.normalize_frame_generated', 'Ems.C13.normalize_src_head', 'Ems.C13.normalize_src_flip',
    'Ems.C13.normalize_src_order', 'Ems.C13.normalize_body_spec', 'Ems.C13.normalize_src_spec',
    'Ems.C13.normalize_src_succeeds',
]
EXTRA_MODULES = ['EmsModel.Props.C13Src']
RULE = ('(a) systematic block: one depth coordinate per dataset over the product {positive attribute present, '
        'absent} x {no bounds, bounds as data variable, bounds as coordinate} x {dimension coordinate, auxiliary '
        'coordinate, plain variable} x {ascending, descending} x {values positive-up, positive-down} = 72 '
        'configurations, rotating through the five convention classes, data variables with the depth dimension '
        'in every position; (b) random datasets with 1-3 depth coordinates (distinct dimensions, or two '
        'co-oriented coordinates on one dimension), SHOC fixed names / CF marker attributes; (c) malformed '
        'stream (non-monotonic, single level, NaN, upper-case or misspelt positive, 2-D marked variable, '
        'unknown / repeated names, dangling bounds, opposite coordinates on one dimension); (d) one-level depth '
        'coordinates (a surface-only / bottom-only extract that kept its depth axis, a single sediment layer): '
        'the product {positive attribute present, absent} x {no bounds, bounds as data variable, bounds as '
        'coordinate} x {dimension coordinate, auxiliary coordinate, plain variable} x {values positive-up, '
        'positive-down} = 36 configurations rotating through the conventions, plus random datasets with 1-3 '
        'coordinates of 1-3 levels at least one of which has a single level; for these the three option pairs '
        'that leave deep_to_shallow unset go through the oracle and the model (sign, bounds, data, idempotence, '
        'untouched, purity all apply to a one-level coordinate), the pairs that request an ordering are compared '
        'with the model only (the code as written refuses them for a one-level coordinate). Every dataset is '
        'normalised with all 9 option pairs, each applied twice (the second time to the dataset the first call '
        'returned, which must itself be left as it was), through one of six entry points in rotation: a convention '
        'instance made for the dataset, the registered `.ems` accessor (one instance living on the dataset object '
        'for all nine requests; the second pass through the accessor of the returned dataset), and the module '
        'function given a list of names, a one-shot generator of names, a list of the data arrays, a one-shot '
        'iterator of the data arrays (the parameter is an Iterable of names or arrays). (e) chains: on every '
        'random dataset three sequences of 2-3 independently drawn option pairs (one-level datasets: two '
        'sequences of sign-only pairs), each applied to the result of the one before through one entry point; '
        'the outcome must be the dataset the single merged request (per aspect the last pair that set it) gives, '
        'and the model is sent the same sequence. The model line carries the whole dataset (generator ground '
        'truth), the output is the whole '
        'resulting dataset (every variable, attribute token, coordinate status, warnings). A case is '
        'non-trivial when at least one of the two aspects is requested and differs from the input; distinct = '
        'distinct (convention, coordinate configuration, option pair, stream).')
TRUSTED = ['xarray: Dataset.copy (shallow, attribute dictionaries copied), assign / assign_coords keep attributes and '
           'coordinate status, isel with a reversed slice reverses every variable that has the dimension '
           '(modelled by Ems.Depth.revVar / Dataset.reverseAlong)']
ASSUMPTIONS = ['depth coordinates are strictly monotonic with >= 2 levels and no NaN; with deep_to_shallow unset any '
               'number of levels (Ems.Depth.ValidSign, the sign_only_* theorems): a one-level coordinate has a sign '
               'convention but no ordering',
               "the positive attribute, when present, is spelled 'up' or 'down'",
               'coordinate names are distinct; a bounds variable belongs to one coordinate and is not itself a depth coordinate',
               'theorems about several coordinates assume pairwise distinct depth dimensions (coordinates sharing a '
               'dimension are covered by the correspondence and the oracle only)']
LEVEL_NOTE = 'purity (input dataset not modified) is a run-time comparison of deep snapshots, not a theorem'

OPTS = [(pd, dts) for pd in (None, True, False) for dts in (None, True, False)]


def tri(v) -> str:
    return 'N' if v is None else ('T' if v else 'F')


def opt_str(pd, dts) -> str:
    return tri(pd) + tri(dts)


def parse_opt(s: str):
    m = {'N': None, 'T': True, 'F': False}
    return m[s[0]], m[s[1]]


def snapshot(ds) -> dict:
    out = {'__attrs__': copy.deepcopy(dict(ds.attrs)), '__sizes__': dict(ds.sizes)}
    for n in ds.variables:
        v = ds[n]
        out[str(n)] = (tuple(v.dims), np.array(v.values, copy=True), str(v.dtype), copy.deepcopy(dict(v.attrs)),
                       copy.deepcopy(dict(v.encoding)), n in ds.coords)
    return out


def snap_diff(a: dict, b: dict) -> str | None:
    if a.keys() != b.keys():
        return f'variables {sorted(set(a) ^ set(b))}'
    for k in a:
        x, y = a[k], b[k]
        if k.startswith('__'):
            if x != y:
                return f'{k}: {x} != {y}'
            continue
        if x[0] != y[0]:
            return f'{k}: dims {x[0]} != {y[0]}'
        if not _eq(x[1], y[1]):
            return f'{k}: values {x[1].tolist()} != {y[1].tolist()}'
        if x[2] != y[2]:
            return f'{k}: dtype {x[2]} != {y[2]}'
        if not _attrs_eq(x[3], y[3]):
            return f'{k}: attrs {x[3]} != {y[3]}'
        if not _attrs_eq(x[4], y[4]):
            return f'{k}: encoding {x[4]} != {y[4]}'
        if x[5] != y[5]:
            return f'{k}: coordinate status {x[5]} != {y[5]}'
    return None


def _eq(a, b) -> bool:
    a, b = np.asarray(a), np.asarray(b)
    if a.shape != b.shape:
        return False
    if a.dtype.kind == 'f' or b.dtype.kind == 'f':
        return bool(np.array_equal(a, b, equal_nan=True))
    return bool(np.array_equal(a, b))


def _attrs_eq(a: dict, b: dict) -> bool:
    if a.keys() != b.keys():
        return False
    return all(_eq(a[k], b[k]) if isinstance(a[k], (np.ndarray, np.generic)) else a[k] == b[k] for k in a)


WARN_RE = re.compile(r"Depth variable '([^']+)' had no 'positive' attribute, guessing `positive: '(up|down)'`")


# The entry points and argument classes a caller has.  `depth_coordinates` of the module function is declared
# `Iterable[Hashable | DataArray]`: a list of names, a one-shot iterator of names, the data arrays themselves and
# a one-shot iterator of data arrays are all the same request.  A convention is reached either as an instance
# made for the dataset ('accessor': `ConventionClass(ds).normalize_depth_variables`, a fresh instance per call) or
# through the registered xarray accessor ('ems': `ds.ems.normalize_depth_variables`) -- the accessor lives on the
# dataset object (one convention instance, with everything it has cached, for every call made on that dataset),
# and a second normalisation goes through the accessor of the dataset the first one returned.
FUNCTION_VIAS = ['function', 'function-iter', 'function-da', 'function-da-iter']
CONVENTION_VIAS = ['accessor', 'ems']
VIA_CYCLE = ['accessor', 'function-iter', 'ems', 'function', 'function-da-iter', 'function-da']


def pick_via(j: int, discovered_as_built: bool) -> str:
    via = VIA_CYCLE[j % len(VIA_CYCLE)]
    if via in CONVENTION_VIAS and not discovered_as_built:
        return 'function'      # the convention would normalise other coordinates than the ones the dataset has
    return via


def depth_argument(ds, names, via: str):
    if via == 'function-iter':
        return (n for n in list(names))
    if via == 'function-da':
        return [ds[n] for n in names]
    if via == 'function-da-iter':
        return iter([ds[n] for n in names])
    return list(names)


def call_normalize(db: D.DBuilt, ds, names, pd, dts, via: str):
    """-> (output dataset | None, canonical warnings string)"""
    import xarray as xr
    from emsarray.operations import depth as E
    with warnings.catch_warnings(record=True) as rec:
        warnings.simplefilter('always')
        try:
            if via == 'accessor':
                out = db.convention(ds).normalize_depth_variables(positive_down=pd, deep_to_shallow=dts)
            elif via == 'ems':
                out = ds.ems.normalize_depth_variables(positive_down=pd, deep_to_shallow=dts)
            else:
                out = E.normalize_depth_variables(ds, depth_argument(ds, names, via),
                                                  positive_down=pd, deep_to_shallow=dts)
        except Exception as e:  # noqa
            return None, f'{type(e).__name__}: {e}'
    if not isinstance(out, xr.Dataset):
        return None, f'returned a {type(out).__name__}, not a dataset'
    ws = []
    for w in rec:
        m = WARN_RE.search(str(w.message))
        if m:
            ws.append(f'{m.group(1)}:{m.group(2)}')
    return out, (','.join(ws) or '-')


def impl_chain(db, names, opts, via):
    """apply the option pairs in sequence, each to the result of the one before (the same entry point every
    time) -> (outputs so far, canonical line | 'ERR', error | None, how an intermediate input was modified | None).
    The first input (`db.ds`) is watched by the caller."""
    outs, ws, ds, mutated = [], [], db.ds, None
    for k, (pd, dts) in enumerate(opts):
        before = snapshot(ds) if k else None
        out, w = call_normalize(db, ds, names, pd, dts, via)
        if before is not None and mutated is None:
            d = snap_diff(before, snapshot(ds))
            if d:
                mutated = f'pass {k + 1} changed the dataset it was given: {d}'
        if out is None:
            return outs, 'ERR', w, mutated
        outs.append(out)
        ws.append(w)
        ds = out
    return outs, f"OK {D.dataset_line(ds)} W={'/'.join(ws)}", None, mutated


def impl_two_pass(db, names, pd, dts, via):
    outs, impl, err, mutated = impl_chain(db, names, [(pd, dts), (pd, dts)], via)
    outs = outs + [None, None]
    return outs[0], outs[1], impl, err, mutated


def merged_options(opts):
    """the single request a sequence of requests amounts to: for each aspect the last one that set it"""
    mpd = mdts = None
    for pd, dts in opts:
        mpd = pd if pd is not None else mpd
        mdts = dts if dts is not None else mdts
    return mpd, mdts


def norm_line(db: D.DBuilt, names, opts: list) -> str:
    return f"norm {D.dataset_str(db.sizes, db.mvars)} {','.join(names) or '-'} {','.join(opts)}"


# ---------------------------------------------------------------------------------------
# direct property oracle (brute force, independent of the Lean model)

def majority_down(values) -> bool:
    vals = list(values)
    return sum(1 for v in vals if v > 0) * 2 > len(vals)


def oracle(ctx, db: D.DBuilt, names, pd, dts, out1, out2, snap_in, snap_after, desc):
    """the property statement evaluated on the real output. Valid-stream datasets only."""
    def fail(sig, msg):
        ctx.oracle_fail(sig, desc, msg)
    spec = db.recipe['depth']
    ds = db.ds
    d = snap_diff(snap_in, snap_after)
    if d:
        fail('input-mutated', f'the input dataset changed: {d}')
    if out1 is None:
        fail('normalize-raised', 'normalize_depth_variables raised on a well-formed dataset')
        return
    coords = {c['name']: (ax, c) for ax in spec['axes'] for c in ax['coords']}
    perm = {}          # depth dimension -> list: output level j -> input level
    flipped = set()    # names whose values must be negated
    for name in names:
        ax, c = coords[name]
        dim = ax['dim']
        vin = [float(v) for v in c['values']]
        sign_in = (c['positive'] == 'down') if c.get('positive') is not None else majority_down(vin)
        if name not in out1.variables:
            fail('coordinate-lost', f'{name} is missing from the output')
            continue
        o = out1[name]
        if tuple(o.dims) != (dim,) or (name in out1.coords) != (name in ds.coords):
            fail('coordinate-shape', f'{name}: dims {o.dims}, coordinate status changed')
            continue
        vout = [float(v) for v in o.values]
        pos_out = o.attrs.get('positive')
        if pd is None:
            if pos_out != c.get('positive'):
                fail('none-not-untouched', f"{name}: positive_down=None but attribute went {c.get('positive')!r} -> {pos_out!r}")
            sign_out = (pos_out == 'down') if pos_out is not None else majority_down(vout)
            if sorted(vout) != sorted(vin):
                fail('none-not-untouched', f'{name}: positive_down=None but values went {vin} -> {vout}')
        else:
            want = 'down' if pd else 'up'
            if pos_out != want:
                fail('sign-attribute', f'{name}: requested positive {want!r}, attribute is {pos_out!r}')
            sign_out = pd
        rest_in = {k: v for k, v in ds[name].attrs.items() if k != 'positive'}
        rest_out = {k: v for k, v in o.attrs.items() if k != 'positive'}
        if not _attrs_eq(rest_in, rest_out) or dict(o.encoding) != dict(ds[name].encoding):
            fail('attributes-clobbered', f'{name}: attrs {dict(ds[name].attrs)} -> {dict(o.attrs)}; encoding {dict(ds[name].encoding)} -> {dict(o.encoding)}')
        ph_in = [v if sign_in else -v for v in vin]
        ph_out = [v if sign_out else -v for v in vout]
        if sorted(ph_in) != sorted(ph_out):
            fail('sign-values', f'{name}: physical depths {ph_in} -> {ph_out} (attribute and values disagree)')
            continue
        if dts is None:
            if ph_out != ph_in:
                fail('none-not-untouched', f'{name}: deep_to_shallow=None but the level order changed {ph_in} -> {ph_out}')
        else:
            ok = all(a > b for a, b in zip(ph_out, ph_out[1:])) if dts else all(a < b for a, b in zip(ph_out, ph_out[1:]))
            if not ok:
                fail('order', f"{name}: requested {'deep-to-shallow' if dts else 'shallow-to-deep'}, physical depths are {ph_out}")
        p = [ph_in.index(v) for v in ph_out]
        if dim in perm and perm[dim] != p:
            fail('coordinates-diverge', f'{dim}: coordinates on one dimension were reordered differently')
        perm[dim] = p
        f = -1.0 if (pd is not None and sign_in != pd) else 1.0
        if f < 0:
            flipped.add(name)
        bn = c['name'] + '_bnds' if c.get('bounds') else None
        if bn:
            if bn not in out1.variables:
                fail('bounds', f'{bn} is missing from the output')
            else:
                bi, bo = ds[bn], out1[bn]
                exp = f * bi.values[p, :]
                if tuple(bo.dims) != tuple(bi.dims) or not _eq(exp + 0.0, bo.values + 0.0) \
                        or not _attrs_eq(dict(bi.attrs), dict(bo.attrs)) or (bn in out1.coords) != (bn in ds.coords):
                    fail('bounds', f'{bn}: expected {exp.tolist()}, got {bo.values.tolist()} (dims {bo.dims}, attrs {dict(bo.attrs)})')
    skip = set(names) | {n + '_bnds' for n in names if n in coords and coords[n][1].get('bounds')}
    if set(map(str, out1.variables)) != set(map(str, ds.variables)):
        fail('variables-changed', f'variables {sorted(set(map(str, out1.variables)) ^ set(map(str, ds.variables)))}')
    if dict(out1.sizes) != dict(ds.sizes) or not _attrs_eq(dict(out1.attrs), dict(ds.attrs)):
        fail('variables-changed', f'sizes / global attributes changed: {dict(out1.sizes)}')
    for n in ds.variables:
        n = str(n)
        if n in skip or n not in out1.variables:
            continue
        u, o = ds[n], out1[n]
        exp = u.values
        for axis, dname in enumerate(u.dims):
            if dname in perm:
                exp = np.take(exp, perm[dname], axis=axis)
        moved = any(dname in perm and perm[dname] != sorted(perm[dname]) for dname in u.dims)
        if tuple(o.dims) != tuple(u.dims) or not _eq(exp, o.values) or str(o.dtype) != str(u.dtype) \
                or not _attrs_eq(dict(u.attrs), dict(o.attrs)) or (n in out1.coords) != (n in ds.coords):
            fail('data-detached' if moved or any(dn in perm for dn in u.dims) else 'untouched-changed',
                 f'{n}{tuple(u.dims)}: values are not the input re-ordered with the depth levels '
                 f'(level map {perm}); got {o.values.tolist()}')
    if out2 is None:
        fail('not-idempotent', 'the second application raised')
    else:
        d = snap_diff(snapshot(out1), snapshot(out2))
        if d:
            fail('not-idempotent', f'normalising a normalised dataset changed it: {d}')


def chain_oracle(ctx, db: D.DBuilt, names, opts, outs, err, mutated, snap_in, snap_after, desc):
    """a sequence of requests, each applied to the result of the one before.  Valid-stream datasets only."""
    def fail(sig, msg):
        ctx.oracle_fail(sig, desc, msg)
    d = snap_diff(snap_in, snap_after)
    if d:
        fail('input-mutated', f'the input dataset changed: {d}')
    if mutated:
        fail('input-mutated', mutated)
    if len(outs) < len(opts):
        fail('normalize-raised', f'pass {len(outs) + 1} of {[opt_str(*o) for o in opts]} raised on a well-formed '
                                 f'(already normalised) dataset: {err}')
        return
    mpd, mdts = merged_options(opts)
    ref, rerr = call_normalize(db, db.ds, names, mpd, mdts, 'function')
    if ref is None:
        fail('normalize-raised', f'normalize_depth_variables raised on a well-formed dataset: {rerr}')
        return
    d = snap_diff(snapshot(ref), snapshot(outs[-1]))
    if d:
        fail('chain-diverges', f'normalising with {[opt_str(*o) for o in opts]} in sequence does not give what the one '
                               f'request {opt_str(mpd, mdts)} gives (second is the sequence): {d}')


# ---------------------------------------------------------------------------------------

def systematic_configs():
    for positive, bounds, form, deep_first, up in itertools.product(
            ('attr', None), (None, 'var', 'coord'), ('dim', 'coord', 'var'), (False, True), (True, False)):
        yield {'positive': positive, 'bounds': bounds, 'form': form, 'deep_first': deep_first, 'up': up}


def systematic_recipe(rng, conv: str, cfg: dict, levels=(2, 3, 4)) -> dict:
    base_r = D.base_recipe(rng, conv, 2, 2 if conv != 'cf1d' else 3)
    base = G.build(base_r)
    name, dim = D.name_pool(conv)[0]
    if cfg['form'] == 'dim':
        dim = name
    n = rng.choice(list(levels))
    c = D.random_coord(rng, conv, name, dim, n, positive='match' if cfg['positive'] else None,
                       bounds=cfg['bounds'], as_='var' if cfg['form'] == 'var' else 'coord',
                       deep_first=cfg['deep_first'], up=cfg['up'])
    ax = {'dim': dim, 'n': n, 'coords': [c]}
    spec = {'time': D.time_spec(rng, conv), 'axes': [ax], 'vars': [], 'bounds_last': rng.random() < 0.5}
    kind = rng.choice(D.grid_kinds(base))
    spec['vars'] = D.group_vars(rng, base, spec, ax, kind, vbase=1, positions='all')
    spec['vars'].append({'name': 'surf', 'kind': kind, 'axis': None, 'time': True, 'base': 770000})
    spec['vars'].append({'name': 'profile', 'kind': None, 'axis': dim, 'time': False, 'base': 880000})
    return {'base': base_r, 'depth': spec}


# --- one-level depth coordinates (a surface-only / bottom-only extract that kept its depth axis, a single
# sediment layer).  A coordinate with one level has a sign convention but no ordering: the sign clause, the
# bounds clause, "data stay attached", idempotence, "unset options leave the aspect untouched" and purity all
# apply to it when `deep_to_shallow` is left unset.  (With `deep_to_shallow` set the code as written raises
# for such a coordinate -- `d1, d2 = values[0:2]` -- which the model mirrors; those option pairs are compared
# with the model only.)
SIGN_OPTS = [(pd, None) for pd in (None, True, False)]
ORDER_OPTS = [(pd, dts) for pd in (None, True, False) for dts in (True, False)]


def single_level_configs():
    for positive, bounds, form, up in itertools.product(
            ('attr', None), (None, 'var', 'coord'), ('dim', 'coord', 'var'), (True, False)):
        yield {'positive': positive, 'bounds': bounds, 'form': form, 'deep_first': False, 'up': up}


def has_single_level(recipe) -> bool:
    return any(ax['n'] == 1 for ax in recipe['depth']['axes'])


def mixed_levels_recipe(rng, conv: str, shared: bool) -> dict:
    """1-3 depth coordinates of 1-3 levels, at least one of them with a single level"""
    for _ in range(20):
        r = D.random_dataset(rng, conv, levels=(1, 1, 2, 3), positions=rng.choice(['all', 'shuffled-all', 'random']),
                             kinds_per_axis=rng.choice([1, 2]), shared_dim=shared)
        if has_single_level(r):
            return r
    return D.random_dataset(rng, conv, levels=(1,), positions='random', kinds_per_axis=1, shared_dim=shared)


def malformed_recipe(rng, conv: str):
    """-> (recipe, names or None, label). Model-vs-code comparison only."""
    r = D.random_dataset(rng, conv, n_axes=rng.choice([1, 2]), positions='random', kinds_per_axis=1)
    spec = r['depth']
    ax = spec['axes'][0]
    c = ax['coords'][0]
    label = rng.choice(['nonmono', 'single', 'upper', 'misspelt', 'equal2', 'twice', 'unknown', 'dangling',
                        'opposite', 'subset', 'zero-heavy', 'nan'])
    names = None
    if label == 'nonmono' and ax['n'] >= 3:
        v = list(c['values'])
        v[1], v[-1] = v[-1], v[1]
        c['values'] = v
    elif label == 'single':
        ax['n'] = 1
        for cc in ax['coords']:
            cc['values'] = cc['values'][:1]
        for vr in spec['vars']:
            if vr.get('axis') == ax['dim'] and vr.get('wet'):
                vr['wet'] = [min(w, 1) for w in vr['wet']]
    elif label == 'upper':
        c['positive'] = rng.choice(['DOWN', 'Down', 'UP', 'Up'])
    elif label == 'misspelt':
        c['positive'] = rng.choice(['downward', 'sideways', 'positive'])
        c.setdefault('marker', {'axis': 'Z'})
    elif label == 'equal2':
        v = list(c['values'])
        v[1] = v[0]
        c['values'] = v
    elif label == 'twice':
        names = [c['name'], c['name']]
    elif label == 'unknown':
        names = [c['name'], 'no_such_variable']
    elif label == 'dangling':
        c['bounds'] = None
        c.setdefault('extra', {})['bounds'] = 'nowhere_bnds'
    elif label == 'opposite' and conv in ('cf1d', 'cf2d', 'ugrid'):
        ph = D.physical_depths(c)
        c1 = {'name': 'opp_' + c['name'], 'values': [v for v in ph][::-1], 'positive': 'down',
              'as': 'coord', 'bounds': None}
        ax['coords'].append(c1)
    elif label == 'subset':
        allc = [cc['name'] for a in spec['axes'] for cc in a['coords']]
        names = rng.sample(allc, rng.randint(0, len(allc)))
    elif label == 'zero-heavy':
        c['positive'] = None
        c.setdefault('marker', {'axis': 'Z'})
        c['values'] = sorted(rng.sample([-3, -2, -1, 0, 1, 2, 3], ax['n']), reverse=rng.random() < 0.5)
    elif label == 'nan':
        c['dtype'] = 'f8'
        c['nan_at'] = rng.randrange(ax['n'])
    return r, names, label


def build_malformed(recipe):
    db = D.build(recipe)
    # NaN inside a coordinate and a dangling bounds attribute cannot be expressed by the plain builder
    changed = False
    ds = db.ds
    for ax in recipe['depth']['axes']:
        for c in ax['coords']:
            if 'nan_at' in c:
                vals = np.array(c['values'], dtype='f8')
                vals[c['nan_at']] = np.nan
                v = ds[c['name']]
                if c['name'] == ax['dim']:
                    continue      # a NaN in an index is not a dataset xarray builds consistently
                ds[c['name']] = (v.dims, vals, v.attrs, v.encoding)
                if c.get('as', 'coord') == 'coord':
                    ds = ds.set_coords(c['name'])
                changed = True
            if c.get('extra', {}).get('bounds'):
                ds[c['name']].attrs['bounds'] = c['extra']['bounds']
                changed = True
    if changed:
        db.ds = ds
        db.sizes, db.mvars = D.model_view(ds)
    return db


def trivial(db, names, pd, dts) -> bool:
    """nothing requested, or everything requested already holds"""
    if pd is None and dts is None:
        return True
    coords = {c['name']: c for ax in db.recipe['depth']['axes'] for c in ax['coords']}
    for n in names:
        c = coords.get(n)
        if c is None:
            return False
        s = D.coord_sign_down(c)
        if pd is not None and s != pd:
            return False
        ph = D.physical_depths(c)
        if dts is not None and len(ph) > 1 and (ph[0] > ph[1]) != dts:
            return False
    return True


def run(ctx) -> None:
    rng = ctx.rng
    items = []

    def one_dataset(db, names, stream: str, cfg_key, vias, valid: bool, opts=OPTS, hyp=True):
        recipe = db.recipe
        snap_in = snapshot(db.ds)
        if valid and hyp:
            # do the hypotheses of the theorems (Ems.Depth.Valid) hold for this input?  They must, except
            # for coordinates sharing a dimension, which only the correspondence and the oracle cover
            shared = any(len(ax['coords']) > 1 for ax in recipe['depth']['axes'])
            line = f"hyp {D.dataset_str(db.sizes, db.mvars)} {','.join(names) or '-'}"
            items.append((line, '0' if shared else '1', {'recipe': recipe, 'names': list(names), 'stream': stream,
                                                         'op': line, 'opt': 'NN', 'via': 'function'}))
            ctx.count('theorem hypotheses hold' if not shared else 'theorem hypotheses do not hold (shared dimension)')

        def case(pd, dts, via):
            o = opt_str(pd, dts)
            line = norm_line(db, names, [o, o])
            desc = {'recipe': recipe, 'names': list(names), 'opt': o, 'via': via, 'stream': stream, 'op': line}
            out1, out2, impl, err, mutated = impl_two_pass(db, names, pd, dts, via)
            items.append((line, impl, desc))
            ctx.count(f'{stream}:{db.conv}')
            ctx.count('via:' + via)
            ctx.count('result:' + ('ERR' if impl == 'ERR' else 'OK'))
            if mutated:
                ctx.oracle_fail('input-mutated', desc, mutated)
            if valid:
                ctx.evaluated()
                oracle(ctx, db, names, pd, dts, out1, out2, snap_in, snapshot(db.ds), desc)
                if not trivial(db, names, pd, dts):
                    ctx.nontrivial((db.conv, cfg_key, o, stream))
            else:
                d = snap_diff(snap_in, snapshot(db.ds))
                if d:
                    ctx.oracle_fail('input-mutated', desc, f'the input dataset changed: {d}')
                ctx.nontrivial((db.conv, cfg_key, o, stream))

        for (pd, dts) in opts:
            for via in vias:
                ctx.guarded(lambda: case(pd, dts, via),
                            {'recipe': recipe, 'names': list(names), 'opt': opt_str(pd, dts), 'via': via,
                             'stream': stream, 'op': 'norm'})

    def chains(db, names, stream, via, pool, n_chains):
        """sequences of different requests, each applied to the result of the one before, all through one entry
        point.  The property fixes the outcome: every aspect ends as the last request that set it left it, every
        value still at its physical depth -- which is what the single merged request gives (that call is itself
        under the oracle above); the model is sent the same sequence."""
        recipe = db.recipe

        def case(opts):
            os_ = [opt_str(*o) for o in opts]
            line = norm_line(db, names, os_)
            desc = {'recipe': recipe, 'names': list(names), 'opts': os_, 'via': via, 'stream': stream, 'op': line}
            snap_in = snapshot(db.ds)
            outs, impl, err, mutated = impl_chain(db, names, opts, via)
            items.append((line, impl, desc))
            ctx.count(f'{stream}:{db.conv}')
            ctx.count('via:' + via)
            ctx.evaluated()
            chain_oracle(ctx, db, names, opts, outs, err, mutated, snap_in, snapshot(db.ds), desc)
            if len(set(os_)) > 1 and not trivial(db, names, *merged_options(opts)):
                ctx.nontrivial((db.conv, 'chain', tuple(os_), via, stream))

        for _ in range(n_chains):
            opts = [rng.choice(pool) for _ in range(rng.choice([2, 2, 3]))]
            ctx.guarded(lambda: case(opts), {'recipe': recipe, 'names': list(names), 'via': via, 'stream': stream,
                                            'opts': [opt_str(*o) for o in opts], 'op': 'norm'})

    def discovery_checks(db, stream):
        box = []
        ctx.guarded(lambda: box.append(_discovery_checks(db, stream)),
                    {'recipe': db.recipe, 'stream': stream, 'op': 'discovery'})
        return box[0] if box else None

    def _discovery_checks(db, stream):
        c = db.convention()
        desc = {'recipe': db.recipe, 'stream': stream, 'op': 'discovery'}
        try:
            got = [str(x.name) for x in c.depth_coordinates]
            impl = ','.join(got) or '-'
        except Exception:
            got, impl = None, 'ERR'
        line = D.disc_line(db)
        items.append((line, impl, dict(desc, op=line)))
        want = D.discovery(db)
        ctx.evaluated()
        if got is None or set(got) != set(want):
            # a depth coordinate that is not found is not normalised (the order alone is left to the correspondence)
            ctx.oracle_fail('discovery', desc, f'depth_coordinates = {got}, the dataset was built with {want}')
        if got is not None:
            with warnings.catch_warnings():
                warnings.simplefilter('ignore')
                try:
                    if [str(n) for n in c.get_all_depth_names()] != got:
                        ctx.oracle_fail('discovery', desc, 'get_all_depth_names() differs from depth_coordinates')
                except Exception as e:  # noqa
                    ctx.oracle_fail('discovery', desc, f'get_all_depth_names() raised {e}')
                try:
                    one = str(c.depth_coordinate.name)
                    dep = str(c.get_depth_name())
                except Exception:
                    one = dep = 'ERR'
            if one != dep:
                ctx.oracle_fail('discovery', desc, f'get_depth_name() = {dep}, depth_coordinate = {one}')
            if db.conv in ('shoc_standard', 'shoc_simple'):
                fixed = 'z_centre' if db.conv == 'shoc_standard' else 'zc'
                exp = fixed if fixed in db.ds.variables else 'ERR'
                if one != exp:
                    ctx.oracle_fail('discovery', desc, f'depth_coordinate = {one}, expected {exp}')
            elif got:
                sized = ','.join(f'{n}={int(db.ds[n].size)}' for n in got)
                items.append((f'small {sized}', one, dict(desc, op=f'small {sized}')))
            # get_depth_coordinate_for_data_array on a few data variables
            cs = ','.join(f"{n}:{'+'.join(map(str, db.ds[n].dims)) or '-'}" for n in got) or '-'
            names = [str(n) for n in db.ds.data_vars]
            for vn in names[:6]:
                try:
                    impl = str(c.get_depth_coordinate_for_data_array(vn).name)
                except Exception:
                    impl = 'ERR'
                line = f"coordfor {cs} {'+'.join(map(str, db.ds[vn].dims)) or '-'}"
                items.append((line, impl, dict(desc, op=line, var=vn)))
        return got

    # (a) systematic block
    cfgs = list(systematic_configs())
    reps = 1 if not ctx.thorough else 3
    k = rng.randrange(5)
    j = rng.randrange(len(VIA_CYCLE))
    for rep in range(reps * ctx.mult):
        for cfg in cfgs:
            conv = D.CONVS[k % 5]
            k += 1
            j += 1
            recipe = systematic_recipe(rng, conv, cfg)
            db = D.build(recipe)
            names = D.discovery(db)
            got = discovery_checks(db, 'systematic')
            via = [pick_via(j, got == names)]
            one_dataset(db, names, 'systematic', tuple(sorted((a, str(b)) for a, b in cfg.items())), via, True)
    ctx.exhaustive = True   # the 72 x 9 configuration product of (a) is enumerated completely

    # (b) random datasets with several coordinates
    for i in range(ctx.budget(40, 400)):
        conv = D.CONVS[i % 5]
        shared = (i % 4 == 3)
        recipe = D.random_dataset(rng, conv, positions=rng.choice(['all', 'shuffled-all', 'random']),
                                  kinds_per_axis=rng.choice([1, 2]), shared_dim=shared)
        db = D.build(recipe)
        names = D.discovery(db)
        got = discovery_checks(db, 'random')
        key = ('multi', len(names), shared)
        names0 = names
        vias = [pick_via(j + i, got == names)]
        if vias[0] in FUNCTION_VIAS and rng.random() < 0.5:
            names = list(names)
            rng.shuffle(names)
        one_dataset(db, names, 'random', key, vias, True)
        chains(db, names0, 'chain', pick_via(j + i + 3, got == names0), OPTS, 3)
        if not shared:
            # the decidable conclusions of normalize_succeeds / normalize_idempotent on the model itself
            for (pd, dts) in OPTS:
                pc = f"propcheck {D.dataset_str(db.sizes, db.mvars)} {','.join(names) or '-'} {opt_str(pd, dts)}"
                items.append((pc, 's1 i1', {'recipe': recipe, 'names': list(names), 'opt': opt_str(pd, dts),
                                            'via': 'function', 'stream': 'random', 'op': pc}))

    # (c) malformed stream: model against code only
    for i in range(ctx.budget(40, 400)):
        conv = D.CONVS[i % 5]
        recipe, names, label = malformed_recipe(rng, conv)
        try:
            db = build_malformed(recipe)
        except Exception:
            ctx.count('malformed:unbuildable')
            continue
        if not all(D.safe_token(m.positive) and D.safe_token(m.bounds) for m in db.mvars):
            continue
        disc = discovery_checks(db, 'malformed') if names is None else None
        if names is None:
            names = disc if disc is not None else D.discovery(db)
        opts = rng.sample(OPTS, 4)
        one_dataset(db, names, 'malformed:' + label, label, ['function'], False, opts=opts)

    # (d) one-level depth coordinates: the sign-only option pairs are inside the property (oracle + model),
    # the pairs that request an ordering are compared with the model only (both refuse)
    def one_level_dataset(db, names, stream, key, vias):
        # the theorems about >= 2 levels do not speak about this input (`hyp` = 0); the sign-only theorems
        # (Ems.Depth.ValidSign: any number of levels) do, unless two coordinates share a dimension
        shared = any(len(ax['coords']) > 1 for ax in db.recipe['depth']['axes'])
        for op, want in (('hyp', '0'), ('hypsign', '0' if shared else '1')):
            line = f"{op} {D.dataset_str(db.sizes, db.mvars)} {','.join(names) or '-'}"
            items.append((line, want, {'recipe': db.recipe, 'names': list(names), 'stream': stream,
                                       'op': line, 'opt': 'NN', 'via': 'function'}))
        ctx.count('sign-only theorem hypotheses hold' if not shared
                  else 'sign-only theorem hypotheses do not hold (shared dimension)')
        one_dataset(db, names, stream, key, vias, True, opts=SIGN_OPTS, hyp=False)
        one_dataset(db, names, 'malformed:' + stream + '-ordering', key, ['function'], False,
                    opts=rng.sample(ORDER_OPTS, 2))

    k = rng.randrange(5)
    for rep in range(reps * ctx.mult):
        for cfg in single_level_configs():
            conv = D.CONVS[k % 5]
            k += 1
            recipe = systematic_recipe(rng, conv, cfg, levels=(1,))
            db = D.build(recipe)
            names = D.discovery(db)
            got = discovery_checks(db, 'one-level')
            j += 1
            via = [pick_via(j, got == names)]
            key = tuple(sorted((a, str(b)) for a, b in cfg.items()))
            one_level_dataset(db, names, 'one-level', key, via)
    for i in range(ctx.budget(20, 200)):
        conv = D.CONVS[i % 5]
        shared = (i % 4 == 3)
        recipe = mixed_levels_recipe(rng, conv, shared)
        db = D.build(recipe)
        names = D.discovery(db)
        got = discovery_checks(db, 'one-level-mixed')
        vias = [pick_via(j + i, got == names)]
        if vias[0] in FUNCTION_VIAS and rng.random() < 0.5:
            names = list(names)
            rng.shuffle(names)
        levels = tuple(sorted(ax['n'] for ax in recipe['depth']['axes']))
        one_level_dataset(db, names, 'one-level-mixed', ('mixed', levels, shared), vias)
        chains(db, names, 'chain-one-level', vias[0], SIGN_OPTS, 2)

    # ---- B1 begin: cross-check of the source translator (harness/trans_depth.py -> Gen.depthNormalizeBody) ------
    # a sample of the `norm` lines above is also run through the loop body GENERATED from the source text of
    # normalize_depth_variables (driver op `srcnorm`: the interpreter of Core/DepthSrc.lean) against the same real output
    src_items = [('src' + line, impl, dict(desc, op='src' + line, stream='src:' + str(desc.get('stream', ''))))
                 for (line, impl, desc) in items if line.startswith('norm ')]
    items += src_items[::max(1, len(src_items) // 400)]
    # ---- B1 end ---------------------------------------------------------------------------------------------

    if ctx.searching and ctx.driver is None:
        ctx.evaluated(len(items))
        return
    ctx.check_batch(items)


def replay(ctx, data) -> int:
    return util.generic_replay(ctx, data, run_one)


def run_one(ctx, inp: dict) -> dict:
    stream = inp.get('stream', '')
    if stream.startswith('src:'):          # B1: a line of the source-translator cross-check replays as its `norm` twin
        stream = stream[4:]
        inp = dict(inp, stream=stream)
    db = build_malformed(inp['recipe']) if stream.startswith('malformed') else D.build(inp['recipe'])
    out = {}
    op = inp.get('op', '')
    if op.startswith('disc') or op.startswith('small') or op.startswith('coordfor') or op == 'discovery':
        c = db.convention()
        try:
            out['impl'] = ','.join(str(x.name) for x in c.depth_coordinates) or '-'
            if op.startswith('small'):
                out['impl'] = str(c.depth_coordinate.name)
            if op.startswith('coordfor'):
                out['impl'] = str(c.get_depth_coordinate_for_data_array(inp['var']).name)
        except Exception as e:  # noqa
            out['impl'] = f'ERR ({type(e).__name__}: {e})'
        if ctx.driver and op != 'discovery':
            out['model'] = ctx.model([op])[0]
        return out
    names = inp['names']
    snap_in = snapshot(db.ds)

    class Rec:
        known = []

        def __init__(self):
            self.fails = []

        def oracle_fail(self, sig, desc, msg):
            self.fails.append(f'{sig}: {msg}')
    if 'opts' in inp:
        opts = [parse_opt(o) for o in inp['opts']]
        outs, impl, err, mutated = impl_chain(db, names, opts, inp.get('via', 'function'))
        out['impl'] = impl if err is None else f'ERR ({err})'
        if ctx.driver:
            out['model'] = ctx.model([norm_line(db, names, inp['opts'])])[0]
            if out['impl'].startswith('ERR') and out['model'] == 'ERR':
                out['impl'] = 'ERR'
        rec = Rec()
        chain_oracle(rec, db, names, opts, outs, err, mutated, snap_in, snapshot(db.ds), {})
        out['oracle'] = rec.fails or 'property holds on this input'
        return out
    pd, dts = parse_opt(inp['opt'])
    out1, out2, impl, err, mutated = impl_two_pass(db, names, pd, dts, inp.get('via', 'function'))
    out['impl'] = impl if err is None else f'ERR ({err})'
    if ctx.driver:
        out['model'] = ctx.model([norm_line(db, names, [inp['opt'], inp['opt']])])[0]
        if out['impl'].startswith('ERR') and out['model'] == 'ERR':
            out['impl'] = 'ERR'
    if not stream.startswith('malformed'):
        rec = Rec()
        if mutated:
            rec.oracle_fail('input-mutated', {}, mutated)
        oracle(rec, db, names, pd, dts, out1, out2, snap_in, snapshot(db.ds), {})
        out['oracle'] = rec.fails or 'property holds on this input'
    return out
