"""C19 — plot artists pair every value with its own cell."""
from __future__ import annotations

from fractions import Fraction

import matplotlib
matplotlib.use('Agg')
import numpy as np
import xarray as xr

from harness import util
from harness.gen import datasets as G
from harness.gen import geomspec as S

ID = 'C19'
MODULE = 'EmsModel.Props.C19'
DRIVER = 'C19'
REQUIRED = ['Ems.C19.collection_pairs', 'Ems.C19.collection_at', 'Ems.C19.collection_lengths', 'Ems.C19.clim_spec',
            'Ems.C19.clim_none_iff', 'Ems.C19.overrides_spec', 'Ems.C19.quiver_spec']
RULE = ('datasets of every convention with and without holes / invalid cells, tagged face variables with missing values: '
        'make_poly_collection by name and as (possibly transposed) DataArray, with no data, with leftover dimensions, with '
        'array= / clim= / transform= overrides; make_quiver with u, v by name or arrays (and without values). Agg backend. '
        'Compared: path vertices, get_array, get_clim of the real PolyCollection; X, Y, U, V of the real Quiver. '
        'Non-trivial: dataset with a cell without polygon before a cell with one, or an override; distinct by (recipe, call).')
TRUSTED = ['matplotlib PolyCollection / Quiver store what they are given (rendering is matplotlib\'s)']
ASSUMPTIONS = ['UGRID face centres without stored face coordinates are GEOS centroids: the quiver positions are then compared only for the cells whose centre is stored']


def vals_str(a) -> str:
    a = np.ma.filled(np.ma.asarray(a, dtype='f8'), np.nan).reshape(-1)
    return ','.join('-' if np.isnan(v) else util.rat_str(Fraction(float(v))) for v in a) or '(empty)'


def examine(ctx, recipe, items) -> None:
    from matplotlib.figure import Figure
    rng = ctx.rng
    built = G.build(recipe)
    c = G.bind(built)
    ds = built.ds
    raw = built.polys
    vbits = S.geos_valid_bits(raw)
    kept = [q if (q is not None and vbits[n] == '1') else None for n, q in enumerate(raw)]
    rings = S.rings_str(kept)
    desc = {'recipe': recipe}
    face_vars = [n for n, i in built.vars.items() if i.kind == 'face']
    gd = built.grids['face'][0]
    hole_before = any(q is None for q in kept[:-1])

    def run_collection(label, data, model_vals, **kw):
        arr = '1' if 'array' in kw else '0'
        clim = kw.get('clim')
        line = f"collection {rings} {model_vals} {arr} {'-' if clim is None else f'{clim[0]},{clim[1]}'}"
        try:
            pc = c.make_poly_collection(data, **kw)
            paths = '|'.join(S.ring_str([(Fraction(float(x)), Fraction(float(y))) for x, y in p.vertices]) for p in pc.get_paths()) or '(none)'
            a = pc.get_array()
            cl = pc.get_clim()
            if a is None:
                astr = '-'
            else:
                astr = vals_str(a)
            if cl is None or cl[0] is None or (isinstance(cl[0], float) and np.isnan(cl[0])):
                cstr = '-'
            else:
                cstr = f'{util.rat_str(Fraction(float(cl[0])))},{util.rat_str(Fraction(float(cl[1])))}'
            out = f'P={paths} A={astr} C={cstr}'
        except TypeError:
            pc, out = None, 'TypeError'
        except ValueError:
            pc, out = None, 'ValueError'
        items.append((line, out, {**desc, 'op': line, 'call': label}))
        if hole_before or kw:
            ctx.nontrivial((str(recipe), label))
        ctx.count(f'collection:{label}')
        return pc

    # no data: outlines only
    run_collection('no-data', None, 'none')
    for name in face_vars[:2]:
        da = ds[name]
        extra = [d for d in da.dims if d not in gd]
        if extra:
            run_collection('extra-dims', name, 'extra')
            da = da.isel({d: 0 for d in extra})
        flat = np.asarray(da.transpose(*gd).values, dtype='f8').reshape(-1)
        mv = ','.join('-' if np.isnan(v) else str(int(v)) for v in flat)
        if extra:
            pc = run_collection('array-arg', da, mv)
        else:
            pc = run_collection('by-name', name, mv)
            run_collection('transposed-array', da.transpose(*gd[::-1]) if len(gd) == 2 else da, mv)
            run_collection('with-clim', name, mv, clim=(0, 1))
            run_collection('with-array', name, mv, array=np.zeros(3))
        # ---- direct oracle on the default call ------------------------------------------------
        if pc is not None:
            paths = [[(Fraction(float(x)), Fraction(float(y))) for x, y in p.vertices] for p in pc.get_paths()]
            arr = np.ma.filled(np.ma.asarray(pc.get_array(), dtype='f8'), np.nan)
            want = [(util.expected_ring(q), flat[n]) for n, q in enumerate(kept) if q is not None]
            if len(paths) != len(want) or len(arr) != len(want):
                ctx.oracle_fail('collection-size', {**desc, 'var': name}, f'{len(paths)} patches / {len(arr)} values for {len(want)} cells with geometry')
            else:
                for k, ((ring, val), p) in enumerate(zip(want, paths)):
                    pr = p[:-1] if len(p) > 1 and p[0] == p[-1] else p
                    if pr != ring or not (val == arr[k] or (np.isnan(val) and np.isnan(arr[k]))):
                        ctx.oracle_fail('patch-value-not-of-its-cell', {**desc, 'var': name, 'patch': k},
                                        f'patch {k}: outline {S.ring_str(pr)} value {arr[k]}; its cell has outline {S.ring_str(ring)} value {val}')
                        break
                present = [v for _, v in want if not np.isnan(v)]
                if present:
                    cl = pc.get_clim()
                    if (cl[0], cl[1]) != (min(present), max(present)):
                        ctx.oracle_fail('clim-not-plotted-range', {**desc, 'var': name}, f'clim {cl}, plotted values span {(min(present), max(present))}')
    # ---- quiver ---------------------------------------------------------------------------------------
    if len(face_vars) >= 1:
        plain = [n for n in face_vars if len(built.vars[n].dims) == len(gd)]
        if plain:
            un = plain[0]
            vn = plain[-1]
            fig = Figure()
            ax = fig.add_subplot()
            u = ds[un]
            v = ds[vn]
            if u.dims != v.dims:
                try:
                    c.make_quiver(ax, un, vn, transform=ax.transData)
                    ctx.oracle_fail('quiver-mismatched-dims-accepted', desc, 'make_quiver accepted u, v with different dimension order')
                except ValueError:
                    pass
                v = v.transpose(*u.dims)
            try:
                q = c.make_quiver(ax, u, v, transform=ax.transData)
            except Exception as e:
                ctx.oracle_fail('quiver-raises', desc, f'make_quiver(transform=ax.transData) raised {type(e).__name__}: {str(e)[:150]}')
                return
            # the arrows sit at the face centres *in the coordinate system the caller named*
            probe = np.array([[0.0, 0.0], [1.0, 2.0], [-3.0, 5.0]])
            try:
                placed = q.get_offset_transform().transform(probe)
                same = np.array_equal(placed, ax.transData.transform(probe))
            except Exception:
                same = False
            ctx.evaluated()
            if not same:
                ctx.oracle_fail('quiver-transform-not-the-one-given', desc, 'make_quiver(transform=T) places its arrows with another transform than T')
            X, Y = np.asarray(q.X, dtype='f8'), np.asarray(q.Y, dtype='f8')
            # matplotlib stores U, V filled with 1 plus ONE combined mask: an arrow with a missing
            # component is not drawn at all
            qmask = np.broadcast_to(np.ma.getmaskarray(np.ma.masked_array(q.U, mask=q.Umask)), np.shape(q.U))
            U = np.where(qmask, np.nan, np.asarray(q.U, dtype='f8'))
            V = np.where(qmask, np.nan, np.asarray(q.V, dtype='f8'))
            uf = np.asarray(u.transpose(*gd).values, dtype='f8').reshape(-1)
            vf = np.asarray(v.transpose(*gd).values, dtype='f8').reshape(-1)
            either = np.isnan(uf) | np.isnan(vf)
            uf = np.where(either, np.nan, uf)
            vf = np.where(either, np.nan, vf)
            cents = [built.centres[n] for n in range(len(raw))]
            known = [n for n in range(len(raw)) if cents[n] is not None or kept[n] is None or built.conv != 'ugrid']

            def cstr(n, x, y):
                if built.conv == 'ugrid' and cents[n] is None:
                    return '?,?'
                return f"{'-' if np.isnan(x) else util.rat_str(Fraction(float(x)))},{'-' if np.isnan(y) else util.rat_str(Fraction(float(y)))}"
            out = ';'.join(f"{cstr(n, X[n], Y[n])},{'-' if np.isnan(U[n]) else util.rat_str(Fraction(float(U[n])))},{'-' if np.isnan(V[n]) else util.rat_str(Fraction(float(V[n])))}"
                           for n in range(len(X)))
            mc = ';'.join('?,?' if (built.conv == 'ugrid' and cents[n] is None) else
                          ('-,-' if cents[n] is None else f'{util.rat_str(cents[n][0])},{util.rat_str(cents[n][1])}') for n in range(len(raw)))
            line = (f"quiver {mc} {','.join('-' if np.isnan(a) else str(int(a)) for a in uf)} "
                    f"{','.join('-' if np.isnan(a) else str(int(a)) for a in vf)}")
            items.append((line, out, {**desc, 'op': line, 'call': 'quiver'}))
            ctx.nontrivial((str(recipe), 'quiver'))
            if len(X) != len(raw):
                ctx.oracle_fail('quiver-size', desc, f'{len(X)} arrows for {len(raw)} cells')
            else:
                for n in range(len(raw)):
                    okv = (U[n] == uf[n] or (np.isnan(U[n]) and np.isnan(uf[n]))) and (V[n] == vf[n] or (np.isnan(V[n]) and np.isnan(vf[n])))
                    okc = cents[n] is None or (not np.isnan(X[n]) and (Fraction(float(X[n])), Fraction(float(Y[n]))) == tuple(cents[n]))
                    if not okv or not okc:
                        ctx.oracle_fail('arrow-not-of-its-cell', {**desc, 'cell': n}, f'arrow {n}: at ({X[n]}, {Y[n]}) with ({U[n]}, {V[n]}); cell {n} has centre {cents[n]} and ({uf[n]}, {vf[n]})')
                        break


def history_case(ctx, recipe) -> None:
    """the default colour limits span the plotted values whatever was drawn earlier in the process:
    plot `a`; animate `t` over time (another figure); plot `a` again"""
    import pandas as pd
    import xarray as xr
    from matplotlib.collections import PolyCollection
    from matplotlib.figure import Figure
    built = G.build(recipe)
    ds = built.ds.assign_coords(time=xr.DataArray(pd.date_range('2001-01-01', periods=built.ds.sizes['time']).values, dims=['time']))
    built.ds = ds
    c = G.bind(built)
    desc = {'recipe': recipe, 'history': ['plot a', 'animate t over time', 'plot a']}
    flat = np.asarray(c.ravel(ds['a']).values, dtype='f8')[np.asarray(c.mask)]
    if flat.size == 0 or np.isnan(flat).all():
        return
    want = (float(np.nanmin(flat)), float(np.nanmax(flat)))

    seen: list = []

    def plot_a(label):
        fig = Figure()
        c.plot_on_figure(fig, scalar=ds['a'], coast=False, gridlines=False)
        pcs = [a for ax in fig.axes for a in ax.collections if isinstance(a, PolyCollection)]
        ctx.evaluated()
        if len(pcs) != 1:
            ctx.oracle_fail('plot-on-figure-collections', desc, f'{label}: {len(pcs)} polygon collections on the figure')
            return
        clim = tuple(float(v) for v in pcs[0].get_clim())
        seen.append(clim)
        if seen[0] != clim:
            ctx.oracle_fail('default-clim-depends-on-history', {**desc, 'at': label},
                            f'{label}: default colour limits {clim}, the same plot gave {seen[0]} before')
        # (a single plotted value: matplotlib's colour bar widens the degenerate range itself)
        elif clim != want and want[0] != want[1]:
            ctx.oracle_fail('default-clim-depends-on-history', {**desc, 'at': label},
                            f'{label}: default colour limits {clim}, the plotted values span {want}')
    plot_a('first plot')
    c.animate_on_figure(Figure(), coordinate=ds['time'], scalar=ds['t'], coast=False, gridlines=False)
    plot_a('plot after an animation of another variable')
    ctx.count('history:plot-animate-plot')
    ctx.nontrivial((str(recipe), 'history'))


def make_recipe(ctx, k):
    rng = ctx.rng
    conv = G.CONVS[k % len(G.CONVS)]
    kw = {'max_w': 3, 'max_h': 2, 'coords_as': 'vars', 'face_coords': rng.choice([None, 'vars'])} if conv == 'ugrid' else {'max_n': 4}
    if conv in ('cf2d', 'shoc_simple'):
        kw['twist'] = True
    recipe = G.random_recipe(rng, conv, ctx.tier, **kw)
    if rng.random() < 0.3:
        # coordinates in large units (projected metres, or cells wider than half a turn of longitude): a patch is the
        # cell's outline whatever its extent
        if conv == 'cf1d':
            recipe['lon'] = [v * 100 for v in recipe['lon']]
        elif conv in ('cf2d', 'shoc_simple'):
            recipe['scale'] = recipe.get('scale', 1) * 60
        elif conv == 'ugrid':
            recipe['nodes'] = [[x * 100, y * 100] for x, y in recipe['nodes']]
    probe = G.build(recipe)
    # face variables only, one of them with an extra dimension
    vars_ = [{'name': 'a', 'kind': 'face', 'extra': [], 'base': 1000, 'dtype': 'f8'},
             {'name': 'b', 'kind': 'face', 'extra': [], 'base': 5000, 'dtype': 'f8'},
             {'name': 't', 'kind': 'face', 'extra': ['time'], 'base': 9000, 'dtype': 'f8'}]
    G.finalize_var_orders(rng, vars_, probe.grids, permute=True, with_nan=True)
    recipe = dict(recipe)
    recipe['vars'] = vars_
    recipe['sizes_extra'] = {'time': 2}
    return recipe


def run(ctx) -> None:
    items: list = []
    for k in range(ctx.budget(40, 400)):
        recipe = make_recipe(ctx, k)
        ctx.guarded(lambda: examine(ctx, recipe, items), {'recipe': recipe})
        if k % 5 == 4:
            ctx.guarded(lambda: history_case(ctx, recipe), {'recipe': recipe, 'history': True})
    if ctx.searching and ctx.driver is None:
        ctx.evaluated(len(items))
        return
    ctx.check_batch(items)


def run_one(ctx, inp):
    out = {}
    if inp.get('op') and ctx.driver:
        out['model'] = ctx.model([inp['op']])[0]
    items: list = []
    sub = type(ctx)(ctx.prop, ctx.tier, ctx.seed)
    sub.known = []
    examine(sub, inp['recipe'], items)
    for line, impl, d in items:
        if line == inp.get('op'):
            out['impl'] = impl
    if sub.oracle_failures:
        out['oracle'] = '; '.join(f"{f['signature']}: {f['message'][:200]}" for f in sub.oracle_failures[:3])
    return out


def replay(ctx, data) -> int:
    return util.generic_replay(ctx, data, run_one)
