"""C19 — plot artists pair every value with its own cell."""
from __future__ import annotations

import random
from fractions import Fraction

import matplotlib
matplotlib.use('Agg')
import numpy as np
import xarray as xr

from harness import util
from harness.gen import datasets as G
from harness.gen import geomspec as S
from harness.gen import c19_extra6 as X6          # [strengthen-6] attributes on the variables; histories of artists

ID = 'C19'
MODULE = 'EmsModel.Props.C19'
DRIVER = 'C19'
REQUIRED = ['Ems.C19.collection_pairs', 'Ems.C19.collection_at', 'Ems.C19.collection_lengths', 'Ems.C19.clim_spec',
            'Ems.C19.clim_none_iff', 'Ems.C19.overrides_spec', 'Ems.C19.quiver_spec']
EXTRA_MODULES = globals().get('EXTRA_MODULES', []) + ['EmsModel.Props.C19More']   # B6 (Core/PlotRavel.lean: ravel + extra-dimension test)
REQUIRED += ['Ems.C19.extra_dims_refused', 'Ems.C19.extra_dims_never_ok', 'Ems.C19.exact_dims_plotted',
             'Ems.C19.quiver_dims_refused', 'Ems.C19.collection_holes_skip', 'Ems.C19.clim_within_values',
             'Ems.C19.collection_perm_invariant']
# [strengthen-6] histories of artists (Core/PlotHistory.lean): a call after any history hands out the fresh artist, an edit concerns one artist
EXTRA_MODULES = list(globals().get('EXTRA_MODULES', [])) + ['EmsModel.Props.C19Hist']
REQUIRED += ['Ems.C19.history_build_fresh', 'Ems.C19.history_build_last', 'Ems.C19.history_edit_local', 'Ems.C19.history_edit_at',
             'Ems.C19.history_untouched']
# [/strengthen-6]
# [B7] make_poly_collection / make_quiver / polygons_to_collection translated from the source (harness/trans_plotsrc.py -> Gen/PlotSrc.lean)
EXTRA_MODULES = list(globals().get('EXTRA_MODULES', [])) + ['EmsModel.Props.C19Src']
REQUIRED += ['Ems.C19.src_poly_collection_spec', 'Ems.C19.src_quiver_spec', 'Ems.C19.src_quiver_default',
             'Ems.C19.src_collection_spec', 'Ems.C19.src_no_complaints', 'Ems.C19.src_poly_paths_and_values_share_mask']
# [/B7]
RULE = ('datasets of every convention with and without holes / invalid cells, tagged face variables with missing values: '
        'make_poly_collection by name and as (possibly transposed) DataArray, with no data, with leftover dimensions, with '
        'array= / clim= / transform= overrides, with styling keywords (edgecolor / edgecolors / cmap / linewidth / alpha ...: what '
        'the documentation and plot_on_figure pass), and through plot_on_figure itself; values of every magnitude (small integers, '
        'a narrow range on a large offset, tiny, huge, negated, one single value), each variable held in memory in one of many '
        'ways that keep every value (float64 / float32 / int16..64 where exact, native or the other byte order, C / Fortran / '
        'strided / reversed / read-only / dask-chunked); make_quiver with u, v by name or arrays '
        '(and without values). Every variable may carry metadata attributes (units, long_name, standard_name, cell_methods, and ones that '
        'name a range: actual_range / valid_range / valid_min / valid_max / colorBarMinimum / colorBarMaximum, written from the whole '
        'stored variable, from a wider nominal range, or before the values were rescaled), which xarray keeps on the slice that is plotted. '
        'Histories on one convention in which the caller uses the artists it was handed: calls (no data / by name / array / transposed / '
        'styled / clim= / plot_on_figure / a slice of the variable with a leftover dimension / make_quiver) alternate with in-place edits '
        'of an artist handed out earlier (vertices shifted or rescaled, values overwritten, set_clim); every call is judged when made, '
        'every untouched artist again at the end, and the final state of all collections goes to the model (`history` op). Agg backend. '
        'Compared: path vertices, get_array, get_clim of the real PolyCollection; X, Y, U, V of the real Quiver. '
        'Non-trivial: dataset with a cell without polygon before a cell with one, or an override / styling keyword, or the collection taken off a figure; distinct by (recipe, call).')
TRUSTED = ['matplotlib PolyCollection / Quiver store what they are given (rendering is matplotlib\'s)']
ASSUMPTIONS = ['UGRID face centres without stored face coordinates are GEOS centroids: the quiver positions are then compared only for the cells whose centre is stored']


def vals_str(a) -> str:
    a = np.ma.filled(np.ma.asarray(a, dtype='f8'), np.nan).reshape(-1)
    return ','.join('-' if np.isnan(v) else util.rat_str(Fraction(float(v))) for v in a) or '(empty)'


def rat(v) -> str:
    return '-' if np.isnan(v) else util.rat_str(Fraction(float(v)))


# styling keywords a caller hands to make_poly_collection (they go to the PolyCollection constructor): none of them
# may change which cells get a patch, nor the values. The first is what the documentation and plot_on_figure use.
STYLES = [
    {'cmap': 'jet', 'edgecolor': 'face'},
    {'edgecolor': 'face'},
    {'edgecolors': 'face'},
    {'edgecolor': 'black', 'linewidth': 0.5},
    {'facecolor': 'none', 'edgecolor': 'grey'},
    {'cmap': 'viridis', 'alpha': 0.5},
    {'linewidths': 0, 'zorder': 2},
    {'cmap': 'jet', 'edgecolor': 'face', 'linewidth': 0.25, 'antialiased': False},
]


def random_value_map(rng):
    """how the tagged values `base + n` of one variable are rescaled: v -> off + sign * v * 2**exp (exact in float64),
    or one single value everywhere. None = the small integers themselves."""
    x = rng.random()
    if x < 0.35:
        return None
    if x < 0.55:       # a narrow range on a large offset (pressure in Pa, salinity ...)
        return {'off': 2 ** rng.choice([10, 16, 20, 24]), 'exp': rng.choice([-4, -8, -12]), 'neg': False}
    if x < 0.70:       # everything tiny (a tracer concentration)
        return {'off': 0, 'exp': rng.choice([-30, -40, -50]), 'neg': rng.random() < 0.3}
    if x < 0.80:       # everything huge
        return {'off': 0, 'exp': rng.choice([20, 40]), 'neg': rng.random() < 0.3}
    if x < 0.92:       # negative values, the order reversed
        return {'off': rng.choice([0, 1020]), 'exp': 0, 'neg': True}
    return {'const': True}


# how the values of one variable are HELD in memory. None of it changes a single value (every form is used only when it
# holds each value exactly), so none of it may change what a patch or an arrow is given.
HELD_DTYPES = ['f8', 'f8', 'f4', 'f4', 'i4', 'i2', 'i8']
HELD_LAYOUTS = [None, None, None, 'F', 'strided', 'reversed', 'readonly', 'dask']


def random_held(rng):
    """dtype (float64, or narrower / integer where every value is exact in it), byte order (native, or the other one:
    what classic netCDF readers, `numpy.fromfile(dtype='>f4')` and `.astype('>f8')` hand out), memory layout
    (C, Fortran, a strided or reversed view of a larger buffer, read-only, dask chunks of one element)"""
    if rng.random() < 0.3:
        return None
    return {'dtype': rng.choice(HELD_DTYPES), 'swap': rng.random() < 0.5, 'layout': rng.choice(HELD_LAYOUTS)}


def hold(values, held):
    """`values` (float64, NaN = missing) in the representation `held` asks for; the dtype falls back to float64
    when a value would not survive it. Returns the array and (for dask) the chunk size."""
    a = np.ascontiguousarray(np.asarray(values, dtype='f8'))
    dt = held.get('dtype') or 'f8'
    if dt != 'f8':
        if dt[0] in 'iu' and np.isnan(a).any():
            dt = 'f8'
        else:
            with np.errstate(all='ignore'):
                b = a.astype(dt)
            if not np.array_equal(b.astype('f8'), a, equal_nan=True):
                dt = 'f8'
    a = a.astype(dt)
    if held.get('swap') and a.dtype.itemsize > 1:
        a = a.astype(a.dtype.newbyteorder('S'))          # converted by value to the non-native byte order
    layout = held.get('layout')
    if layout == 'F':
        a = np.asfortranarray(a)
    elif layout == 'strided' and a.ndim:
        big = np.zeros(a.shape[:-1] + (2 * a.shape[-1] + 1,), dtype=a.dtype)
        big[..., 1::2] = a
        a = big[..., 1::2]
    elif layout == 'reversed' and a.ndim:
        big = np.ascontiguousarray(a[..., ::-1])
        a = big[..., ::-1]
    elif layout == 'readonly':
        a.setflags(write=False)
    if not np.array_equal(np.asarray(a, dtype='f8'), np.asarray(values, dtype='f8'), equal_nan=True):
        raise AssertionError(f'generator: {held} does not hold the values it was given')
    return a


def build(recipe):
    """G.build, then the value maps of recipe['c19'] applied to the data variables (missing values stay missing),
    then each variable put into the representation recipe['c19']['held'] names (same values, held differently)"""
    built = G.build(recipe)
    maps = (recipe.get('c19') or {}).get('values') or {}
    helds = (recipe.get('c19') or {}).get('held') or {}
    border = (recipe.get('vary') or {}).get('byteorder')
    ds = built.ds
    for name in sorted(set(maps) | set(helds)):
        m, h = maps.get(name), helds.get(name)
        if (m is None and h is None) or name not in ds:
            continue
        da = ds[name]
        if m is not None:
            v = np.asarray(da.values, dtype='f8')
            if m.get('const'):
                new = np.where(np.isnan(v), np.nan, float(built.vars[name].base))
            else:
                new = float(m['off']) + (-1.0 if m['neg'] else 1.0) * v * (2.0 ** m['exp'])
            if border and h is None:
                new = new.astype(new.dtype.newbyteorder(border))
        else:
            new = da.values
        if h is not None:
            new = hold(new, h)
        nda = xr.DataArray(new, dims=da.dims, attrs=da.attrs)
        if h is not None and h.get('layout') == 'dask':
            nda = nda.chunk({d: 1 for d in da.dims})
        ds[name] = nda
    built.ds = ds
    X6.apply_attrs(built, recipe)          # [strengthen-6] metadata attributes recipe['c19']['attrs'] (no value changes)
    return built


def poly_collections(fig) -> list:
    from matplotlib.collections import PolyCollection
    return [a for ax in fig.axes for a in ax.collections if isinstance(a, PolyCollection)]


def examine(ctx, recipe, items) -> None:
    from matplotlib.figure import Figure
    built = build(recipe)
    c = G.bind(built)
    style = dict((recipe.get('c19') or {}).get('style') or STYLES[0])
    ds = built.ds
    raw = built.polys
    vbits = S.geos_valid_bits(raw)
    kept = [q if (q is not None and vbits[n] == '1') else None for n, q in enumerate(raw)]
    rings = S.rings_str(kept)
    desc = {'recipe': recipe}
    face_vars = [n for n, i in built.vars.items() if i.kind == 'face']
    gd = built.grids['face'][0]
    hole_before = any(q is None for q in kept[:-1])

    def oracle(pc, label, name, flat, clim_given, single_value_excused=False):
        """the property, stated on the real artist: one patch per cell with geometry, in linear order, with that
        cell's outline and value; default colour limits = (min, max) of the plotted values"""
        d = {**desc, 'var': name, 'call': label, 'held': held_as(name)}
        label = f'{label} [{name} held as {held_as(name)}]'
        ctx.evaluated()
        paths = [[(Fraction(float(x)), Fraction(float(y))) for x, y in p.vertices] for p in pc.get_paths()]
        got = pc.get_array()
        want = [(util.expected_ring(q), flat[n]) for n, q in enumerate(kept) if q is not None]
        if got is None:
            ctx.oracle_fail('collection-size', d, f'{label}: {len(paths)} patches and no values for {len(want)} cells with geometry')
            return
        arr = np.ma.filled(np.ma.asarray(got, dtype='f8'), np.nan).reshape(-1)
        if len(paths) != len(want) or len(arr) != len(want):
            ctx.oracle_fail('collection-size', d, f'{label}: {len(paths)} patches / {len(arr)} values for {len(want)} cells with geometry')
            return
        for k, ((ring, val), p) in enumerate(zip(want, paths)):
            pr = p[:-1] if len(p) > 1 and p[0] == p[-1] else p
            if pr != ring or not (val == arr[k] or (np.isnan(val) and np.isnan(arr[k]))):
                ctx.oracle_fail('patch-value-not-of-its-cell', {**d, 'patch': k},
                                f'{label}: patch {k}: outline {S.ring_str(pr)} value {arr[k]}; its cell has outline {S.ring_str(ring)} value {val}')
                return
        present = [v for _, v in want if not np.isnan(v)]
        if present and not clim_given:
            lo, hi = min(present), max(present)
            # (a single plotted value under a colour bar: matplotlib's Colorbar widens the degenerate range itself)
            if single_value_excused and lo == hi:
                return
            cl = pc.get_clim()
            if cl is None or (cl[0], cl[1]) != (lo, hi):
                ctx.oracle_fail('clim-not-plotted-range', d, f'{label}: colour limits {cl}, the plotted values span {(float(lo), float(hi))}')

    def held_as(name):
        h = ((recipe.get('c19') or {}).get('held') or {}).get(name) or {}
        return ds[name].dtype.str + (('/' + h['layout']) if h.get('layout') else '')

    def run_collection(label, data, model_vals, maker=None, **kw):
        arr = '1' if 'array' in kw else '0'
        clim = kw.get('clim')
        line = f"collection {rings} {model_vals} {arr} {'-' if clim is None else f'{clim[0]},{clim[1]}'}"
        try:
            pc = maker() if maker is not None else c.make_poly_collection(data, **kw)
            if pc is None:
                raise LookupError(f'{label}: no polygon collection came back')
            paths = '|'.join(S.ring_str([(Fraction(float(x)), Fraction(float(y))) for x, y in p.vertices]) for p in pc.get_paths()) or '(none)'
            a = pc.get_array()
            cl = pc.get_clim()
            if a is None:
                astr = '-'
            else:
                astr = vals_str(a)
            if cl is None or cl[0] is None or (isinstance(cl[0], float) and np.isnan(cl[0])):
                cstr = '-'
            else:
                cstr = f'{util.rat_str(Fraction(float(cl[0])))},{util.rat_str(Fraction(float(cl[1])))}'
            out = f'P={paths} A={astr} C={cstr}'
        except TypeError:
            pc, out = None, 'TypeError'
        except ValueError:
            pc, out = None, 'ValueError'
        except LookupError:
            pc, out = None, 'NoCollection'
        items.append((line, out, {**desc, 'op': line, 'call': label}))
        # [B7] the same call against the program translated from the source text (Gen/PlotSrc.lean, driver op `srccollection`)
        items.append(('src' + line, out, {**desc, 'op': 'src' + line, 'call': label + ' [generated program]'}))
        # [/B7]
        # the property's last clause, stated directly: a variable with leftover non-spatial dimensions is refused
        if model_vals == 'extra' and pc is not None:
            ctx.oracle_fail('leftover-dimensions-not-refused', {**desc, 'call': label, 'var': str(data)},
                            f'{label}: make_poly_collection accepted {data!r}, which has a leftover non-spatial dimension, '
                            f'and built a collection of {len(pc.get_paths())} patches')
        if hole_before or kw or maker is not None:
            ctx.nontrivial((str(recipe), label))
        ctx.count(f'collection:{label}')
        return pc

    def on_figure(da):
        """the collection `plot_on_figure` puts on the figure for a scalar"""
        def make():
            fig = Figure()
            c.plot_on_figure(fig, scalar=da, coast=False, gridlines=False)
            pcs = poly_collections(fig)
            if len(pcs) != 1:
                ctx.oracle_fail('plot-on-figure-collections', {**desc, 'var': da.name}, f'plot_on_figure: {len(pcs)} polygon collections on the figure')
                return None
            return pcs[0]
        return make

    # no data: outlines only
    run_collection('no-data', None, 'none')
    run_collection('no-data-styled', None, 'none', **style)
    # two plain variables and, always, the one with a leftover dimension
    for name in face_vars[:2] + [n for n in face_vars[2:] if any(d not in gd for d in ds[n].dims)][:1]:
        da = ds[name]
        ctx.count('held:' + ('native-' if da.dtype.isnative else 'swapped-') + held_as(name)[1:])
        extra = [d for d in da.dims if d not in gd]
        if extra:
            run_collection('extra-dims', name, 'extra')
            run_collection('extra-dims-styled', name, 'extra', **style)
            da = da.isel({d: 0 for d in extra})
        flat = np.asarray(da.transpose(*gd).values, dtype='f8').reshape(-1)
        mv = ','.join(rat(v) for v in flat)
        plotted = [v for n, v in enumerate(flat) if kept[n] is not None and not np.isnan(v)]
        single = len(set(plotted)) == 1
        # no plotted value at all, or one: the colour bar of plot_on_figure has no range to show and makes one up
        degenerate = any(q is not None for q in kept) and len(set(plotted)) <= 1
        ctx.count('values:' + ('none-plotted' if not plotted else 'single' if single else
                               'narrow' if max(plotted) - min(plotted) <= max(1e-6, 1e-4 * max(abs(min(plotted)), abs(max(plotted)))) else 'spread'))
        if any(kept[n] is not None and np.isnan(v) for n, v in enumerate(flat)):
            ctx.count('values:missing-in-a-cell-with-geometry')
        calls = []
        if extra:
            calls.append(('array-arg', run_collection('array-arg', da, mv), False, False))
        else:
            calls.append(('by-name', run_collection('by-name', name, mv), False, False))
            calls.append(('transposed-array', run_collection('transposed-array', da.transpose(*gd[::-1]) if len(gd) == 2 else da, mv), False, False))
            calls.append(('with-clim', run_collection('with-clim', name, mv, clim=(0, 1)), True, False))
            run_collection('with-array', name, mv, array=np.zeros(3))
        calls.append(('styled', run_collection('styled', da, mv, **style), False, False))
        calls.append(('styled-with-clim', run_collection('styled-with-clim', da, mv, clim=(0, 1), **style), True, False))
        # through plot_on_figure (which styles the collection itself and hangs a colour bar on it); without two
        # different plotted values matplotlib's colour bar widens the limits itself, so they are then left out of the comparison
        if degenerate:
            fpc = on_figure(da)()
            ctx.count('collection:plot-on-figure')
        else:
            fpc = run_collection('plot-on-figure', da, mv, maker=on_figure(da))
        calls.append(('plot-on-figure', fpc, False, True))
        # ---- direct oracle on every collection that carries this variable ------------------------------
        for label, pc, clim_given, excused in calls:
            if pc is not None:
                oracle(pc, label, name, flat, clim_given, excused)
    # ---- [strengthen-6] histories: the caller uses the artists it was handed, then asks for more ----------
    X6.play_artist_history(ctx, recipe, built, c, kept, style, desc, items)
    # ---- quiver ---------------------------------------------------------------------------------------
    # components with a leftover non-spatial dimension are refused, whatever that dimension's length
    leftover = [n for n in face_vars if len(built.vars[n].dims) > len(gd)]
    if leftover:
        fig0 = Figure()
        ax0 = fig0.add_subplot()
        w = ds[leftover[0]]
        try:
            q0 = c.make_quiver(ax0, w, w, transform=ax0.transData)
        except Exception:
            q0 = None
            ctx.count('quiver:leftover-refused')
        if q0 is not None:
            ctx.oracle_fail('quiver-leftover-dimensions-not-refused', {**desc, 'var': leftover[0]},
                            f'make_quiver accepted components with dimensions {tuple(w.dims)} and drew {len(np.ravel(q0.U))} arrows')
    if len(face_vars) >= 1:
        plain = [n for n in face_vars if len(built.vars[n].dims) == len(gd)]
        if plain:
            un = plain[0]
            vn = plain[-1]
            fig = Figure()
            ax = fig.add_subplot()
            u = ds[un]
            v = ds[vn]
            if u.dims != v.dims:
                try:
                    c.make_quiver(ax, un, vn, transform=ax.transData)
                    ctx.oracle_fail('quiver-mismatched-dims-accepted', desc, 'make_quiver accepted u, v with different dimension order')
                except ValueError:
                    pass
                v = v.transpose(*u.dims)
            try:
                q = c.make_quiver(ax, u, v, transform=ax.transData)
            except Exception as e:
                ctx.oracle_fail('quiver-raises', desc, f'make_quiver(transform=ax.transData) raised {type(e).__name__}: {str(e)[:150]}')
                return
            # the arrows sit at the face centres *in the coordinate system the caller named*
            probe = np.array([[0.0, 0.0], [1.0, 2.0], [-3.0, 5.0]])
            try:
                placed = q.get_offset_transform().transform(probe)
                same = np.array_equal(placed, ax.transData.transform(probe))
            except Exception:
                same = False
            ctx.evaluated()
            if not same:
                ctx.oracle_fail('quiver-transform-not-the-one-given', desc, 'make_quiver(transform=T) places its arrows with another transform than T')
            X, Y = np.asarray(q.X, dtype='f8'), np.asarray(q.Y, dtype='f8')
            # matplotlib stores U, V filled with 1 plus ONE combined mask: an arrow with a missing
            # component is not drawn at all
            qmask = np.broadcast_to(np.ma.getmaskarray(np.ma.masked_array(q.U, mask=q.Umask)), np.shape(q.U))
            U = np.where(qmask, np.nan, np.asarray(q.U, dtype='f8'))
            V = np.where(qmask, np.nan, np.asarray(q.V, dtype='f8'))
            uf = np.asarray(u.transpose(*gd).values, dtype='f8').reshape(-1)
            vf = np.asarray(v.transpose(*gd).values, dtype='f8').reshape(-1)
            either = np.isnan(uf) | np.isnan(vf)
            uf = np.where(either, np.nan, uf)
            vf = np.where(either, np.nan, vf)
            cents = [built.centres[n] for n in range(len(raw))]
            known = [n for n in range(len(raw)) if cents[n] is not None or kept[n] is None or built.conv != 'ugrid']

            def cstr(n, x, y):
                if built.conv == 'ugrid' and cents[n] is None:
                    return '?,?'
                return f"{'-' if np.isnan(x) else util.rat_str(Fraction(float(x)))},{'-' if np.isnan(y) else util.rat_str(Fraction(float(y)))}"
            out = ';'.join(f"{cstr(n, X[n], Y[n])},{'-' if np.isnan(U[n]) else util.rat_str(Fraction(float(U[n])))},{'-' if np.isnan(V[n]) else util.rat_str(Fraction(float(V[n])))}"
                           for n in range(len(X)))
            mc = ';'.join('?,?' if (built.conv == 'ugrid' and cents[n] is None) else
                          ('-,-' if cents[n] is None else f'{util.rat_str(cents[n][0])},{util.rat_str(cents[n][1])}') for n in range(len(raw)))
            line = f"quiver {mc} {','.join(rat(a) for a in uf)} {','.join(rat(a) for a in vf)}"
            items.append((line, out, {**desc, 'op': line, 'call': 'quiver'}))
            ctx.nontrivial((str(recipe), 'quiver'))
            if len(X) != len(raw):
                ctx.oracle_fail('quiver-size', desc, f'{len(X)} arrows for {len(raw)} cells')
            else:
                for n in range(len(raw)):
                    okv = (U[n] == uf[n] or (np.isnan(U[n]) and np.isnan(uf[n]))) and (V[n] == vf[n] or (np.isnan(V[n]) and np.isnan(vf[n])))
                    okc = cents[n] is None or (not np.isnan(X[n]) and (Fraction(float(X[n])), Fraction(float(Y[n]))) == tuple(cents[n]))
                    if not okv or not okc:
                        ctx.oracle_fail('arrow-not-of-its-cell', {**desc, 'cell': n}, f'arrow {n}: at ({X[n]}, {Y[n]}) with ({U[n]}, {V[n]}); cell {n} has centre {cents[n]} and ({uf[n]}, {vf[n]})')
                        break


def history_case(ctx, recipe) -> None:
    """the default colour limits span the plotted values whatever was drawn earlier in the process:
    plot `a`; animate `t` over time (another figure); plot `a` again"""
    import pandas as pd
    import xarray as xr
    from matplotlib.collections import PolyCollection
    from matplotlib.figure import Figure
    built = build(recipe)
    ds = built.ds.assign_coords(time=xr.DataArray(pd.date_range('2001-01-01', periods=built.ds.sizes['time']).values, dims=['time']))
    built.ds = ds
    c = G.bind(built)
    desc = {'recipe': recipe, 'history': ['plot a', 'animate t over time', 'plot a']}
    flat = np.asarray(c.ravel(ds['a']).values, dtype='f8')[np.asarray(c.mask)]
    if flat.size == 0 or np.isnan(flat).all():
        return
    want = (float(np.nanmin(flat)), float(np.nanmax(flat)))

    seen: list = []

    def plot_a(label):
        fig = Figure()
        c.plot_on_figure(fig, scalar=ds['a'], coast=False, gridlines=False)
        pcs = [a for ax in fig.axes for a in ax.collections if isinstance(a, PolyCollection)]
        ctx.evaluated()
        if len(pcs) != 1:
            ctx.oracle_fail('plot-on-figure-collections', desc, f'{label}: {len(pcs)} polygon collections on the figure')
            return
        clim = tuple(float(v) for v in pcs[0].get_clim())
        seen.append(clim)
        if seen[0] != clim:
            ctx.oracle_fail('default-clim-depends-on-history', {**desc, 'at': label},
                            f'{label}: default colour limits {clim}, the same plot gave {seen[0]} before')
        # (a single plotted value: matplotlib's colour bar widens the degenerate range itself)
        elif clim != want and want[0] != want[1]:
            ctx.oracle_fail('default-clim-depends-on-history', {**desc, 'at': label},
                            f'{label}: default colour limits {clim}, the plotted values span {want}')
    plot_a('first plot')
    c.animate_on_figure(Figure(), coordinate=ds['time'], scalar=ds['t'], coast=False, gridlines=False)
    plot_a('plot after an animation of another variable')
    ctx.count('history:plot-animate-plot')
    ctx.nontrivial((str(recipe), 'history'))


def make_recipe(ctx, k, held_rng=None, x6_rng=None):
    rng = ctx.rng
    conv = G.CONVS[k % len(G.CONVS)]
    kw = {'max_w': 3, 'max_h': 2, 'coords_as': 'vars', 'face_coords': rng.choice([None, 'vars'])} if conv == 'ugrid' else {'max_n': 4}
    if conv in ('cf2d', 'shoc_simple'):
        kw['twist'] = True
    recipe = G.random_recipe(rng, conv, ctx.tier, **kw)
    if rng.random() < 0.3:
        # coordinates in large units (projected metres, or cells wider than half a turn of longitude): a patch is the
        # cell's outline whatever its extent
        if conv == 'cf1d':
            recipe['lon'] = [v * 100 for v in recipe['lon']]
        elif conv in ('cf2d', 'shoc_simple'):
            recipe['scale'] = recipe.get('scale', 1) * 60
        elif conv == 'ugrid':
            recipe['nodes'] = [[x * 100, y * 100] for x, y in recipe['nodes']]
    probe = G.build(recipe)
    # face variables only, one of them with an extra dimension
    vars_ = [{'name': 'a', 'kind': 'face', 'extra': [], 'base': 1000, 'dtype': 'f8'},
             {'name': 'b', 'kind': 'face', 'extra': [], 'base': 5000, 'dtype': 'f8'},
             {'name': 't', 'kind': 'face', 'extra': ['time'], 'base': 9000, 'dtype': 'f8'}]
    G.finalize_var_orders(rng, vars_, probe.grids, permute=True, with_nan=True)
    recipe = dict(recipe)
    recipe['vars'] = vars_
    # the leftover dimension usually has two steps; every third dataset it is exactly as long as the grid has cells
    # (a coincidence in which indexing the leftover axis with the cell mask happens to "work")
    ncells = len(probe.polys)
    recipe['sizes_extra'] = {'time': ncells if (k % 3 == 1 and 2 <= ncells <= 40) else 2}
    recipe['c19'] = {'style': dict(rng.choice(STYLES)), 'values': {v['name']: random_value_map(rng) for v in vars_}}
    if held_rng is not None:
        recipe['c19']['held'] = {v['name']: random_held(held_rng) for v in vars_}
    if x6_rng is not None:          # [strengthen-6] (a stream of its own, as for the representations)
        recipe['c19']['attrs'] = {v['name']: X6.random_attrs(x6_rng) for v in vars_}
        recipe['c19']['artists'] = X6.random_artist_history(x6_rng)
    return recipe


def run(ctx) -> None:
    items: list = []
    # (the representations are drawn from a stream of their own, forked off ctx.rng's starting state without consuming
    # it: the recipes themselves stay the ones this check has always generated for a given VERIF_SEED)
    held_rng = random.Random('C19 held ' + ','.join(str(x) for x in ctx.rng.getstate()[1][:8]))
    x6_rng = random.Random('C19 extra6 ' + ','.join(str(x) for x in ctx.rng.getstate()[1][:8]))          # [strengthen-6]
    for k in range(ctx.budget(40, 400)):
        recipe = make_recipe(ctx, k, held_rng, x6_rng)
        ctx.guarded(lambda: examine(ctx, recipe, items), {'recipe': recipe})
        if k % 5 == 4:
            ctx.guarded(lambda: history_case(ctx, recipe), {'recipe': recipe, 'history': True})
    if ctx.searching and ctx.driver is None:
        ctx.evaluated(len(items))
        return
    ctx.check_batch(items)


def run_one(ctx, inp):
    out = {}
    if inp.get('op') and ctx.driver:
        out['model'] = ctx.model([inp['op']])[0]
    items: list = []
    sub = type(ctx)(ctx.prop, ctx.tier, ctx.seed)
    sub.known = []
    examine(sub, inp['recipe'], items)
    for line, impl, d in items:
        if line == inp.get('op'):
            out['impl'] = impl
    if sub.oracle_failures:
        out['oracle'] = '; '.join(f"{f['signature']}: {f['message'][:200]}" for f in sub.oracle_failures[:3])
    return out


def replay(ctx, data) -> int:
    return util.generic_replay(ctx, data, run_one)
