"""C03 — flattening and winding variables are exact inverses."""
from __future__ import annotations

import itertools

import numpy as np
import xarray as xr

from harness import util
from harness.gen import datasets as G

ID = 'C03'
MODULE = 'EmsModel.Props.C03'
DRIVER = 'C03'
# theorems about the terms harness/trans_dimssrc.py generates from the source of the flattening / winding helpers
EXTRA_MODULES = ['EmsModel.Props.C03Src']
REQUIRED = [
    'Ems.C03.splice_generated', 'Ems.C03.move_order_generated', 'Ems.C03.move_structure_generated',
    'Ems.C03.ravel_dims_generated', 'Ems.C03.ravel_generated_matches_model', 'Ems.C03.wind_dims_generated',
    'Ems.C03.wind_generated_matches_model', 'Ems.C03.find_unused_generated', 'Ems.C03.dims_functions_translated',
    'Ems.C03.wind_ravel', 'Ems.C03.moveToEnd_get', 'Ems.C03.moveToEnd_dims', 'Ems.C03.moveToEnd_missing',
    'Ems.C03.ravel_collision_refused', 'Ems.C03.ravel_get', 'Ems.C03.wind_get', 'Ems.C03.ravel_wind', 'Ems.C03.findUnused_fresh', 'Ems.C03.no_grid_refused', 'Ems.C03.kind_first_match',
]
RULE = ('(a) utils level: random tagged arrays of rank 1-5 in random dimension order through '
        'move_dimensions_to_end / ravel_dimensions / wind_dimension / find_unused_dimension, incl. absent '
        'dimensions, colliding and auto-chosen linear names, a new dimension that takes over the name of the one '
        'being wound, size mismatches; (b) convention level: every convention x every grid kind x variables with '
        '0-3 extra dimensions in random permutation through ems.ravel then ems.wind (default / axis / name, '
        'custom linear names incl. the name of a grid dimension of this or another kind), and arbitrary linear '
        'data (linear dimension called index / cells / after a grid dimension) through ems.wind then ems.ravel '
        'with the linear dimension at every position; variables on no grid. The dataset itself has non-grid '
        'dimensions (time, k, bounds / connectivity vertex dimensions); the extra dimensions of a variable are '
        'drawn from those names - at the dataset\'s length or, half of the time, at another one - and from names '
        'the dataset does not have. '
        'Histories: one convention object serves a whole dataset; two thirds of the flattened variables and half of '
        'the wound ones are the first of a PAIR of the same layout, shape and storage type (two separate variables, or '
        'two steps of one parent array) whose second member goes through the same object while the first one\'s '
        'flattened form and round trip are still held; every input and every result is looked at again after every '
        'later call on the object (values are only moved, never altered), and the held results of each pair are sent '
        'to the model once more at the end of the dataset. '
        'Data are distinct integer tags, compared element by element together with dims. Non-trivial: rank >= 3 '
        'with the grid dimensions not already last and in order, or an error case; distinct by (dims, op, args).')
TRUSTED = ['numpy reshape/transpose on C-ordered data; xarray.DataArray.transpose; python tuple indexing']
ASSUMPTIONS = ['data arrays have distinct dimension names (xarray only warns on duplicates)']
# ---- round 6 (representations of the values; variables that look alike) - appended, other entries kept ---------
EXTRA_MODULES = list(globals().get('EXTRA_MODULES', [])) + ['EmsModel.Props.C03Hist']
REQUIRED = list(REQUIRED) + ['Ems.C03.kind_presentation_independent', 'Ems.C03.kind_of_transposed',
                             'Ems.C03.ravel_presentation_independent']
RULE = RULE + (
    ' (c) Representations and look-alikes (harness/gen/c03_extra6.py, a random stream of its own): datasets whose '
    'sizes COINCIDE (square grids; extra dimensions as long as a grid dimension or as the whole grid), their data '
    'variables in native or non-native byte order; per variable a history on ONE convention object: the dataset\'s '
    'variable, the same variable transposed (same name, and the same shape where lengths coincide), fresh arrays '
    'carrying that name, same-named same-shaped arrays on no grid (refused), other-named ones; then same-named '
    'linear data with the linear dimension and an equally long dimension changing places (wind then ravel). Fresh '
    'arrays hold their tags as i2..i8 / u2 / u4 / f2..f8 / complex / datetime64 / timedelta64, native or byte-swapped, '
    'C / F / strided / read-only; results are read BY VALUE. Every member is judged against its spec alone and sent '
    'to the model (`ravel`, `wind`, and `ravelp`: the model transposes the stored variable itself).')
# -----------------------------------------------------------------------------------------------------------------


def arr_str(da: xr.DataArray) -> str:
    dims = ','.join(f'{d}:{s}' for d, s in zip(da.dims, da.shape)) or '-'
    vals = np.asarray(da.values).reshape(-1)
    data = ','.join(str(int(v)) for v in vals) or '-'
    return f'{dims}|{data}'


def call(f, *a, **k) -> str:
    try:
        r = f(*a, **k)
    except Exception:
        return 'ERR'
    try:
        return r if isinstance(r, str) else arr_str(r)
    except Exception:
        return 'ODD'


DTYPES = ['i8', 'i8', 'f8', 'f4', 'i4', 'i2', 'u2']
LAYOUTS = ['C', 'C', 'F', 'strided', 'readonly']


def pick_style(rng) -> list:
    """storage type and memory layout of one generated variable"""
    return [rng.choice(DTYPES), rng.choice(LAYOUTS)]


def tagged(dims, sizes, base=0, rng=None, style=None) -> xr.DataArray:
    """an array whose every element is its own C-order position (+ base); with `rng` (or an explicit `style` =
    [dtype, layout]), in one of several storage types and memory layouts (column-major, a strided view of a larger
    array, read-only) - the values, which is all that ravel / wind may depend on, are the same"""
    shape = [sizes[d] for d in dims]
    n = int(np.prod(shape)) if shape else 1
    data = (np.arange(n) + base).reshape(shape)
    if style is None and rng is not None:
        style = pick_style(rng)
    if style is not None:
        data = data.astype(style[0])
        layout = style[1]
        if layout == 'F':
            data = np.asfortranarray(data)
        elif layout == 'strided' and data.ndim >= 1:
            big = np.zeros(tuple(2 * k for k in data.shape), dtype=data.dtype)
            view = big[tuple(slice(None, None, 2) for _ in data.shape)]
            view[...] = data
            data = view
        elif layout == 'readonly':
            data.setflags(write=False)
    return xr.DataArray(data, dims=list(dims))


# ---- variables that come in pairs, and results that are kept ---------------------------------------------------
# A dataset is not flattened one variable at a time by a fresh object: `dataset.ems` is ONE convention object, asked
# for u and then v, for one time step and then the next, and what it returned for the first is still in the caller's
# hands when it is asked for the second.  An array spec describes one generated variable, alone or as one of a pair of
# the same layout, shape and storage type:
#   two-variables  - two separate arrays (u and v)
#   two-steps      - two slices of one parent array along a leading `step_` dimension (two time steps of one variable)
# member 0 holds base .. base+n-1, member 1 holds base+n .. base+2n-1 (no value in common).
PAIRS = ['two-variables', 'two-steps']


def make_pair(spec: dict) -> list:
    dims = list(spec['dims'])
    sizes = dict(zip(dims, spec['sizes']))
    n = int(np.prod(spec['sizes'])) if dims else 1
    style = spec.get('style')
    if spec.get('pair') == 'two-steps':
        parent = tagged(['step_'] + dims, {**sizes, 'step_': 2}, base=spec['base'], style=style)
        return [parent.isel(step_=0), parent.isel(step_=1)]
    return [tagged(dims, sizes, base=spec['base'] + n * w, style=style) for w in (0, 1)]


def make_array(spec: dict, pool: dict | None = None) -> xr.DataArray:
    """the variable an array spec describes (`which` = member of the pair); members of one pair come from one
    `make_pair` call when a `pool` is given"""
    if not spec.get('pair'):
        dims = list(spec['dims'])
        return tagged(dims, dict(zip(dims, spec['sizes'])), base=spec['base'], style=spec.get('style'))
    key = repr(sorted((k, repr(v)) for k, v in spec.items() if k != 'which'))
    if pool is None:
        return make_pair(spec)[spec.get('which', 0)]
    if key not in pool:
        pool[key] = make_pair(spec)
    return pool[key][spec.get('which', 0)]


def play(c, kind_objs: dict, chain: list, pool: dict | None = None):
    """re-execute a chain of calls on the convention object `c`: [{'gen': array spec}, {'ravel': linear name or None},
    {'wind': {'grid_kind': .., 'axis': .., 'linear_dimension': ..}}, ...] - this is what a replay runs"""
    cur = None
    for step in chain:
        if 'gen' in step:
            cur = make_array(step['gen'], pool)
        elif 'ravel' in step:
            cur = c.ravel(cur) if step['ravel'] is None else c.ravel(cur, linear_dimension=step['ravel'])
        elif 'wind' in step:
            kw = dict(step['wind'])
            if 'grid_kind' in kw:
                kw['grid_kind'] = kind_objs[kw['grid_kind']]
            cur = c.wind(cur, **kw)
        else:
            raise ValueError(f'unknown step {step}')
    return cur


def wind_step(kw: dict) -> dict:
    return {'wind': {k: (getattr(v, 'value', v) if k == 'grid_kind' else v) for k, v in kw.items()}}


class Ledger:
    """everything one convention object was given and has handed out so far.  "Values are only moved, never altered":
    the variable that was passed in, its flattened form and the round trip are the caller's and must still hold the
    values they held when they were returned, whatever the same object is asked to flatten or wind afterwards.
    `after` is called after EVERY later ravel / wind on the object, so the call that did the damage is known."""

    def __init__(self, ctx, recipe):
        self.ctx, self.recipe, self.held, self.altered = ctx, recipe, [], []
        self.extra = {}     # (round 6) further keys of the description of a failure, e.g. the history so far

    def hold(self, what: str, arr, chain: list, op: str, late: bool = False) -> None:
        try:
            snap = (tuple(arr.dims), np.array(arr.values, copy=True))
        except Exception:
            return
        self.held.append({'what': what, 'arr': arr, 'snap': snap, 'chain': chain, 'op': op, 'late': late})

    @staticmethod
    def intact(h) -> bool:
        try:
            now = np.asarray(h['arr'].values)
            return tuple(h['arr'].dims) == h['snap'][0] and now.shape == h['snap'][1].shape and bool((now == h['snap'][1]).all())
        except Exception:
            return False

    def after(self, chain: list, op: str) -> None:
        keep = []
        for h in self.held:
            if self.intact(h):
                keep.append(h)
                continue
            try:
                now = np.asarray(h['arr'].values).reshape(-1)[:8].tolist()
            except Exception:
                now = '?'
            self.ctx.oracle_fail(
                'input-modified' if h['what'] == 'input' else 'result-altered-by-later-call',
                {**self.extra, 'recipe': self.recipe, 'op': h['op'], 'held': h['what'], 'held_chain': h['chain'],
                 'later_call': op, 'later_chain': chain},
                f"{h['what']} ({h['op'][:100]}) held {h['snap'][1].reshape(-1)[:8].tolist()}... when it was "
                f"{'passed in' if h['what'] == 'input' else 'returned'}; after the later call ({op[:100]}) on the same "
                f"convention object it holds {now}...")
            self.altered.append(h)
        self.held = keep


def grids_spec(built) -> str:
    return ';'.join(
        f"{k}=" + ','.join(f'{d}:{s}' for d, s in zip(dims, shape))
        for k, (dims, shape) in built.grids.items())


MAX_ELEMS = 400     # elements of one generated variable (every one of them travels through the line protocol)


def other_sizes(rng, ds_other: dict) -> dict:
    """sizes of the dimensions that accompany the grid dimensions of ONE variable: a name the dataset also uses
    (time, k, the vertex dimension of the bounds ...) keeps the dataset's length or - a few time steps, a depth
    subset, a longer record - has another one; names the dataset has never heard of have any length"""
    sizes = {}
    for d, n in ds_other.items():
        sizes[d] = n if rng.random() < 0.5 else rng.choice([k for k in (1, 2, 3, 4) if k != n])
    sizes['index'] = rng.randint(1, 3)
    sizes['spare'] = rng.randint(1, 3)
    return sizes


def flat_str(dims_sizes, values) -> str:
    vals = np.asarray(values).reshape(-1)
    return (','.join(f'{d}:{s}' for d, s in dims_sizes) or '-') + '|' + (','.join(str(int(v)) for v in vals) or '-')


def convention_cases(ctx, conv: str, items: list) -> None:
    """one generated dataset of convention `conv`, ONE convention object for all of it: every grid kind x (ravel then
    wind) x (wind then ravel), for single variables and for pairs of variables of one layout; variables on no grid,
    variables with part of a grid; everything passed in and handed out is held and looked at again after every
    later call"""
    rng = ctx.rng
    recipe = G.random_recipe(rng, conv, ctx.tier, max_n=4) if conv != 'ugrid' else G.random_recipe(rng, conv, ctx.tier, max_w=2, max_h=2)
    # the dataset itself has dimensions that belong to no grid (an auxiliary variable over time and k)
    recipe = dict(recipe)
    recipe['vars'] = [{'name': 'aux', 'kind': None, 'extra': ['time', 'k'], 'base': 0, 'dtype': 'f8'}]
    recipe['sizes_extra'] = {'time': rng.randint(1, 4), 'k': rng.randint(1, 3)}
    built = G.build(recipe)
    c = G.bind(built)
    gs = grids_spec(built)
    dflt = built.default_kind
    kind_objs = {getattr(k, 'value', k): k for k in c.grid_kinds}
    all_grid_dims = [d for gd, _ in built.grids.values() for d in gd]
    # every dimension of the generated dataset that is not a grid dimension (generator output, not read via emsarray)
    ds_other = {str(d): int(n) for d, n in built.ds.sizes.items() if d not in all_grid_dims}
    other_names = list(ds_other) + ['index', 'spare']
    led = Ledger(ctx, recipe)

    def impl(what, fn, chain, op, late=False):
        """one call on the convention object: (result | None, canonical output); every earlier input and result is
        looked at again afterwards, then this result joins them"""
        try:
            r = fn()
            o = arr_str(r)
        except Exception:
            r, o = None, 'ERR'
        led.after(chain, op)
        if r is not None:
            led.hold(what, r, chain, op, late)
        return r, o

    for kind, (gdims, gshape) in built.grids.items():
        gsize = int(np.prod(gshape))
        if gsize > 60:
            continue
        foreign = [d for d in all_grid_dims if d not in gdims]
        for _ in range(3):
            sizes = other_sizes(rng, ds_other)
            sizes.update(zip(gdims, gshape))
            ne = rng.randint(0, 3)
            extra = rng.sample(other_names, ne)
            while extra and gsize * int(np.prod([sizes[d] for d in extra])) > MAX_ELEMS:
                extra.pop()
            dims = list(gdims) + extra
            rng.shuffle(dims)
            # the variable alone, or the first of a pair (u and v; two time steps of one variable)
            pair = rng.choice([None] + PAIRS + PAIRS)
            spec = {'dims': dims, 'sizes': [sizes[d] for d in dims], 'base': rng.randint(0, 9), 'style': pick_style(rng), 'pair': pair, 'which': 0}
            pool = {}
            da = make_array(spec, pool)
            a = arr_str(da)
            # the name of the linear dimension: default, a fresh name, one the variable keeps (refused), or the
            # name of a dimension that the flattening removes / of another grid's dimension (both are free)
            lin = rng.choice([None, None, 'cells', 'index', extra[0] if extra else 'lin',
                              rng.choice(gdims), rng.choice(gdims), rng.choice(foreign or gdims)])
            mismatch = sorted(d for d in extra if d in ds_other and sizes[d] != ds_other[d])
            line = f"ravel {gs} {dflt} {a} {lin or '-'}"
            desc = {'recipe': recipe, 'op': line, 'dims': dims, 'sizes': [sizes[d] for d in dims], 'kind': kind, 'linear_dimension': lin,
                    'array': spec, 'dataset_sizes_of_other_dims': {d: ds_other[d] for d in extra if d in ds_other}}
            led.hold('input', da, [{'gen': spec}], line)
            chain = [{'gen': spec}, {'ravel': lin}]
            flat, out = impl('ravel(v)', lambda: c.ravel(da) if lin is None else c.ravel(da, linear_dimension=lin),
                             chain, line, late=pair is not None)
            items.append((line, out, {'recipe': recipe, 'op': line}))
            ctx.count(f'ravel:{conv}:{kind}')
            ctx.count('ravel:variable:' + (pair or 'alone'))
            ctx.count('ravel:other-dim-length:' + ('differs-from-dataset' if mismatch else 'as-dataset-or-unknown'))
            ctx.count('ravel:linear-name:' + ('default' if lin is None else 'grid-dimension' if lin in all_grid_dims else 'other'))
            nontriv = len(dims) >= 3 and dims[-len(gdims):] != list(gdims)
            if nontriv:
                ctx.nontrivial(('ravel', conv, kind, tuple(dims), lin))
            others = [d for d in dims if d not in gdims]
            if lin is not None and lin in others:
                if flat is not None:
                    ctx.oracle_fail('ravel-linear-name-collision', desc,
                                    f'ems.ravel accepted linear_dimension={lin!r} although the variable keeps a dimension of that name: dims {flat.dims}')
                continue
            if flat is None:
                ctx.oracle_fail('ravel-raised', desc, 'ems.ravel raised on a variable defined on a grid')
                continue
            # flattening alone: other dimensions first and in their order, then the linear one (the requested name,
            # else the first of index, index_0, ... the variable does not use); values as in the transposed variable
            lexp, k = (lin, 0) if lin is not None else ('index', 0)
            while lin is None and lexp in dims:
                lexp, k = f'index_{k}', k + 1
            tr = da.transpose(*others, *gdims)
            expect_flat = flat_str([(d, sizes[d]) for d in others] + [(lexp, gsize)], tr.values)
            if out != expect_flat:
                ctx.oracle_fail('ravel-differs', desc, f'ravel(v) = {out[:120]} expected {expect_flat[:120]}')
            # wind it back: default position, axis, name
            lname = flat.dims[-1]
            mode = rng.choice(['default', 'axis', 'naxis', 'name'])
            kw = {'grid_kind': kind_objs[kind]}
            if kind == dflt and rng.random() < 0.5:
                kw = {}
            if mode == 'axis':
                kw['axis'] = len(flat.dims) - 1
            elif mode == 'naxis':
                kw['axis'] = -1
            elif mode == 'name':
                kw['linear_dimension'] = lname
            wline = (f"wind {gs} {dflt} {out} {kind if 'grid_kind' in kw else '-'} "
                     f"{kw.get('axis', '-')} {kw.get('linear_dimension', '-')}")
            wchain = chain + [wind_step(kw)]
            wound, wout = impl('wind(ravel(v))', lambda: c.wind(flat, **kw), wchain, wline, late=pair is not None)
            items.append((wline, wout, {'recipe': recipe, 'op': wline}))
            # oracle: wind(ravel(v)) == v transposed to others + grid dims
            expect = arr_str(tr)
            if wout != expect:
                ctx.oracle_fail('wind-of-ravel-differs', {**desc, 'op': wline, 'mode': mode},
                                f'wind(ravel(v)) = {wout[:120]} expected {expect[:120]}')
            # values are only moved: their storage type is what it was
            if flat.dtype != da.dtype or (wound is not None and wound.dtype != da.dtype):
                ctx.oracle_fail('storage-type-changed', {**desc, 'dtype': str(da.dtype)},
                                f'{da.dtype} data: ravel gives {flat.dtype}, wind gives {None if wound is None else wound.dtype}')
            if pair is None:
                continue
            # the other variable of the pair, through the same convention object, while the first one's flattened
            # form and round trip are still held (the ledger looks at them again after each of these calls)
            spec2 = {**spec, 'which': 1}
            da2 = make_array(spec2, pool)
            a2 = arr_str(da2)
            line2 = f"ravel {gs} {dflt} {a2} {lin or '-'}"
            desc2 = {**desc, 'op': line2, 'array': spec2}
            led.hold('input', da2, [{'gen': spec2}], line2)
            chain2 = [{'gen': spec2}, {'ravel': lin}]
            flat2, out2 = impl('ravel(v)', lambda: c.ravel(da2) if lin is None else c.ravel(da2, linear_dimension=lin), chain2, line2)
            items.append((line2, out2, {'recipe': recipe, 'op': line2}))
            if flat2 is None:
                ctx.oracle_fail('ravel-raised', desc2, 'ems.ravel raised on a variable defined on a grid')
                continue
            tr2 = da2.transpose(*others, *gdims)
            expect_flat2 = flat_str([(d, sizes[d]) for d in others] + [(lexp, gsize)], tr2.values)
            if out2 != expect_flat2:
                ctx.oracle_fail('ravel-differs', desc2, f'ravel(v) = {out2[:120]} expected {expect_flat2[:120]}')
            wline2 = (f"wind {gs} {dflt} {out2} {kind if 'grid_kind' in kw else '-'} "
                      f"{kw.get('axis', '-')} {kw.get('linear_dimension', '-')}")
            wound2, wout2 = impl('wind(ravel(v))', lambda: c.wind(flat2, **kw), chain2 + [wind_step(kw)], wline2)
            items.append((wline2, wout2, {'recipe': recipe, 'op': wline2}))
            if wout2 != arr_str(tr2):
                ctx.oracle_fail('wind-of-ravel-differs', {**desc2, 'op': wline2, 'mode': mode},
                                f'wind(ravel(v)) = {wout2[:120]} expected {arr_str(tr2)[:120]}')
            if flat2.dtype != da2.dtype or (wound2 is not None and wound2.dtype != da2.dtype):
                ctx.oracle_fail('storage-type-changed', {**desc2, 'dtype': str(da2.dtype)},
                                f'{da2.dtype} data: ravel gives {flat2.dtype}, wind gives {None if wound2 is None else wound2.dtype}')
            if dims[-len(gdims):] != list(gdims):
                ctx.nontrivial(('ravel-pair', conv, kind, tuple(dims), pair))
        # arbitrary linear data, linear dimension at every position
        for _ in range(3):
            sizes2 = other_sizes(rng, ds_other)
            ne = rng.randint(0, 3)
            extra = rng.sample([d for d in other_names if d != 'index'], ne)
            while extra and gsize * int(np.prod([sizes2[d] for d in extra])) > MAX_ELEMS:
                extra.pop()
            ne = len(extra)
            # the linear dimension may be called anything the data does not already use - also after a grid dimension
            # (UGRID data on faces is already linear and is called after the face dimension)
            lname = rng.choice(['index', 'cells', rng.choice(gdims), rng.choice(foreign or gdims)])
            pos = rng.randint(0, ne)
            dims = extra[:pos] + [lname] + extra[pos:]
            sizes2[lname] = gsize
            pair = rng.choice([None, None] + PAIRS)
            spec = {'dims': dims, 'sizes': [sizes2[d] for d in dims], 'base': rng.randint(0, 9), 'style': pick_style(rng),    # any storage type / memory layout
                    'pair': pair, 'which': 0}
            pool = {}
            mode = rng.choice(['axis', 'naxis', 'name'] + (['default'] if pos == ne else []))
            kw = {'grid_kind': kind_objs[kind]}
            if mode == 'axis':
                kw['axis'] = pos
            elif mode == 'naxis':
                kw['axis'] = pos - len(dims)
            elif mode == 'name':
                kw['linear_dimension'] = lname
            if rng.random() < 0.08:
                kw['axis'] = rng.choice([len(dims), -len(dims) - 1])
                mode = 'badaxis'
            ctx.count('wind:variable:' + (pair or 'alone'))
            for which in ((0, 1) if pair else (0,)):
                spec_w = {**spec, 'which': which}
                x = make_array(spec_w, pool)
                xs = arr_str(x)
                wline = (f"wind {gs} {dflt} {xs} {kind} {kw.get('axis', '-')} {kw.get('linear_dimension', '-')}")
                desc = {'recipe': recipe, 'op': wline, 'dims': dims, 'sizes': [sizes2[d] for d in dims], 'kind': kind, 'mode': mode,
                        'array': spec_w, 'dataset_sizes_of_other_dims': {d: ds_other[d] for d in extra if d in ds_other}}
                led.hold('input', x, [{'gen': spec_w}], wline)
                chain = [{'gen': spec_w}, wind_step(kw)]
                wound, wout = impl('wind(x)', lambda: c.wind(x, **kw), chain, wline, late=bool(pair) and which == 0)
                items.append((wline, wout, {'recipe': recipe, 'op': wline}))
                ctx.count(f'wind:{conv}:{kind}:{mode}')
                ctx.count('wind:linear-name:' + ('grid-dimension' if lname in all_grid_dims else 'other'))
                if len(dims) >= 2 and pos != ne:
                    ctx.nontrivial(('wind', conv, kind, tuple(dims), mode) + ((pair, which) if which else ()))
                if wound is None:
                    if mode != 'badaxis':
                        ctx.oracle_fail('wind-raised', desc, 'ems.wind raised on well-formed linear data')
                    continue
                if mode == 'badaxis':
                    ctx.oracle_fail('wind-bad-axis-accepted', {**desc, 'axis': kw['axis']}, f'ems.wind accepted axis {kw["axis"]} on rank {len(dims)}')
                    continue
                # oracle: the grid dimensions stand where the linear one stood, the other dimensions are untouched and in
                # place, the values are those of x in the same (C) order
                exp_ds = ([(d, sizes2[d]) for d in extra[:pos]] + list(zip(gdims, gshape)) + [(d, sizes2[d]) for d in extra[pos:]])
                expect_w = flat_str(exp_ds, x.values)
                if tuple(wound.dims) != tuple(d for d, _ in exp_ds):
                    ctx.oracle_fail('wind-dims-order', desc, f'wind dims {wound.dims}, expected {tuple(d for d, _ in exp_ds)}')
                elif wout != expect_w:
                    ctx.oracle_fail('wind-differs', desc, f'wind(x) = {wout[:120]} expected {expect_w[:120]}')
                # ravel(wind(x)) == x with lname moved last
                rline = f"ravel {gs} {dflt} {wout} {lname}"
                back, bout = impl('ravel(wind(x))', lambda: c.ravel(wound, linear_dimension=lname), chain + [{'ravel': lname}], rline,
                                  late=bool(pair) and which == 0)
                items.append((rline, bout, {'recipe': recipe, 'op': rline}))
                expect = arr_str(x.transpose(*extra, lname))
                if bout != expect:
                    ctx.oracle_fail('ravel-of-wind-differs', desc,
                                    f'ravel(wind(x)) = {bout[:120]} expected {expect[:120]}')
                if wound.dtype != x.dtype or (back is not None and back.dtype != x.dtype):
                    ctx.oracle_fail('storage-type-changed', {**desc, 'dtype': str(x.dtype)},
                                    f'{x.dtype} data: wind gives {wound.dtype}, ravel gives {None if back is None else back.dtype}')
    # a variable on no grid is refused - whether or not the dataset knows its dimensions, at any length
    for dims in (['time'], ['time', 'k'], [], ['spare', 'index']):
        da = tagged(dims, other_sizes(rng, ds_other))
        line = f"ravel {gs} {dflt} {arr_str(da)} -"
        r, out = impl('ravel(v)', lambda: c.ravel(da), [{'gen': {'dims': dims, 'sizes': list(da.shape), 'base': 0}}, {'ravel': None}], line)
        if r is not None:
            ctx.oracle_fail('no-grid-accepted', {'recipe': recipe, 'dims': dims}, f'ems.ravel accepted a variable on no grid: {out[:80]}')
        items.append((line, out, {'recipe': recipe, 'op': line}))
        ctx.nontrivial(('nogrid', conv, tuple(dims)))
    # only some of a kind's dimensions present -> refused (superset test)
    if built.conv != 'ugrid':
        gd = built.grids['face'][0]
        da = tagged([gd[0], 'time'], {gd[0]: built.grids['face'][1][0], 'time': 2})
        line = f"ravel {gs} {dflt} {arr_str(da)} -"
        r, out = impl('ravel(v)', lambda: c.ravel(da), [{'gen': {'dims': [gd[0], 'time'], 'sizes': list(da.shape), 'base': 0}}, {'ravel': None}], line)
        if r is not None:
            ctx.oracle_fail('partial-grid-accepted', {'recipe': recipe, 'dims': [gd[0], 'time']}, 'ems.ravel accepted a variable with only one of the grid dimensions')
        items.append((line, out, {'recipe': recipe, 'op': line}))
    # the first results of every pair, read again now that everything else has been through the same object: the
    # model is a function of the line alone, so the comparison is with what the call should have returned
    for h in led.held + led.altered:
        if h['late']:
            try:
                now = arr_str(h['arr'])
            except Exception:
                now = 'ODD'
            items.append((h['op'], now, {'recipe': recipe, 'op': h['op'], 'read': 'after every later call on the same convention object',
                                         'chain': h['chain']}))
            ctx.count('late-read')


# ==== round 6: representations of the values; histories of variables that look alike ===========================
def lookalike_cases(ctx, conv: str, items: list, rng6) -> None:
    """one generated dataset with coinciding sizes, ONE convention object; per data variable a history of
    presentations that share its name (and, where lengths coincide, its shape), then of same-named linear data.
    Every member is judged against its own spec (`X6.expect_ravel` / `X6.expect_wind`), never against an earlier
    answer; everything handed in and out is held and looked at again after every later call."""
    from harness.gen import c03_extra6 as X6
    recipe, families = X6.plan(rng6, conv, ctx.tier)
    built = G.build(recipe)
    c = G.bind(built)
    gs = grids_spec(built)
    dflt = built.default_kind
    kind_objs = {getattr(k, 'value', k): k for k in c.grid_kinds}
    led = Ledger(ctx, recipe)
    ctx.count('lookalike:dataset-byte-order:' + ('non-native' if recipe.get('vary') else 'native'))

    def impl(what, fn, op):
        try:
            r = fn()
            o = X6.da_str(r)
        except Exception:
            r, o = None, 'ERR'
        led.after([], op)
        if r is not None:
            led.hold(what, r, [], op, late=True)
        return r, o

    for fam in families:
        famd = {k: v for k, v in fam.items() if k not in ('members', 'linear')}
        kind, gdims = fam['kind'], fam['gdims']
        stored_arr = X6.arr_str(fam['stored'], X6.truth(fam, {'source': 'dataset', 'dims': fam['stored']}))
        history, seen = [], {}
        for spec in fam['members'] + fam['linear']:
            history.append(spec)
            desc = {'recipe': recipe, 'family': famd, 'history': list(history), 'kind': kind}
            led.extra = {'family': famd, 'history': list(history)}
            # has the object seen this name with this shape before - in another order of the dimensions?
            key = (spec['name'], tuple(spec['sizes']))
            alike = spec['name'] is not None and key in seen and seen[key] != list(spec['dims'])
            seen.setdefault(key, list(spec['dims']))
            ctx.count('lookalike:' + spec['how'] + (':same-name-and-shape-as-an-earlier-one' if alike else ''))
            if spec['how'] == 'linear':
                x = X6.linear_member(spec)
                ctx.count('lookalike:storage:' + str(x.dtype))
                wdims, wt, bdims, bt = X6.expect_wind(fam, spec)
                xs = X6.arr_str(spec['dims'], (np.arange(int(np.prod(spec['sizes']))) + spec['base']).reshape(spec['sizes']))
                kw = X6.wind_kwargs(spec)
                wline = f"wind {gs} {dflt} {xs} {kind} {kw.get('axis', '-')} {kw.get('linear_dimension', '-')}"
                desc['op'] = wline
                led.hold('input', x, [], wline)
                wound, wout = impl('wind(x)', lambda: c.wind(x, grid_kind=kind_objs[kind], **kw), wline)
                items.append((wline, wout, {'recipe': recipe, 'op': wline}))
                if alike:
                    ctx.nontrivial(('lookalike-wind', conv, kind, tuple(spec['dims']), spec['mode']))
                if wound is None:
                    ctx.oracle_fail('wind-raised', desc, 'ems.wind raised on well-formed linear data')
                    continue
                expect_w = X6.arr_str(wdims, wt)
                if list(wound.dims) != wdims:
                    ctx.oracle_fail('wind-dims-order', desc, f'wind dims {wound.dims}, expected {tuple(wdims)}')
                elif wout != expect_w:
                    ctx.oracle_fail('wind-differs', desc, f'wind(x) = {wout[:120]} expected {expect_w[:120]}')
                rline = f"ravel {gs} {dflt} {expect_w} {spec['lname']}"
                back, bout = impl('ravel(wind(x))', lambda: c.ravel(wound, linear_dimension=spec['lname']), rline)
                expect_b = X6.arr_str(bdims, bt)
                if wout == expect_w:
                    items.append((rline, bout, {'recipe': recipe, 'op': rline}))
                if bout != expect_b:
                    ctx.oracle_fail('ravel-of-wind-differs', {**desc, 'op': rline},
                                    f'ravel(wind(x)) = {bout[:120]} expected {expect_b[:120]}')
                if X6.kind_of_type(wound.dtype) != X6.kind_of_type(x.dtype) or (back is not None and X6.kind_of_type(back.dtype) != X6.kind_of_type(x.dtype)):
                    ctx.oracle_fail('storage-type-changed', {**desc, 'dtype': str(x.dtype)},
                                    f'{x.dtype} data: wind gives {wound.dtype}, ravel gives {None if back is None else back.dtype}')
                continue
            da = X6.member(built, fam, spec)
            ctx.count('lookalike:storage:' + str(da.dtype))
            lin = spec['lin']
            a = X6.arr_str(spec['dims'], X6.truth(fam, spec))
            line = f"ravel {gs} {dflt} {a} {lin or '-'}"
            desc['op'] = line
            led.hold('input', da, [], line)
            flat, out = impl('ravel(v)', lambda: c.ravel(da) if lin is None else c.ravel(da, linear_dimension=lin), line)
            items.append((line, out, {'recipe': recipe, 'op': line}))
            if spec['source'] == 'dataset':
                # the same question as the user puts it: the STORED variable and the order it is handed over in
                pline = f"ravelp {gs} {dflt} {stored_arr} {','.join(spec['dims']) or '-'} {lin or '-'}"
                items.append((pline, out, {'recipe': recipe, 'op': pline}))
            exp = X6.expect_ravel(fam, spec)
            if alike or exp is None:
                ctx.nontrivial(('lookalike-ravel', conv, kind, spec['how'], tuple(spec['dims']), lin))
            if exp is None:
                if flat is not None:
                    ctx.oracle_fail('no-grid-accepted', desc,
                                    f"ems.ravel accepted a variable on no grid (dims {tuple(spec['dims'])}, name {spec['name']!r}): {out[:80]}")
                continue
            if flat is None:
                ctx.oracle_fail('ravel-raised', desc, 'ems.ravel raised on a variable defined on a grid')
                continue
            others, lexp, eflat, et = exp
            expect_flat = X6.arr_str(others + [lexp], eflat)
            if out != expect_flat:
                ctx.oracle_fail('ravel-differs', desc, f'ravel(v) = {out[:120]} expected {expect_flat[:120]}')
            kw = X6.rewind_kwargs(spec, list(flat.dims), kind_objs[kind], kind == dflt)
            wline = (f"wind {gs} {dflt} {expect_flat} {kind if 'grid_kind' in kw else '-'} "
                     f"{kw.get('axis', '-')} {kw.get('linear_dimension', '-')}")
            wound, wout = impl('wind(ravel(v))', lambda: c.wind(flat, **kw), wline)
            if out == expect_flat:
                items.append((wline, wout, {'recipe': recipe, 'op': wline}))
            expect = X6.arr_str(others + gdims, et)
            if wout != expect:
                ctx.oracle_fail('wind-of-ravel-differs', {**desc, 'op': wline, 'mode': spec['wmode']},
                                f'wind(ravel(v)) = {wout[:120]} expected {expect[:120]}')
            if X6.kind_of_type(flat.dtype) != X6.kind_of_type(da.dtype) or (wound is not None and X6.kind_of_type(wound.dtype) != X6.kind_of_type(da.dtype)):
                ctx.oracle_fail('storage-type-changed', {**desc, 'dtype': str(da.dtype)},
                                f'{da.dtype} data: ravel gives {flat.dtype}, wind gives {None if wound is None else wound.dtype}')
    # everything that was handed out, read again now that the whole history has been through the object
    for h in led.held + led.altered:
        if h['late']:
            items.append((h['op'], X6.da_str(h['arr']), {'recipe': recipe, 'op': h['op'],
                                                         'read': 'after every later call on the same convention object'}))
            ctx.count('late-read')
# ================================================================================================================


def run(ctx) -> None:
    from emsarray import utils
    rng = ctx.rng
    items = []

    # ---- (a) utils level -------------------------------------------------
    pool = ['t', 'k', 's', 'y', 'x', 'index', 'index_0', 'n']
    for _ in range(ctx.budget(250, 2500)):
        rank = rng.randint(1, 5)
        dims = rng.sample(pool, rank)
        sizes = {d: rng.randint(1, 3) for d in pool}
        da = tagged(dims, sizes, base=rng.randint(0, 50))
        a = arr_str(da)
        op = rng.choice(['mte', 'uravel', 'uravel', 'uwind', 'unused'])
        if op == 'mte':
            sel = rng.sample(dims, rng.randint(1, rank)) if rng.random() < 0.85 else rng.sample(pool, 2)
            line = f"mte {a} {','.join(sel)}"
            out = call(utils.move_dimensions_to_end, da, list(sel))
            key = ('mte', tuple(dims), tuple(sel))
        elif op == 'uravel':
            sel = rng.sample(dims, rng.randint(1, rank)) if rng.random() < 0.9 else rng.sample(pool, 2)
            lin = rng.choice([None, None, 'index', 'lin', rng.choice(dims), 'index_0'])
            line = f"uravel {a} {','.join(sel)} {lin or '-'}"
            out = call(utils.ravel_dimensions, da, list(sel), lin)
            key = ('uravel', tuple(dims), tuple(sel), lin)
            remaining = [d for d in dims if d not in sel]
            if lin is not None and lin in remaining and set(sel) <= set(dims) and out != 'ERR':
                ctx.oracle_fail('ravel-linear-name-collision', {'dims': dims, 'sizes': [sizes[d] for d in dims], 'ravel': sel, 'linear_dimension': lin},
                                f'ravel_dimensions accepted linear_dimension={lin!r} although the array keeps a dimension of that name: result {out.split("|")[0]}')
        elif op == 'uwind':
            lin = rng.choice(dims) if rng.random() < 0.9 else 'absent'
            target = sizes.get(lin, 1)
            fac = rng.choice([(1, target), (target, 1)] + [(p, target // p) for p in (2, 3) if target % p == 0])
            if rng.random() < 0.1:
                fac = (fac[0] + 1, fac[1])
            nd = [('wy', fac[0]), ('wx', fac[1])]
            # the dimension that is wound disappears, so one of the new dimensions may take its name
            # (winding UGRID data whose linear dimension is already called after the face dimension)
            reuse = rng.random() < 0.3
            if reuse:
                k = rng.randrange(2)
                nd[k] = (lin, nd[k][1])
            line = f"uwind {a} {','.join(f'{n}:{s}' for n, s in nd)} {lin}"
            out = call(utils.wind_dimension, da, [n for n, _ in nd], [s for _, s in nd], linear_dimension=lin)
            key = ('uwind', tuple(dims), lin, fac, reuse)
            if lin in dims and fac[0] * fac[1] == target:
                # direct oracle: the same values in the same C order, the wound dimension replaced in place
                k = dims.index(lin)
                exp_dims = [(d, sizes[d]) for d in dims[:k]] + nd + [(d, sizes[d]) for d in dims[k + 1:]]
                expect = ','.join(f'{n}:{s}' for n, s in exp_dims) + '|' + a.split('|')[1]
                if out != expect:
                    ctx.oracle_fail('wind-dimension-differs' if out != 'ERR' else 'wind-dimension-raised',
                                    {'op': line, 'dims': dims, 'sizes': [sizes[d] for d in dims], 'new': nd, 'linear_dimension': lin},
                                    f'wind_dimension gives {out[:120]}, expected {expect[:120]}')
        else:
            names = rng.sample(['index', 'index_0', 'index_1', 'index_2', 'dim', 't'], rng.randint(0, 5))
            pfx = rng.choice(['index', 'index', 'dim'])
            line = f"unused {','.join(names) or '-'} {pfx}"
            da2 = tagged(names, {n: 1 for n in names})
            out = call(utils.find_unused_dimension, da2, pfx)
            key = ('unused', tuple(sorted(names)), pfx)
            if out in names:
                ctx.oracle_fail('unused-dimension-in-use', {'names': names, 'prefix': pfx}, f'find_unused_dimension returned {out}')
        items.append((line, out, {'op': line}))
        if rank >= 3 or out == 'ERR':
            ctx.nontrivial(key)
        ctx.count('utils:' + op)

    # ---- (b) convention level ---------------------------------------------
    n_ds = ctx.budget(25, 150)
    for dnum in range(n_ds):
        conv = G.CONVS[dnum % len(G.CONVS)]
        ctx.guarded(lambda: convention_cases(ctx, conv, items), {'conv': conv, 'dataset': dnum})
    # ---- (c) round 6: representations and look-alikes; a random stream of its own, after everything else ----------
    import random as _random
    rng6 = _random.Random(f'{ctx.seed}:{int(ctx.searching)}:c03-extra6')
    for dnum in range(ctx.budget(15, 90)):
        conv = G.CONVS[dnum % len(G.CONVS)]
        ctx.guarded(lambda: lookalike_cases(ctx, conv, items, rng6), {'conv': conv, 'lookalike-dataset': dnum})
    if ctx.searching and ctx.driver is None:
        ctx.evaluated(len(items))
        return
    ctx.check_batch(items)


def run_one(ctx, inp: dict) -> dict:
    out = {}
    if inp.get('op') and ctx.driver:
        out['model'] = ctx.model([inp['op']])[0]
    if inp.get('history') and inp.get('family') and inp.get('recipe'):
        # (round 6) a history of look-alike variables on one convention object
        from harness.gen import c03_extra6 as X6
        out.update(X6.replay_history(inp))
    elif inp.get('held_chain') and inp.get('later_chain') and inp.get('recipe'):
        # a history on one convention object: produce the held value, make the later call, look at the held value again
        built = G.build(inp['recipe'])
        c = G.bind(built)
        kind_objs = {getattr(k, 'value', k): k for k in c.grid_kinds}
        pool = {}
        held = play(c, kind_objs, inp['held_chain'], pool)
        before = arr_str(held)
        try:
            play(c, kind_objs, inp['later_chain'], pool)
        except Exception as e:  # the later call may be one that is refused
            out['later_call'] = f'raised {type(e).__name__}'
        after = arr_str(held)
        out['held_when_returned'] = before[:300]
        out['held_after_later_call'] = after[:300]
        out['history'] = 'INTACT' if before == after else 'ALTERED by the later call on the same convention object'
    else:
        out['note'] = 'impl output is recorded in the replay file (op lines carry the full input array)'
    return out


def replay(ctx, data) -> int:
    return util.generic_replay(ctx, data, run_one)
