"""C03 — flattening and winding variables are exact inverses."""
from __future__ import annotations

import itertools

import numpy as np
import xarray as xr

from harness import util
from harness.gen import datasets as G

ID = 'C03'
MODULE = 'EmsModel.Props.C03'
DRIVER = 'C03'
REQUIRED = [
    'Ems.C03.wind_ravel', 'Ems.C03.moveToEnd_get', 'Ems.C03.moveToEnd_dims', 'Ems.C03.moveToEnd_missing',
    'Ems.C03.ravel_collision_refused', 'Ems.C03.ravel_get', 'Ems.C03.wind_get', 'Ems.C03.ravel_wind', 'Ems.C03.findUnused_fresh', 'Ems.C03.no_grid_refused', 'Ems.C03.kind_first_match',
]
RULE = ('(a) utils level: random tagged arrays of rank 1-5 in random dimension order through '
        'move_dimensions_to_end / ravel_dimensions / wind_dimension / find_unused_dimension, incl. absent '
        'dimensions, colliding and auto-chosen linear names, size mismatches; (b) convention level: every '
        'convention x every grid kind x variables with 0-3 extra dimensions in random permutation through '
        'ems.ravel then ems.wind (default / axis / name, custom linear names), and arbitrary linear data '
        'through ems.wind then ems.ravel with the linear dimension at every position; variables on no grid. '
        'Data are distinct integer tags, compared element by element together with dims. Non-trivial: rank >= 3 '
        'with the grid dimensions not already last and in order, or an error case; distinct by (dims, op, args).')
TRUSTED = ['numpy reshape/transpose on C-ordered data; xarray.DataArray.transpose; python tuple indexing']
ASSUMPTIONS = ['data arrays have distinct dimension names (xarray only warns on duplicates)']


def arr_str(da: xr.DataArray) -> str:
    dims = ','.join(f'{d}:{s}' for d, s in zip(da.dims, da.shape)) or '-'
    vals = np.asarray(da.values).reshape(-1)
    data = ','.join(str(int(v)) for v in vals) or '-'
    return f'{dims}|{data}'


def call(f, *a, **k) -> str:
    try:
        r = f(*a, **k)
    except Exception:
        return 'ERR'
    return r if isinstance(r, str) else arr_str(r)


def tagged(dims, sizes, base=0, rng=None) -> xr.DataArray:
    """an array whose every element is its own C-order position (+ base); with `rng`, in one of several storage
    types and memory layouts (column-major, a strided view of a larger array, read-only) - the values, which is
    all that ravel / wind may depend on, are the same"""
    shape = [sizes[d] for d in dims]
    n = int(np.prod(shape)) if shape else 1
    data = (np.arange(n) + base).reshape(shape)
    if rng is not None:
        data = data.astype(rng.choice(['i8', 'i8', 'f8', 'f4', 'i4', 'i2', 'u2']))
        layout = rng.choice(['C', 'C', 'F', 'strided', 'readonly'])
        if layout == 'F':
            data = np.asfortranarray(data)
        elif layout == 'strided' and data.ndim >= 1:
            big = np.zeros(tuple(2 * k for k in data.shape), dtype=data.dtype)
            view = big[tuple(slice(None, None, 2) for _ in data.shape)]
            view[...] = data
            data = view
        elif layout == 'readonly':
            data.setflags(write=False)
    return xr.DataArray(data, dims=list(dims))


def grids_spec(built) -> str:
    return ';'.join(
        f"{k}=" + ','.join(f'{d}:{s}' for d, s in zip(dims, shape))
        for k, (dims, shape) in built.grids.items())


def run(ctx) -> None:
    from emsarray import utils
    rng = ctx.rng
    items = []

    # ---- (a) utils level -------------------------------------------------
    pool = ['t', 'k', 's', 'y', 'x', 'index', 'index_0', 'n']
    for _ in range(ctx.budget(250, 2500)):
        rank = rng.randint(1, 5)
        dims = rng.sample(pool, rank)
        sizes = {d: rng.randint(1, 3) for d in pool}
        da = tagged(dims, sizes, base=rng.randint(0, 50))
        a = arr_str(da)
        op = rng.choice(['mte', 'uravel', 'uravel', 'uwind', 'unused'])
        if op == 'mte':
            sel = rng.sample(dims, rng.randint(1, rank)) if rng.random() < 0.85 else rng.sample(pool, 2)
            line = f"mte {a} {','.join(sel)}"
            out = call(utils.move_dimensions_to_end, da, list(sel))
            key = ('mte', tuple(dims), tuple(sel))
        elif op == 'uravel':
            sel = rng.sample(dims, rng.randint(1, rank)) if rng.random() < 0.9 else rng.sample(pool, 2)
            lin = rng.choice([None, None, 'index', 'lin', rng.choice(dims), 'index_0'])
            line = f"uravel {a} {','.join(sel)} {lin or '-'}"
            out = call(utils.ravel_dimensions, da, list(sel), lin)
            key = ('uravel', tuple(dims), tuple(sel), lin)
            remaining = [d for d in dims if d not in sel]
            if lin is not None and lin in remaining and set(sel) <= set(dims) and out != 'ERR':
                ctx.oracle_fail('ravel-linear-name-collision', {'dims': dims, 'sizes': [sizes[d] for d in dims], 'ravel': sel, 'linear_dimension': lin},
                                f'ravel_dimensions accepted linear_dimension={lin!r} although the array keeps a dimension of that name: result {out.split("|")[0]}')
        elif op == 'uwind':
            lin = rng.choice(dims) if rng.random() < 0.9 else 'absent'
            target = sizes.get(lin, 1)
            fac = rng.choice([(1, target), (target, 1)] + [(p, target // p) for p in (2, 3) if target % p == 0])
            if rng.random() < 0.1:
                fac = (fac[0] + 1, fac[1])
            nd = [('wy', fac[0]), ('wx', fac[1])]
            line = f"uwind {a} {','.join(f'{n}:{s}' for n, s in nd)} {lin}"
            out = call(utils.wind_dimension, da, [n for n, _ in nd], [s for _, s in nd], linear_dimension=lin)
            key = ('uwind', tuple(dims), lin, fac)
        else:
            names = rng.sample(['index', 'index_0', 'index_1', 'index_2', 'dim', 't'], rng.randint(0, 5))
            pfx = rng.choice(['index', 'index', 'dim'])
            line = f"unused {','.join(names) or '-'} {pfx}"
            da2 = tagged(names, {n: 1 for n in names})
            out = call(utils.find_unused_dimension, da2, pfx)
            key = ('unused', tuple(sorted(names)), pfx)
            if out in names:
                ctx.oracle_fail('unused-dimension-in-use', {'names': names, 'prefix': pfx}, f'find_unused_dimension returned {out}')
        items.append((line, out, {'op': line}))
        if rank >= 3 or out == 'ERR':
            ctx.nontrivial(key)
        ctx.count('utils:' + op)

    # ---- (b) convention level ---------------------------------------------
    n_ds = ctx.budget(25, 150)
    for dnum in range(n_ds):
        conv = G.CONVS[dnum % len(G.CONVS)]
        recipe = G.random_recipe(rng, conv, ctx.tier, max_n=4) if conv != 'ugrid' else G.random_recipe(rng, conv, ctx.tier, max_w=2, max_h=2)
        built = G.build(recipe)
        c = G.bind(built)
        gs = grids_spec(built)
        dflt = built.default_kind
        kind_objs = {getattr(k, 'value', k): k for k in c.grid_kinds}
        extra_pool = {'time': rng.randint(1, 3), 'k': rng.randint(1, 2), 'index': 2, 'spare': 2}
        for kind, (gdims, gshape) in built.grids.items():
            gsize = int(np.prod(gshape))
            if gsize > 60:
                continue
            sizes = dict(zip(gdims, gshape))
            sizes.update(extra_pool)
            for _ in range(3):
                ne = rng.randint(0, 3)
                extra = rng.sample(list(extra_pool), ne)
                dims = list(gdims) + extra
                rng.shuffle(dims)
                da = tagged(dims, sizes, base=rng.randint(0, 9), rng=rng)
                a = arr_str(da)
                lin = rng.choice([None, None, 'cells', 'index', extra[0] if extra else 'lin'])
                line = f"ravel {gs} {dflt} {a} {lin or '-'}"
                try:
                    flat = c.ravel(da) if lin is None else c.ravel(da, linear_dimension=lin)
                    out = arr_str(flat)
                except Exception:
                    flat, out = None, 'ERR'
                items.append((line, out, {'recipe': recipe, 'op': line}))
                ctx.count(f'ravel:{conv}:{kind}')
                nontriv = len(dims) >= 3 and dims[-len(gdims):] != list(gdims)
                if nontriv:
                    ctx.nontrivial(('ravel', conv, kind, tuple(dims), lin))
                others = [d for d in dims if d not in gdims]
                if lin is not None and lin in others:
                    if flat is not None:
                        ctx.oracle_fail('ravel-linear-name-collision', {'recipe': recipe, 'dims': dims, 'linear_dimension': lin},
                                        f'ems.ravel accepted linear_dimension={lin!r} although the variable keeps a dimension of that name: dims {flat.dims}')
                    continue
                if flat is None:
                    ctx.oracle_fail('ravel-raised', {'recipe': recipe, 'dims': dims, 'linear_dimension': lin}, 'ems.ravel raised on a variable defined on a grid')
                    continue
                # wind it back: default position, axis, name
                lname = flat.dims[-1]
                mode = rng.choice(['default', 'axis', 'naxis', 'name'])
                kw = {'grid_kind': kind_objs[kind]}
                if kind == dflt and rng.random() < 0.5:
                    kw = {}
                if mode == 'axis':
                    kw['axis'] = len(flat.dims) - 1
                elif mode == 'naxis':
                    kw['axis'] = -1
                elif mode == 'name':
                    kw['linear_dimension'] = lname
                wline = (f"wind {gs} {dflt} {arr_str(flat)} {kind if 'grid_kind' in kw else '-'} "
                         f"{kw.get('axis', '-')} {kw.get('linear_dimension', '-')}")
                try:
                    wound = c.wind(flat, **kw)
                    wout = arr_str(wound)
                except Exception:
                    wound, wout = None, 'ERR'
                items.append((wline, wout, {'recipe': recipe, 'op': wline}))
                # oracle: wind(ravel(v)) == v transposed to others + grid dims
                expect = arr_str(da.transpose(*others, *gdims))
                if wout != expect:
                    ctx.oracle_fail('wind-of-ravel-differs', {'recipe': recipe, 'dims': dims, 'kind': kind, 'mode': mode, 'linear_dimension': lin},
                                    f'wind(ravel(v)) = {wout[:120]} expected {expect[:120]}')
                # values are only moved: their storage type is what it was
                if flat.dtype != da.dtype or (wound is not None and wound.dtype != da.dtype):
                    ctx.oracle_fail('storage-type-changed', {'recipe': recipe, 'dims': dims, 'kind': kind, 'dtype': str(da.dtype)},
                                    f'{da.dtype} data: ravel gives {flat.dtype}, wind gives {None if wound is None else wound.dtype}')
            # arbitrary linear data, linear dimension at every position
            for _ in range(3):
                ne = rng.randint(0, 3)
                extra = rng.sample(['time', 'k', 'spare'], ne)
                lname = rng.choice(['index', 'cells'])
                pos = rng.randint(0, ne)
                dims = extra[:pos] + [lname] + extra[pos:]
                sizes2 = dict(extra_pool)
                sizes2[lname] = gsize
                x = tagged(dims, sizes2, base=rng.randint(0, 9))
                mode = rng.choice(['axis', 'naxis', 'name'] + (['default'] if pos == ne else []))
                kw = {'grid_kind': kind_objs[kind]}
                if mode == 'axis':
                    kw['axis'] = pos
                elif mode == 'naxis':
                    kw['axis'] = pos - len(dims)
                elif mode == 'name':
                    kw['linear_dimension'] = lname
                if rng.random() < 0.08:
                    kw['axis'] = rng.choice([len(dims), -len(dims) - 1])
                    mode = 'badaxis'
                wline = (f"wind {gs} {dflt} {arr_str(x)} {kind} {kw.get('axis', '-')} {kw.get('linear_dimension', '-')}")
                try:
                    wound = c.wind(x, **kw)
                    wout = arr_str(wound)
                except Exception:
                    wound, wout = None, 'ERR'
                items.append((wline, wout, {'recipe': recipe, 'op': wline}))
                ctx.count(f'wind:{conv}:{kind}:{mode}')
                if len(dims) >= 2 and pos != ne:
                    ctx.nontrivial(('wind', conv, kind, tuple(dims), mode))
                if wound is None:
                    if mode != 'badaxis':
                        ctx.oracle_fail('wind-raised', {'recipe': recipe, 'dims': dims, 'kind': kind, 'mode': mode}, 'ems.wind raised on well-formed linear data')
                    continue
                if mode == 'badaxis':
                    ctx.oracle_fail('wind-bad-axis-accepted', {'recipe': recipe, 'dims': dims, 'axis': kw['axis']}, f'ems.wind accepted axis {kw["axis"]} on rank {len(dims)}')
                    continue
                # oracle: other dimensions untouched and in place; ravel(wind(x)) == x with lname moved last
                exp_dims = tuple(extra[:pos]) + tuple(gdims) + tuple(extra[pos:])
                if tuple(wound.dims) != exp_dims:
                    ctx.oracle_fail('wind-dims-order', {'recipe': recipe, 'dims': dims, 'kind': kind, 'mode': mode}, f'wind dims {wound.dims}, expected {exp_dims}')
                rline = f"ravel {gs} {dflt} {wout} {lname}"
                try:
                    back = c.ravel(wound, linear_dimension=lname)
                    bout = arr_str(back)
                except Exception:
                    back, bout = None, 'ERR'
                items.append((rline, bout, {'recipe': recipe, 'op': rline}))
                expect = arr_str(x.transpose(*extra, lname))
                if bout != expect:
                    ctx.oracle_fail('ravel-of-wind-differs', {'recipe': recipe, 'dims': dims, 'kind': kind, 'mode': mode},
                                    f'ravel(wind(x)) = {bout[:120]} expected {expect[:120]}')
        # a variable on no grid is refused
        for dims in (['time'], ['time', 'k'], []):
            da = tagged(dims, extra_pool)
            line = f"ravel {gs} {dflt} {arr_str(da)} -"
            try:
                out = arr_str(c.ravel(da))
                ctx.oracle_fail('no-grid-accepted', {'recipe': recipe, 'dims': dims}, f'ems.ravel accepted a variable on no grid: {out[:80]}')
            except Exception:
                out = 'ERR'
            items.append((line, out, {'recipe': recipe, 'op': line}))
            ctx.nontrivial(('nogrid', conv, tuple(dims)))
        # only some of a kind's dimensions present -> refused (superset test)
        if built.conv != 'ugrid':
            gd = built.grids['face'][0]
            da = tagged([gd[0], 'time'], {gd[0]: built.grids['face'][1][0], 'time': 2})
            line = f"ravel {gs} {dflt} {arr_str(da)} -"
            try:
                out = arr_str(c.ravel(da))
                ctx.oracle_fail('partial-grid-accepted', {'recipe': recipe, 'dims': [gd[0], 'time']}, 'ems.ravel accepted a variable with only one of the grid dimensions')
            except Exception:
                out = 'ERR'
            items.append((line, out, {'recipe': recipe, 'op': line}))
    if ctx.searching and ctx.driver is None:
        ctx.evaluated(len(items))
        return
    ctx.check_batch(items)


def run_one(ctx, inp: dict) -> dict:
    out = {}
    if inp.get('op') and ctx.driver:
        out['model'] = ctx.model([inp['op']])[0]
    out['note'] = 'impl output is recorded in the replay file (op lines carry the full input array)'
    return out


def replay(ctx, data) -> int:
    return util.generic_replay(ctx, data, run_one)
