"""C10 — UGRID mesh topology is independent of encoding and internally consistent."""
from __future__ import annotations

import itertools
import warnings
from fractions import Fraction

import numpy as np

from harness import util
from harness.gen import c10_extra as X
from harness.gen import datasets as G
from harness.gen import mesh as M

ID = 'C10'
MODULE = 'EmsModel.Props.C10'
DRIVER = 'C10'
REQUIRED = [
    'Ems.C10.normalise_encode', 'Ems.C10.encoding_independent', 'Ems.C10.start_index_cases',
    'Ems.C10.supplied_used', 'Ems.C10.supplied_valid_iff', 'Ems.C10.edges_spec', 'Ems.C10.face_pairs_spec',
    'Ems.C10.face_edge_spec', 'Ems.C10.edge_face_spec', 'Ems.C10.edge_face_rejects_nonmanifold',
    'Ems.C10.face_face_symm', 'Ems.C10.face_face_iff_shared_edge', 'Ems.C10.derived_tables_consistent',
    'Ems.C10.derived_topology', 'Ems.C10.topology_all_derived',
    'Ems.C10.quirk_coords_in_data_vars_violates', 'Ems.C10.quirk_two_dim_guess_violates',
    'Ems.C10.edge_node_follows_face_edge', 'Ems.C10.edge_node_follows_edge_face',
    'Ems.C10.edge_face_describes_iff', 'Ems.C10.edge_node_array_precedence',
    'Ems.C10.derived_numbering_consistent', 'Ems.C10.derived_numbering_consistent_edge_face',
    'Ems.C10.follow_face_edge_raises_iff', 'Ems.C10.follow_face_edge_rows',
    'Ems.C10.follow_edge_face_falls_back_iff', 'Ems.C10.follow_edge_face_fewer_rows',
    'Ems.C10.own_numbering_violates_face_edge_clause', 'Ems.C10.own_numbering_violates_edge_face_clause',
    'Ems.C10.supplied_face_edge_numbering_followed',
]
RULE = ('UGRID datasets built from structured meshes (lattice cut-outs mixing triangles, quads, concave pentagons / '
        'hexagons / octagons, collinear mid-edge nodes, dropped cells, both windings, shuffled numbering; plus tiny '
        'special meshes: one triangle, one quad, two quads, uniform quads, a fan round an interior node, an octagon, '
        'a closed tetrahedron, a ring round a hole) under the FULL encoding product {0,1}-based x {NaN floats, integer '
        '_FillValue attribute, netCDF round trip with the fill value in .encoding (every 4th in the quick tier), no '
        'fill needed (uniform / closed meshes)} x {normal, transposed} x every subset of {edge_node, face_edge, '
        'edge_face, face_face} supplied (with a shuffled edge numbering and mixed pair orientation) x edge dimension '
        'declared / implied / absent (and declared but absent from the dataset), and sampled: start_index spelling '
        '(int, numpy int, string, omitted), extra padding columns, face dimension undeclared, integer dtype, custom '
        'dimension names (incl. a two-dimension not called Two), node / face coordinates as variables or as xarray '
        'coordinates; plus a malformed stream (bad start_index on each table, wrong dimensions, dangling attribute, '
        'encoded fill value inside / at the border of / outside the index range, non-manifold mesh, missing '
        'node_coordinates, incomplete edge table); plus the STORAGE TYPE of the integer tables (i1 u1 i2 u2 i8, '
        'thorough also i4 u4; fill value kept or moved to the edge of the type\'s range) x index base x supplied '
        'tables on the uniform mesh and two lattices, and on two medium meshes (13..14 cells a side, about 200 nodes, '
        'all quads / quads and triangles) in the narrowest signed and unsigned type that holds their indexes, so '
        'that index arithmetic in the table\'s own type is at the edge of its range; and a SECOND LOOK: every '
        'fourth encoding of the product, every sampled case and the NaN form of the medium meshes are normalised '
        'twice -- after the first look a second dataset object over the same variables (shallow copy, '
        'assign_attrs, full-slice isel) gets a fresh accessor, reads the tables in the opposite order, and must '
        'answer exactly what the first did (the model is given the dataset as it was BEFORE emsarray saw it). '
        'And the NUMBERING of derived edges: every pool mesh with face_edge and / or edge_face (and optionally '
        'face_face) supplied but no edge_node table, in two or three freshly shuffled edge numberings (so that the '
        'supplied numbering differs from the order in which emsarray derives edges itself, and the interchangeable '
        'boundary sides of one face come in another order than first seen), both index bases, NaN / integer fill / '
        'netCDF round trip, both layouts of a boundary row of edge_face ([face, -] and [-, face]), normal and '
        'transposed: edge_node_array is compared EXACTLY, row by row, with the model, which computes the numbering '
        'from the supplied table itself (Ems.Mesh.makeEdgeNodeFollowingFaceEdge / ...EdgeFace); plus supplied tables '
        'that do NOT describe the mesh (single cells overwritten: an entry beyond the edges, a negative one, a '
        'masked one, two sides numbered alike, an edge_face row listing other faces / the same faces once too '
        'often, a table with a row too few): IndexError, a masked row, or the fall-back to the own numbering, as '
        'modelled. '
        'And the INDEX BASE PER TABLE (start_index is an attribute of each connectivity variable): every pool mesh x '
        'non-empty sets of supplied tables x which tables count from the other base than the rest (face_node alone, '
        'one supplied table, all supplied tables, face_node and one supplied table) x base x fill kind, the '
        'zero-based tables with or without the attribute; every third numbering case likewise. '
        'And a HISTORY (the dataset is not the first one the process looks at): another valid mesh on the same '
        'nodes (faces in another order / fewer / begun at another corner, other optional tables) was written to the '
        'SAME file path, opened and all its tables asked for before the file is replaced by the mesh of the case '
        'and opened again; or the dataset is what Dataset.isel makes of an opened file whose tables were asked '
        'for (faces reordered with none / edge_node supplied, or some faces taken) -- three in four through a real '
        'netCDF file, the rest in memory; the model and the oracle see the last dataset only. '
        'Compared per dataset, in one line: face_node_array, '
        'edge_node_array, face_edge_array, edge_face_array, face_face_array (raw, masked cells as "-", exceptions as '
        'a small enum), the five has_valid_* flags, the five discovered dimension names, the polygon vertex rings '
        'and the stored face centres. The model is fed the dataset handed to emsarray (generator output, never read '
        'back from emsarray); the only thing taken from emsarray is the ORDER in which it numbered derived edges, '
        'which the model accepts only if it is a renumbering of its own derived edge list, and uses only where the '
        'dataset supplies no table that numbers the edges (the property leaves the numbering free there; with a '
        'supplied face_edge or edge_face table the model ignores it). Independently, a brute-force Python oracle states the property on the real outputs against '
        'the generator\'s faces: identical faces / polygons across encodings, supplied tables returned as given, '
        'edges = consecutive node pairs each once, a derived edge_node table in the numbering of the supplied '
        'face_edge (row face_edge[f][c] is side c of face f) or edge_face table (the faces containing edge e are '
        'row e), face_edge / edge_face / face_face consistent with the node pairs, '
        'symmetric adjacency, dimension names, stored centres. A case is non-trivial when it is a distinct '
        '(mesh, encoding, options) combination; the encoding product is enumerated completely (exhaustive).')
TRUSTED = [
    'numpy masked arrays, numpy.transpose, xarray attribute / encoding / dims / sizes semantics and the netCDF '
    'round trip (modelled by Ems.Mesh.toIndexArray / Ems.Mesh.DS, cross-checked on every generated dataset)',
    'shapely.polygons builds the ring it is given (vertex rings compared exactly)',
    'the order in which emsarray numbers derived edges where the dataset numbers none (no valid edge_node, '
    'face_edge or edge_face table, or an edge_face table that does not describe the sides) is read from emsarray '
    'and validated by the model (Ems.Mesh.isRenumbering) before use',
    'xarray: to_netcdf / open_dataset at one path (a history case replaces the file and opens it again), '
    'Dataset.isel along the face dimension (rows of the face tables taken in the given order, everything else '
    'and .encoding kept); '
    'xarray: Dataset.copy() / assign_attrs / isel(slice(None)) hand out new dataset objects over the same '
    'variable data (what makes the second look a look at the same variables); the integer storage type of a '
    'table is not part of the model (its tables are unbounded integers): the medium meshes beyond the first '
    'of each kind are judged by the direct oracle only',
]
ASSUMPTIONS = [
    'connectivity values are integers (or integral floats / NaN); node coordinates are integers',
    'valid meshes for the derived tables: Ems.Mesh.Manifold (every undirected node pair is a side of at most two '
    'faces, no face uses one twice) — an explicit decidable hypothesis of the theorems; the malformed stream checks '
    'what happens otherwise (IndexError, modelled)',
    'a dataset with neither a declared nor an implied edge dimension is outside the quantifier: the derived edge '
    'tables raise NoEdgeDimensionException (modelled and compared, not judged)',
    'a supplied edge_face table does not tell the boundary sides of one face apart: any assignment of them to the '
    'rows listing that face alone satisfies the property (the code and the model hand them out in first-seen '
    'order; the oracle demands only that the faces containing edge e are row e)',
]
LEVEL_NOTE = ('normalise_encode, the derived-table specifications and their joint consistency (derived_tables_consistent, '
              'derived_topology) are proved for all meshes and all edge renumberings; that a derived edge_node table '
              'follows a supplied face_edge / edge_face numbering, entry by entry (edge_node_follows_face_edge, '
              'edge_node_follows_edge_face, derived_numbering_consistent), with the exact fall-back conditions, for all '
              'meshes; the file / xarray layer '
              '(attribute lookup, netCDF decoding) is modelled and tied by the correspondence only.')

ARRAYS = ['face_node_array', 'edge_node_array', 'face_edge_array', 'edge_face_array', 'face_face_array']
KEYS = ['fn', 'en', 'fe', 'ef', 'ff']


# ---------------------------------------------------------------------------
# canonical forms of what emsarray returns

def err_str(e: Exception) -> str:
    from emsarray.conventions.ugrid import NoEdgeDimensionException
    from emsarray.exceptions import ConventionViolationError
    if isinstance(e, NoEdgeDimensionException):
        return 'ERR:noedge'
    if isinstance(e, ConventionViolationError):
        return 'ERR:convention'
    if isinstance(e, KeyError):
        return 'ERR:key'
    if isinstance(e, IndexError):
        return 'ERR:index'
    if isinstance(e, ValueError):
        return 'ERR:value'
    return f'ERR:other({type(e).__name__})'


def table_rows(a) -> list:
    """masked array -> list of rows, `None` for masked cells"""
    a = np.ma.masked_array(a)
    if a.ndim != 2:
        raise ValueError(f'table of rank {a.ndim}')
    if not np.issubdtype(a.dtype, np.integer):
        raise TypeError(f'table of dtype {a.dtype}')
    mask = np.ma.getmaskarray(a)
    return [[None if m else int(v) for v, m in zip(row, mrow)] for row, mrow in zip(a.data, mask)]


def rows_str(rows: list) -> str:
    if not rows:
        return 'e'
    return ';'.join(','.join('-' if v is None else str(v) for v in row) for row in rows)


class Observed:
    """everything the check looks at, taken from the real code once per dataset"""

    def __init__(self, built: G.Built, reverse: bool = False):
        self.tables = {}      # key -> rows | None
        self.errs = {}        # key -> 'ERR:…'
        self.dims = []
        self.poly = None
        self.poly_err = None
        self.fc = None
        self.exc = {}
        self.second = None    # a second look at the same variables (`observe`), if the recipe asks for one
        with warnings.catch_warnings():
            warnings.simplefilter('ignore')
            try:
                c = G.bind(built)
                t = c.topology
            except Exception as e:  # noqa: BLE001
                # whatever the implementation does with a dataset is an observation, never a crash of the run
                for key in KEYS:
                    self.tables[key] = None
                    self.errs[key] = err_str(e)
                    self.exc[key] = e
                self.hv = 'EEEEE'
                self.dims = [err_str(e)] * 5
                self.poly_err = err_str(e)
                self.exc['polygons'] = e
                return
            # (the second look reads the tables in the opposite order: what one table is must not depend
            # on which of the others was asked for first)
            for key, name in (list(zip(KEYS, ARRAYS))[::-1] if reverse else zip(KEYS, ARRAYS)):
                try:
                    self.tables[key] = table_rows(getattr(t, name))
                except Exception as e:  # noqa: BLE001
                    self.tables[key] = None
                    self.errs[key] = err_str(e)
                    self.exc[key] = e
            self.hv = ''
            for name in ['face_node', 'edge_node', 'face_edge', 'edge_face', 'face_face']:
                try:
                    self.hv += '1' if getattr(t, f'has_valid_{name}_connectivity') else '0'
                except Exception:  # noqa: BLE001
                    self.hv += 'E'
            for name in ['face_dimension', 'node_dimension', 'edge_dimension', 'max_node_dimension', 'two_dimension']:
                try:
                    self.dims.append(str(getattr(t, name)))
                except Exception as e:  # noqa: BLE001
                    self.dims.append(err_str(e))
                    self.exc[name] = e
            try:
                self.poly = [util.poly_ring(p) for p in c.polygons]
            except Exception as e:  # noqa: BLE001
                self.poly_err = err_str(e)
                self.exc['polygons'] = e
            try:
                if t.face_x is not None and t.face_y is not None:
                    self.fc = [(Fraction(float(x)), Fraction(float(y))) for x, y in c.face_centres]
            except Exception as e:  # noqa: BLE001
                self.fc = err_str(e)

    def numbering(self):
        en = self.tables.get('en')
        if en is None or any(len(r) != 2 or None in r for r in en):
            return None
        return [tuple(r) for r in en]

    def line(self) -> str:
        parts = [f"{k}={rows_str(self.tables[k]) if self.tables[k] is not None else self.errs[k]}" for k in KEYS]
        parts.append('hv=' + self.hv)
        parts.append('dims=' + ','.join(self.dims))
        if self.poly is None:
            parts.append('poly=' + self.poly_err)
        else:
            parts.append('poly=' + ('/'.join(util.ring_str(r) for r in self.poly) if self.poly else 'e'))
        if self.fc is None:
            parts.append('fc=-')
        elif isinstance(self.fc, str):
            parts.append('fc=' + self.fc)
        else:
            parts.append('fc=' + util.ring_str(self.fc))
        return '|'.join(parts)


# ---------------------------------------------------------------------------
# the direct property oracle (independent of the Lean model)

def pairs_of(face: list) -> list:
    return [frozenset((a, b)) for a, b in zip(face, face[1:] + face[:1])]


def pad(row: list, width: int) -> list:
    return list(row) + [None] * (width - len(row))


def compress(row: list) -> list:
    return [v for v in row if v is not None]


PER_SIGNATURE = 2   # failing inputs recorded per signature and run (the rest are only counted)


def oracle(ctx, recipe: dict, built: G.Built, obs: Observed, expect_valid: set) -> set:
    """Brute-force statement of C10 on the real outputs, against the generator's ground truth.
    `expect_valid`: the optional tables this dataset supplies in a valid form.
    Returns the signatures of the failures found on this input; records (shrunk) failing inputs."""
    found = findings(recipe, built, obs, expect_valid)
    for sig, msg in found:
        ctx.count(f'oracle:{sig}')
        if any(k['property'] == ctx.prop and k['signature'] == sig for k in ctx.known):
            # a recorded finding: only counted (KNOWN-FINDING line), no shrinking needed
            ctx.oracle_fail(sig, {'recipe': recipe, 'expect_valid': sorted(expect_valid)}, msg)
        elif ctx.distribution[f'oracle:{sig}'] <= PER_SIGNATURE:
            small = shrink(recipe, sig, expect_valid) if ctx.distribution[f'oracle:{sig}'] == 1 else recipe
            if small is not recipe:
                again = [m for s, m in findings_of(small, expect_valid) if s == sig]
                msg = again[0] if again else msg
            ctx.oracle_fail(sig, {'recipe': small, 'expect_valid': sorted(expect_valid)}, msg)
    return {sig for sig, _ in found}


def build(recipe: dict, path: str | None = None) -> G.Built:
    """`mesh.build` plus the storage type of the integer tables (`recipe['c10']['storage']`); with `path`,
    the netCDF round trip of the recipe goes through a file at that path (replacing what was there)"""
    opt = recipe.get('c10', {})
    if path is not None and opt.get('netcdf'):
        built = M.build(dict(recipe, c10={k: v for k, v in opt.items() if k != 'netcdf'}))
        built.ds = X.via_file(built.ds, path)
    else:
        built = M.build(recipe)
    st = recipe.get('c10', {}).get('storage')
    if st:
        built.extra['storage_cast'] = X.apply_storage(built, st)
    return built


def observe(recipe: dict, built: G.Built | None = None) -> tuple:
    """(built, what emsarray answers, the model's input line).

    The dataset is described for the model BEFORE emsarray sees it: the model's input is what was handed
    to emsarray, not what is left of it afterwards. With `recipe['c10']['relook']` the same variables are
    then looked at a second time through a second dataset object and a fresh accessor (`Observed.second`)."""
    if built is None and recipe.get('c10', {}).get('history'):
        # (what emsarray answers about the earlier datasets of the history is not judged here: they are
        # cases of their own elsewhere; an exception there is an observation like any other)
        built = X.with_history(recipe, build, Observed)
    elif built is None:
        built = build(recipe)
    pre = M.describe(built.ds, None)
    obs = Observed(built)
    how = recipe.get('c10', {}).get('relook')
    if how:
        obs.second = Observed(X.second_built(built, how), reverse=True)
    numbering = obs.numbering()
    if numbering is None:
        line = pre
    else:
        assert pre.endswith(' N=-')
        line = pre[:-1] + ('e' if len(numbering) == 0 else ','.join(f'{int(a)}.{int(b)}' for a, b in numbering))
    return built, obs, line


def findings_of(recipe: dict, expect_valid: set) -> list:
    built, obs, _ = observe(recipe)
    return findings(recipe, built, obs, expect_valid)


def shrink(recipe: dict, sig: str, expect_valid: set) -> dict:
    """greedy: drop faces, then optional encoding choices, while the same failure remains"""
    cur = recipe

    def still(cand):
        try:
            return any(s == sig for s, _ in findings_of(cand, expect_valid & set(cand['enc'].get('tables', []))))
        except Exception:  # noqa: BLE001
            return False
    # faces: chunks of halving size, then single faces until none can go (a budget keeps a medium mesh
    # whose failure needs most of its faces from costing minutes)
    budget = [250]
    hist = cur.get('c10', {}).get('history') or {}
    if hist.get('how') == 'isel' and cur['enc'].get('tables'):
        # (the supplied tables of the file describe all of its faces: none can go)
        budget = [0]
    chunk = max(1, len(cur['faces']) // 2)
    while chunk >= 1 and budget[0] > 0:
        progress = False
        i = 0
        while i < len(cur['faces']) and len(cur['faces']) > 1 and budget[0] > 0:
            rest = cur['faces'][:i] + cur['faces'][i + chunk:]
            cand = {k: v for k, v in cur.items() if k != 'edges'}
            cand['faces'] = rest
            budget[0] -= 1
            if rest and still(cand):
                cur, progress = cand, True
            else:
                i += chunk
        if chunk == 1 and not progress:
            break
        chunk = chunk // 2 if chunk > 1 else 1
    for key, plain in (('transposed', False), ('start_index', 0), ('start_index_spelling', 'int'), ('pad', 0)):
        if cur['enc'].get(key, plain) != plain:
            cand = dict(cur, enc=dict(cur['enc'], **{key: plain}))
            if still(cand):
                cur = cand
    for t in list(cur['enc'].get('tables', [])):
        cand = dict(cur, enc=dict(cur['enc'], tables=[x for x in cur['enc']['tables'] if x != t]))
        if still(cand):
            cur = cand
    for t in list(cur['enc'].get('other_base_tables', [])):
        cand = dict(cur, enc=dict(cur['enc'], other_base_tables=[x for x in cur['enc']['other_base_tables'] if x != t]))
        if cand['enc']['other_base_tables'] and still(cand):
            cur = cand
    return cur


def findings(recipe: dict, built: G.Built, obs: Observed, expect_valid: set) -> list:
    found: list = []
    _oracle(recipe, built, obs, expect_valid, found)
    second = obs.second
    if second is not None and second.line() != obs.line():
        # the same variables normalised a second time (another dataset object, a fresh accessor, the tables
        # asked for in another order): the mesh is the same, so is every answer
        a, b = obs.line().split('|'), second.line().split('|')
        diff = [f'{x[:160]}  ->  {y[:160]}' for x, y in zip(a, b) if x != y]
        found.append(('second-look-differs',
                      f"normalised again through {recipe.get('c10', {}).get('relook')!r} (same variables, fresh "
                      f'accessor) the topology is not what it was the first time: {"; ".join(diff[:3])}'))
    return found


def _oracle(recipe: dict, built: G.Built, obs: Observed, expect_valid: set, found: list) -> None:
    faces = recipe['faces']
    enc = recipe.get('enc', {})
    ex = built.extra
    width = ex['maxn']
    has_edge = ex['has_edge']
    tables = set(enc.get('tables', []))
    coords_as = enc.get('coords_as', 'vars')
    face_coords = enc.get('face_coords')

    def fail(sig, msg):
        found.append((sig, msg))

    # --- coordinates held as xarray coordinates (CF `coordinates` attribute) -------------
    if coords_as == 'coords':
        bad = [k for k in ('node_dimension', 'polygons') if isinstance(obs.exc.get(k), KeyError)]
        if bad:
            fail('ugrid-node-coords-as-coordinates-keyerror',
                 f'node coordinates held as xarray coordinates: {bad} raise KeyError {obs.exc[bad[0]]}')
            return
    if face_coords is not None:
        want = [(Fraction(float(x)), Fraction(float(y))) for x, y in built.centres]
        if obs.fc != want:
            sig = 'ugrid-face-coords-as-coordinates-ignored' if face_coords == 'coords' else 'face-centres-differ'
            fail(sig, f'stored face centres {want[:2]}… not returned by face_centres (got {obs.fc if obs.fc is None else obs.fc[:2]})')

    # --- faces: identical whatever the encoding -----------------------------------------
    fn = obs.tables['fn']
    if fn is None:
        fail('face-node-raises', f'face_node_array raised {obs.errs["fn"]} on a valid mesh')
        return
    if fn != [pad(f, width) for f in faces]:
        fail('face-node-differs', f'face_node_array {rows_str(fn)} != faces {rows_str([pad(f, width) for f in faces])}')
        return
    if obs.poly is None:
        fail('polygons-raise', f'polygons raised {obs.poly_err} on a valid mesh')
    elif obs.poly != [util.expected_ring(p) for p in built.polys]:
        fail('polygons-differ', 'polygon vertex rings differ from the node coordinates of the faces')
    names = ex['names']
    want_dims = [names['face_dim'], names['node_dim'], names['edge_dim'] if has_edge else 'ERR:noedge', names['max_dim']]
    if obs.dims[:4] != want_dims:
        fail('dimensions-differ', f'discovered dimensions {obs.dims[:4]} != {want_dims}')

    # --- supplied tables are used as given -----------------------------------------------
    truth = {
        'edge_node': [list(e) for e in ex['edges']],
        'face_edge': [pad(r, width) for r in ex['face_edges']],
        'edge_face': [list(r) for r in ex['edge_face_rows']],
        'face_face': [pad(r, width) for r in ex['face_faces']],
    }
    key_of = {'edge_node': 'en', 'face_edge': 'fe', 'edge_face': 'ef', 'face_face': 'ff'}
    two_guess_wrong = has_edge and obs.dims[4] != names['two_dim'] and bool(tables & {'edge_node', 'edge_face'})
    if two_guess_wrong:
        fail('ugrid-two-dimension-guess-drops-supplied-edge-table',
             f'two_dimension = {obs.dims[4]!r} although the supplied edge tables use {names["two_dim"]!r}: '
             f'they fail their validity test (has_valid flags {obs.hv}) and are not returned')
    for tname in sorted(expect_valid):
        got = obs.tables[key_of[tname]]
        if not has_edge and tname == 'face_edge':
            # a face-edge table in a dataset without any edge dimension: outside the quantifier
            continue
        if two_guess_wrong and tname in ('edge_node', 'edge_face'):
            continue
        if got != truth[tname]:
            fail('supplied-table-not-used', f'{tname} supplied as {rows_str(truth[tname])}, '
                 f'{key_of[tname]} = {rows_str(got) if got is not None else obs.errs[key_of[tname]]}')
    if not has_edge:
        # no edge dimension declared or implied: outside the quantifier of the property
        return
    if any(sig == 'ugrid-two-dimension-guess-drops-supplied-edge-table' for sig, _ in found):
        # everything below would only repeat the consequences of the dropped table
        return

    # --- derived tables against the face-node table ----------------------------------------
    en, fe, ef, ff = (obs.tables[k] for k in ('en', 'fe', 'ef', 'ff'))
    if en is None:
        fail('derived-table-raises', f'en raised {obs.errs["en"]} on a valid mesh with an edge dimension')
        return
    all_pairs = [p for f in faces for p in pairs_of(f)]
    if 'edge_node' not in expect_valid:
        # (stated before the other tables are looked at: they are built on this one)
        got = [frozenset(r) for r in en]
        if any(len(r) != 2 or None in r for r in en) or len(set(got)) != len(got) or set(got) != set(all_pairs):
            fail('edges-spec', f'derived edges {rows_str(en)[:300]} are not exactly the consecutive node pairs of the faces, each once')
            return
    for k in ('fe', 'ef', 'ff'):
        if obs.tables[k] is None:
            fail('derived-table-raises', f'{k} raised {obs.errs[k]} on a valid mesh with an edge dimension')
            return
    # the edge numbering is pinned by the first of: supplied edge_node, supplied face_edge, supplied edge_face
    pinned_inconsistent = 'edge_node' not in expect_valid and 'face_edge' in expect_valid
    # --- a supplied table that numbers the edges is the numbering of a derived edge_node table --------
    # (stated from the tables the generator wrote, not from what emsarray returned for them)
    ignored = None
    if 'edge_node' not in expect_valid and 'face_edge' in expect_valid:
        want_fe = ex['face_edges']
        bad = [(fi, c) for fi, f in enumerate(faces) for c, p in enumerate(pairs_of(f))
               if not (0 <= want_fe[fi][c] < len(en)) or frozenset(en[want_fe[fi][c]]) != p]
        if bad:
            fi, c = bad[0]
            k = want_fe[fi][c]
            ignored = (f'face_edge is supplied and edge_node is derived: edge_node_array[face_edge[{fi}][{c}] = {k}] = '
                       f'{en[k] if 0 <= k < len(en) else "(no such row)"} is not side {c} of face {fi}, '
                       f'{sorted(pairs_of(faces[fi])[c])} ({len(bad)} such sides)')
    elif 'edge_node' not in expect_valid and 'edge_face' in expect_valid:
        containing: dict = {}
        for fi, f in enumerate(faces):
            for p in pairs_of(f):
                containing.setdefault(p, set()).add(fi)
        want_ef = ex['edge_face_rows']
        bad = [e for e, row in enumerate(want_ef)
               if e >= len(en) or set(compress(row)) != containing.get(frozenset(en[e]), set())]
        if len(want_ef) != len(en):
            bad = bad or [min(len(want_ef), len(en))]
        if bad:
            e = bad[0]
            ignored = (f'edge_face is supplied and edge_node is derived: row {e} of edge_face lists faces '
                       f'{compress(want_ef[e]) if e < len(want_ef) else "(no such row)"}, but the faces containing '
                       f'edge_node_array[{e}] = {en[e] if e < len(en) else "(no such row)"} are '
                       f'{sorted(containing.get(frozenset(en[e]), set())) if e < len(en) else "-"} ({len(bad)} such edges)')
    if ignored:
        fail('derived-edge-node-ignores-supplied-numbering', ignored)
    # J1: a face's edges are its consecutive node pairs
    j1 = len(fe) == len(faces) and all(
        len(row) == width
        and [None if k is None or not (0 <= k < len(en)) else frozenset(en[k]) for k in row[:len(f)]] == pairs_of(f)
        and all(k is None for k in row[len(f):])
        for f, row in zip(faces, fe))
    # J2: an edge lists exactly the faces that contain it
    # (which faces have a given node pair as a side, once per occurrence: a plain tabulation of the faces)
    sides: dict = {}
    for fi, f in enumerate(faces):
        for p in pairs_of(f):
            sides.setdefault(p, []).append(fi)
    j2 = len(ef) == len(en) and all(
        len(row) == 2 and sorted(compress(row)) == sorted(sides.get(frozenset(en[k]), []))
        for k, row in enumerate(ef))
    # J3: adjacency is symmetric and means sharing an edge: g is listed by f once per side they have in
    # common (a relation that is symmetric by construction)
    j3 = len(ff) == len(faces) and all(
        len(row) == width and sorted(compress(row)) == sorted(
            gi for p in pairs_of(f) for gi in sides[p] if gi != fi)
        for (fi, f), row in zip(enumerate(faces), ff))
    if ignored:
        # (J1 / J2 below would only repeat it)
        pass
    elif pinned_inconsistent:
        if not (j1 and j2):
            fail('ugrid-derived-edge-node-ignores-supplied-face-edge-numbering',
                 'face_edge is supplied, edge_node is derived with its own numbering: '
                 f'edge_node_array[face_edge_array[f][c]] is not the c-th node pair of face f (J1={j1}, J2={j2})')
    else:
        if not j1:
            fail('face-edge-spec', f'face_edge {rows_str(fe)} vs edge_node {rows_str(en)}: a face\'s edges are not its consecutive node pairs')
        if not j2:
            fail('edge-face-spec', f'edge_face {rows_str(ef)}: an edge does not list exactly the faces that contain it')
    if not j3:
        fail('face-face-spec', f'face_face {rows_str(ff)}: adjacency is not "shares an edge" / not symmetric')


# ---------------------------------------------------------------------------
# case generation

def enc_key(enc: dict, opt: dict) -> tuple:
    return (enc.get('start_index'), enc.get('fill'), enc.get('transposed'), tuple(enc.get('tables', [])),
            enc.get('edge_dim_declared'), enc.get('coords_as', 'vars'), enc.get('face_coords'),
            enc.get('start_index_spelling', 'int'), bool(opt.get('netcdf')), bool(opt.get('drop_edge_id')),
            enc.get('fill_spec', 'i4big'), opt.get('relook'), str(opt.get('storage')),
            tuple(enc.get('other_base_tables', [])), enc.get('explicit_start_index', True))


def is_uniform(faces: list) -> bool:
    return len({len(f) for f in faces}) == 1


QUIRK_OF = {
    'ugrid-node-coords-as-coordinates-keyerror': 'c',
    'ugrid-face-coords-as-coordinates-ignored': 'c',
    'ugrid-two-dimension-guess-drops-supplied-edge-table': 't',
}


def one_case(ctx, items: list, recipe: dict, expect_valid: set | None, kind: str, to_model: bool = True) -> Observed | None:
    """build, observe, run the oracle, queue the correspondence line.

    Where the oracle reports one of the recorded deviations (QUIRK_OF), the line is queued in
    `ctx.c10_flagged` instead: the real output must then equal the primary model or the model with
    exactly that deviation switched on (DESIGN.md section 3); anything else is a disagreement."""
    built, obs, line = observe(recipe)
    desc = {'recipe': recipe, 'kind': kind}
    ctx.count(f'kind:{kind}')
    if obs.second is not None:
        ctx.count(f"relook:{recipe['c10']['relook']}")
    raised = oracle(ctx, recipe, built, obs, expect_valid) if expect_valid is not None else set()
    quirks = ''.join(sorted({QUIRK_OF[s] for s in raised if s in QUIRK_OF}))
    if not to_model:
        # judged by the direct oracle only (medium meshes: the interpreted model needs a second for each)
        ctx.evaluated(1)
    elif quirks:
        ctx.c10_flagged.append((line, f'{line} Q={quirks}', obs.line(), desc))
    else:
        items.append((line, obs.line(), desc))
    return obs


def settle_flagged(ctx) -> None:
    flagged = ctx.c10_flagged
    if not flagged or ctx.driver is None:
        return
    outs = ctx.model([f[0] for f in flagged] + [f[1] for f in flagged])
    n = len(flagged)
    for k, (line, qline, impl, desc) in enumerate(flagged):
        ctx.evaluations += 1
        ctx.traces += 1
        primary, quirk = outs[k], outs[n + k]
        if impl == primary:
            continue
        if impl == quirk:
            ctx.count('impl=recorded-deviation')
            continue
        ctx.disagree(qline, impl, f'{primary}   (or, with the recorded deviation: {quirk})', desc)


def product_cases(ctx, items: list, mesh: dict, counter: list) -> None:
    """the full encoding product of the quantifier on one mesh"""
    rng = ctx.rng
    subsets = [list(s) for n in range(5) for s in itertools.combinations(M.TABLES, n)]
    uniform = is_uniform(mesh['faces'])
    fills = ['nan', 'attr', 'nc'] + (['none'] if uniform else [])
    edges = M.shuffled_edges(rng, mesh['faces'])
    reference = None
    for base, fill, transposed, tables, declared in itertools.product([0, 1], fills, [False, True], subsets, [False, True]):
        enc = {'start_index': base, 'fill': 'attr' if fill == 'nc' else fill, 'transposed': transposed,
               'tables': tables, 'edge_dim_declared': declared}
        opt = {}
        if fill == 'nc':
            # true netCDF round trips are slow: quick tier does every fourth of them
            counter[0] += 1
            if counter[0] % 4 != 0 and not ctx.thorough:
                continue
            opt['netcdf'] = True
        if declared and not set(tables) & {'edge_node', 'edge_face'} and rng.random() < 0.3:
            opt['drop_edge_id'] = True
        counter[1] += 1
        if counter[1] % 4 == 0:
            # every fourth encoding is normalised twice (second dataset object over the same variables)
            opt['relook'] = X.RELOOKS[(counter[1] // 4) % len(X.RELOOKS)]
        recipe = {'conv': 'ugrid', 'nodes': mesh['nodes'], 'faces': mesh['faces'], 'edges': edges, 'enc': enc}
        if opt:
            recipe['c10'] = opt
        obs = one_case(ctx, items, recipe, set(tables), 'product')
        ctx.nontrivial((mesh['name'], enc_key(enc, opt)))
        # the literal statement: identical faces and polygons whatever the encoding
        ident = (obs.tables['fn'], obs.poly)
        if reference is None and obs.tables['fn'] is None:
            continue
        if reference is None:
            reference = ident
        elif ident != reference and obs.tables['fn'] is not None:
            ctx.count('oracle:encoding-changes-faces')
            if ctx.distribution['oracle:encoding-changes-faces'] <= PER_SIGNATURE:
                ctx.oracle_fail('encoding-changes-faces', {'recipe': recipe, 'expect_valid': sorted(tables)},
                                'face_node_array / polygons differ from those of the first encoding of the same mesh')


def next_relook(ctx) -> str:
    """the ways of looking twice, walked round-robin (no draw from the random stream)"""
    ctx.c10_relooks = getattr(ctx, 'c10_relooks', 0) + 1
    return X.RELOOKS[ctx.c10_relooks % len(X.RELOOKS)]


def sampled_cases(ctx, items: list, mesh: dict) -> None:
    """options outside the product: spelling of start_index, padding, dimension names, face dimension
    undeclared, coordinates as variables or as xarray coordinates"""
    rng = ctx.rng
    uniform = is_uniform(mesh['faces'])
    for _ in range(ctx.budget(4, 12)):
        tables = [t for t in M.TABLES if rng.random() < 0.5]
        enc = {'start_index': rng.choice([0, 1]),
               'fill': rng.choice(['nan', 'attr'] + (['none'] if uniform else [])),
               'transposed': rng.random() < 0.4, 'tables': tables,
               'edge_dim_declared': rng.random() < 0.5,
               'start_index_spelling': rng.choice(['int', 'int', 'str', 'np']),
               'pad': rng.choice([0, 0, 1, 2]),
               'face_dim_declared': rng.random() < 0.5}
        if enc['pad'] and enc['fill'] == 'none':
            enc['fill'] = 'nan'
        if enc['start_index'] == 0 and rng.random() < 0.3:
            enc['explicit_start_index'] = False
        recipe = {'conv': 'ugrid', 'nodes': mesh['nodes'], 'faces': mesh['faces'],
                  'edges': M.shuffled_edges(rng, mesh['faces']), 'enc': enc}
        opt = {}
        if rng.random() < 0.25 and enc['fill'] == 'attr':
            opt['netcdf'] = True
            if rng.random() < 0.6:
                enc['fill_spec'] = rng.choice(['low', 'low', 'neg', 'u4max', 'i2'])
        elif rng.random() < 0.3 and enc['fill'] != 'nan':
            opt['int_dtype'] = rng.choice(['int64', 'uint32'])
        elif enc['fill'] == 'attr':
            # integer fill values of every kind: falsy, negative, beyond the int32 range, narrow types
            enc['fill_spec'] = rng.choice(['low', 'neg', 'u4max', 'i8max', 'i2'])
        if rng.random() < 0.3:
            recipe['names'] = {'face_dim': 'nface', 'node_dim': 'nnode', 'edge_dim': 'nedge',
                               'max_dim': 'nmax', 'two_dim': rng.choice(['Two', 'two', 'nv'])}
        opt['relook'] = next_relook(ctx)
        recipe['c10'] = opt
        one_case(ctx, items, recipe, set(tables), 'sampled')
        ctx.nontrivial((mesh['name'], enc_key(enc, opt), str(recipe.get('names'))))
    for coords_as, face_coords in itertools.product(['vars', 'coords'], [None, 'vars', 'coords']):
        tables = [t for t in M.TABLES if rng.random() < 0.5]
        enc = {'start_index': rng.choice([0, 1]), 'fill': rng.choice(['nan', 'attr']),
               'transposed': rng.random() < 0.3, 'tables': tables, 'edge_dim_declared': True,
               'coords_as': coords_as, 'face_coords': face_coords}
        recipe = {'conv': 'ugrid', 'nodes': mesh['nodes'], 'faces': mesh['faces'],
                  'edges': M.shuffled_edges(rng, mesh['faces']), 'enc': enc, 'c10': {'relook': next_relook(ctx)}}
        one_case(ctx, items, recipe, set(tables), 'coords')
        ctx.nontrivial((mesh['name'], enc_key(enc, recipe['c10'])))


def run(ctx) -> None:
    rng = ctx.rng
    items: list = []
    ctx.c10_flagged = []
    start_index_cases(ctx, items)
    # minimised inputs of past findings: always first
    import json
    import pathlib
    for path in sorted((pathlib.Path(__file__).resolve().parent.parent / 'corpus' / 'c10').glob('*.json')):
        case = json.loads(path.read_text())
        one_case(ctx, items, case['recipe'], set(case['expect_valid']), 'corpus')
        ctx.nontrivial(('corpus', path.name))
    pool = M.mesh_pool(rng, ctx.tier, ctx.budget(5, 30))
    specials = [m for m in pool if not m['name'].startswith('lattice')]
    lattices = [m for m in pool if m['name'].startswith('lattice')]
    # smallest meshes first, so that the first failing input of any kind is a small one
    for mesh in specials:
        sampled_cases(ctx, items, mesh)
    # a size-2 dimension other than the edge tables' second dimension
    for mesh in [m for m in pool if m['name'] in ('two-quads', 'octagon')]:
        for two in ['Two', 'nv']:
            enc = {'start_index': 0, 'fill': 'nan', 'transposed': False, 'tables': ['edge_node', 'edge_face'],
                   'edge_dim_declared': True}
            recipe = {'conv': 'ugrid', 'nodes': mesh['nodes'], 'faces': mesh['faces'],
                      'edges': M.shuffled_edges(rng, mesh['faces']), 'enc': enc,
                      'names': {'two_dim': two}}
            if mesh['name'] == 'octagon':
                recipe['c10'] = {'extra_dim_first': ['time', 2]}
            one_case(ctx, items, recipe, {'edge_node', 'edge_face'}, 'two-dimension')
            ctx.nontrivial((mesh['name'], 'two-dim', two))
    # full encoding product: the uniform mesh (the only one that needs no fill value), one mixed
    # special mesh, the random lattices
    counter = [0, 0]
    for mesh in [m for m in specials if m['name'] in ('uniform-quads', 'octagon', 'tetrahedron')] + lattices:
        product_cases(ctx, items, mesh, counter)
    ctx.exhaustive = True
    for mesh in lattices:
        sampled_cases(ctx, items, mesh)
    storage_cases(ctx, items, pool)
    mixed_base_cases(ctx, items, pool)
    history_cases(ctx, items, pool)
    follow_cases(ctx, items, pool)
    malformed(ctx, items, pool)
    # conclusions of the theorems, evaluated on the model
    for mesh in pool:
        width = max(len(f) for f in mesh['faces'])
        items.append((f"propcheck w={width} faces={M.rows_token(mesh['faces'])}", 'ok', {'mesh': mesh['name'], 'kind': 'propcheck'}))
    if ctx.searching and ctx.driver is None:
        ctx.evaluated(len(items) + len(ctx.c10_flagged))
        return
    ctx.check_batch(items)
    settle_flagged(ctx)


def mixed_base_cases(ctx, items: list, pool: list) -> None:
    """`start_index` is an attribute of EACH connectivity table: one file may count its nodes from one in
    face_node and its edges from zero in edge_node (or the reverse, or say nothing on the zero-based ones).
    Every pool mesh x non-empty sets of supplied tables x which tables are on the other base (face_node alone,
    one supplied table, all supplied tables, face_node and one supplied table) x base x fill kind x spelling /
    omission of the attribute: the normalised topology is that of the mesh, every supplied table as given."""
    subsets = [list(s) for n in range(1, 5) for s in itertools.combinations(M.TABLES, n)]
    n = 0
    for m, mesh in enumerate(pool):
        faces = mesh['faces']
        edges = M.shuffled_edges(ctx.rng, faces)
        # (small special meshes: every subset; the others: a walk through the subsets)
        mine = subsets if len(faces) <= 3 or ctx.thorough else [subsets[(m + 4 * k) % len(subsets)] for k in range(4)]
        for tables in mine:
            mixes = X.base_mixes(tables)
            for mix in (mixes if ctx.thorough or len(faces) <= 2 else [mixes[(n + k) % len(mixes)] for k in range(2)]):
                n += 1
                fill = ('nan', 'attr', 'attr', 'nan', 'nc')[n % 5]
                opt = {}
                if fill == 'nc':
                    fill = 'attr'
                    if ctx.thorough or n % 10 == 4:
                        opt['netcdf'] = True
                enc = {'start_index': n % 2, 'fill': fill, 'transposed': n % 7 == 3, 'tables': list(tables),
                       'edge_dim_declared': n % 3 != 0, 'other_base_tables': list(mix)}
                if n % 4 == 1:
                    # the zero-based tables say nothing about their base
                    enc['explicit_start_index'] = False
                if n % 6 == 2:
                    enc['start_index_spelling'] = 'np'
                if fill == 'attr' and n % 3 == 1:
                    enc['fill_spec'] = ('low', 'neg', 'i2')[(n // 3) % 3]
                if n % 8 == 5:
                    opt['relook'] = next_relook(ctx)
                recipe = {'conv': 'ugrid', 'nodes': mesh['nodes'], 'faces': faces, 'edges': edges, 'enc': enc}
                if opt:
                    recipe['c10'] = opt
                one_case(ctx, items, recipe, set(tables), 'mixed-base')
                ctx.nontrivial((mesh['name'], 'mixed-base', enc_key(enc, opt)))
                ctx.count('mixed-base:' + ('face_node' if mix == ['face_node'] else
                                           'supplied' if 'face_node' not in mix else 'face_node+supplied'))


HISTORY_TABLES = [[], ['edge_node'], ['face_edge'], ['edge_face'], ['face_face'], ['edge_node', 'face_edge'],
                  ['edge_face', 'face_face']]


def history_cases(ctx, items: list, pool: list) -> None:
    """A dataset is not the first one a process looks at. Two ordinary histories, each ending with a valid
    mesh whose normalised topology must be that of ITS faces:
    'replaced'  another mesh on the same nodes (the faces in another order / fewer of them / each begun at
                another corner; possibly with other optional tables) was written to the same path, opened and
                all its tables asked for; the file is then replaced and opened again;
    'isel'      a file is opened, all its tables asked for, and its faces are reordered (tables supplied:
                none or edge_node, the only one that does not name faces) or some of them taken
                (`Dataset.isel` along the face dimension; no edge variable in the file).
    Three in four go through a real netCDF file (the dataset knows its source), the others stay in memory.
    The model sees the last dataset only: what came before is no part of the mesh."""
    rng = ctx.rng
    n = 0
    for mesh in pool:
        faces = mesh['faces']
        if len(faces) < 2:
            continue
        for _rep in range(ctx.budget(1, 2)):
            others = X.earlier_meshes(rng, faces)
            for kind in ('reordered', 'fewer', 'rewound', 'isel-reordered', 'isel-fewer', 'isel-reordered'):
                n += 1
                opt = {}
                if n % 4 != 3:
                    opt['netcdf'] = True
                enc = {'start_index': n % 2, 'fill': 'attr' if n % 3 else 'nan',
                       'transposed': n % 5 == 2, 'edge_dim_declared': True}
                if kind.startswith('isel'):
                    if kind == 'isel-fewer':
                        tables = []
                        opt['drop_edge_id'] = True
                        mine = others['fewer']
                        rng.shuffle(mine)
                        file_faces, file_edges = faces, None
                        edges = None
                    else:
                        tables = [[], ['edge_node']][(n // 6) % 2]
                        mine = others['reordered']
                        file_faces = faces
                        edges = file_edges = M.shuffled_edges(rng, faces)
                    opt['history'] = {'how': 'isel', 'file_faces': file_faces, 'file_edges': file_edges}
                else:
                    mine = faces
                    tables = HISTORY_TABLES[n % len(HISTORY_TABLES)]
                    earlier = others[kind]
                    if kind == 'fewer':
                        # (the earlier file has its own edges)
                        early_tables = [[], ['face_face']][n % 2]
                        early_edges = None
                    else:
                        early_tables = HISTORY_TABLES[(n // 2) % len(HISTORY_TABLES)]
                        early_edges = M.shuffled_edges(rng, earlier)
                    edges = M.shuffled_edges(rng, faces)
                    opt['history'] = {'how': 'replaced',
                                      'earlier': [{'faces': earlier, 'edges': early_edges, 'tables': early_tables}]}
                enc['tables'] = list(tables)
                recipe = {'conv': 'ugrid', 'nodes': mesh['nodes'], 'faces': mine, 'edges': edges, 'enc': enc, 'c10': opt}
                one_case(ctx, items, recipe, set(tables), 'history')
                ctx.nontrivial((mesh['name'], 'history', n, kind, enc_key(enc, opt)))
                ctx.count(f"history:{kind}:{'file' if opt.get('netcdf') else 'memory'}")


FOLLOW_TABLES = [['face_edge'], ['edge_face'], ['face_edge', 'edge_face'], ['face_edge', 'face_face'],
                 ['edge_face', 'face_face'], ['face_edge', 'edge_face', 'face_face']]


def edge_node_item(line: str, obs: Observed, desc: dict) -> tuple:
    """the correspondence item of the `edgenode` op: face_node, edge_node, face_edge only"""
    assert line.startswith('topo ')
    return ('edgenode ' + line[len('topo '):], '|'.join(obs.line().split('|')[:3]), desc)


def table_token(rows: list) -> str:
    return 'e' if not rows else ';'.join(','.join('-' if v is None else str(v) for v in row) for row in rows)


def follow_cases(ctx, items: list, pool: list) -> None:
    """The NUMBERING of derived edges. The dataset supplies face_edge and / or edge_face (tables that number
    the edges) but no edge_node table: the derived edge_node table must be in that numbering. Every pool mesh,
    in freshly shuffled numberings that differ from the order in which the edges are first seen walking the
    faces (the order a derivation that ignores the supplied table would produce, up to its own accidents),
    both bases, every fill kind, both layouts of a boundary row, normal / transposed. The model computes the
    numbering from the supplied table; the comparison of edge_node_array is exact, row by row.
    Then supplied tables that do not describe the mesh (compared with the model, not judged by the oracle)."""
    rng = ctx.rng
    n = 0
    for mesh in pool:
        faces = mesh['faces']
        first_seen = [frozenset(e) for e in G.mesh_edges(faces)]
        owner: dict = {}
        for fi, f in enumerate(faces):
            for p in pairs_of(f):
                owner.setdefault(p, []).append(fi)
        for _rep in range(ctx.budget(2, 3)):
            edges = M.shuffled_edges(rng, faces)
            for _ in range(8):
                if [frozenset(e) for e in edges] != first_seen:
                    break
                edges = M.shuffled_edges(rng, faces)
            number = {frozenset(e): k for k, e in enumerate(edges)}
            differs = [frozenset(e) for e in edges] != first_seen
            # boundary sides of one face (interchangeable for an edge_face table) numbered in another order than first seen
            reordered = False
            for fi in range(len(faces)):
                mine = [number[p] for p in first_seen if owner[p] == [fi]]
                reordered = reordered or mine != sorted(mine)
            for tables in FOLLOW_TABLES:
                n += 1
                fill = ('nan', 'attr', 'nc')[(n // 2) % 3]
                opt = {}
                if fill == 'nc':
                    if not ctx.thorough and n % 4 >= 2:
                        fill = 'attr'
                    else:
                        fill, opt['netcdf'] = 'attr', True
                enc = {'start_index': n % 2, 'fill': fill, 'transposed': n % 5 == 3, 'tables': list(tables),
                       # (face_edge alone implies no edge dimension: it has to be declared)
                       'edge_dim_declared': 'edge_face' not in tables or n % 3 == 0,
                       'edge_face_missing_first': n % 4 < 2}
                if fill == 'attr' and n % 7 == 0:
                    enc['fill_spec'] = ('low', 'neg', 'u4max')[(n // 7) % 3]
                if n % 6 == 5:
                    opt['relook'] = next_relook(ctx)
                if n % 3 == 1:
                    # (the table that numbers the edges need not count from where face_node counts from)
                    mixes = X.base_mixes(tables)
                    enc['other_base_tables'] = mixes[(n // 3) % len(mixes)]
                recipe = {'conv': 'ugrid', 'nodes': mesh['nodes'], 'faces': faces, 'edges': edges, 'enc': enc}
                if opt:
                    recipe['c10'] = opt
                one_case(ctx, items, recipe, set(tables), 'follow')
                ctx.nontrivial((mesh['name'], 'follow', n, enc_key(enc, opt)))
                ctx.count('follow:' + '+'.join(tables))
                if differs:
                    ctx.count('follow:supplied-numbering-differs-from-first-seen')
                if reordered and 'face_edge' not in tables:
                    ctx.count('follow:interchangeable-boundary-sides-reordered')
            # the conclusions of the theorems on the model, for this mesh and numbering
            built = M.build({'conv': 'ugrid', 'nodes': mesh['nodes'], 'faces': faces, 'edges': edges,
                             'enc': {'tables': [], 'edge_dim_declared': True}})
            ex = built.extra
            items.append((f"followcheck w={ex['maxn']} faces={M.rows_token(faces)} "
                          f"fe={table_token([pad(r, ex['maxn']) for r in ex['face_edges']])} "
                          f"ef={table_token(ex['edge_face_rows'])}", 'ok',
                          {'mesh': mesh['name'], 'kind': 'followcheck', 'edges': edges}))
    # supplied tables that do not describe the mesh
    by_name = {m['name']: m for m in pool}
    lattices = [m for m in pool if m['name'].startswith('lattice')]
    for mesh in [by_name['one-triangle'], by_name['two-quads'], by_name['octagon'], by_name['fan']] + lattices[:2]:
        faces = mesh['faces']
        edges = M.shuffled_edges(rng, faces)
        ne = len(edges)
        number = {frozenset(e): k for k, e in enumerate(edges)}
        fe0 = [number[p] for p in pairs_of(faces[0])]
        last = len(faces) - 1
        broken = [
            ('face_edge', [[0, 0, ne]]),            # an entry one beyond the edges: IndexError
            ('face_edge', [[0, 1, ne + 5]]),
            ('face_edge', [[0, 0, -1]]),            # a negative entry counts from the end (numpy)
            ('face_edge', [[last, 1, -ne]]),
            ('face_edge', [[0, 0, -ne - 1]]),       # beyond the beginning: IndexError
            ('face_edge', [[0, 0, None]]),          # masked where the face has a side: IndexError
            ('face_edge', [[0, 0, fe0[1]]]),        # two sides numbered alike: a masked row
            ('face_edge', [[0, 0, fe0[1]], [0, 1, fe0[0]]]),   # two entries swapped: still one number per side
            ('edge_face', [[0, 0, last], [0, 1, None]]),       # a row listing other faces
            ('edge_face', [[0, 0, None], [0, 1, None]]),       # a row listing no face at all
            ('edge_face', [[ne - 1, 0, 0], [ne - 1, 1, 0]]),   # the same face twice: one face as a set
            ('edge_face', [[0, 0, len(faces)]]),               # a face that does not exist
        ]
        for k, (key, edits) in enumerate(broken):
            for tables in ([key], [key, 'face_face'], ['face_edge', 'edge_face']):
                if tables[-1] == 'face_face' and k % 3:
                    continue
                enc = {'start_index': (k + len(tables)) % 2, 'fill': 'attr' if k % 2 else 'nan', 'transposed': k % 4 == 3,
                       'tables': tables, 'edge_dim_declared': True}
                recipe = {'conv': 'ugrid', 'nodes': mesh['nodes'], 'faces': faces, 'edges': edges, 'enc': enc,
                          'c10': {'corrupt': {key: edits}}}
                # (compared: face_node, edge_node, face_edge -- what make_edge_face_array / make_face_face_array do
                # with a negative edge index or a row naming one face twice is outside the model)
                built, obs, line = observe(recipe)
                items.append(edge_node_item(line, obs, {'recipe': recipe, 'kind': 'follow-broken'}))
                ctx.count('kind:follow-broken')
                ctx.nontrivial((mesh['name'], 'follow-broken', k, tuple(tables)))


NOFILL_TABLES = [[], ['face_edge'], ['edge_node'], ['edge_node', 'face_edge']]
FILL_TABLES = [[], ['edge_face', 'face_face'], ['face_edge'], list(M.TABLES)]


def storage_cases(ctx, items: list, pool: list) -> None:
    """The integer type the file stores its index tables in (`i1 u1 i2 u2 i4 u4 i8`): the same mesh, with the
    same index base / fill representation / supplied tables, must give the same topology whatever that type
    is -- in particular where the type is only just wide enough for the indexes (node count squared, index +
    base, fill value at the edge of the range no longer fit). Small meshes: every type x base x tables;
    medium meshes (about 200 nodes, so that 16-bit types are at that edge too): the narrowest signed and
    unsigned type that fits, one wide type, and the float / NaN representation looked at twice."""
    rng = ctx.rng
    lattices = [m for m in pool if m['name'].startswith('lattice')]
    small = [m for m in pool if m['name'] == 'uniform-quads'] + (lattices if ctx.thorough else lattices[:2])
    dtypes = X.STORAGE_DTYPES if ctx.thorough else [d for d in X.STORAGE_DTYPES if d not in ('i4', 'u4')]

    def case(mesh, edges, dtype, base, fill, spec, sfill, tables, relook=None, to_model=True):
        ctx.c10_storage = getattr(ctx, 'c10_storage', 0) + 1
        enc = {'start_index': base, 'fill': fill, 'transposed': ctx.c10_storage % 3 == 2,
               'tables': list(tables), 'edge_dim_declared': True}
        if fill == 'attr':
            enc['fill_spec'] = spec
        opt = {}
        if dtype is not None:
            opt['storage'] = {'dtype': dtype, 'fill': sfill}
        if relook:
            opt['relook'] = relook
        recipe = {'conv': 'ugrid', 'nodes': mesh['nodes'], 'faces': mesh['faces'], 'edges': edges, 'enc': enc, 'c10': opt}
        if dtype is not None and 'Mesh2_face_nodes' not in build(recipe).extra['storage_cast']:
            ctx.count('storage:face-node-table-does-not-fit')
            return
        one_case(ctx, items, recipe, set(tables), 'storage', to_model)
        ctx.count(f'storage:{dtype or "float"}')
        ctx.nontrivial((mesh['name'], 'storage', enc_key(enc, opt)))

    for mesh in small:
        uniform = is_uniform(mesh['faces'])
        edges = M.shuffled_edges(rng, mesh['faces'])
        for dtype, base in itertools.product(dtypes, (0, 1)):
            if uniform:
                for tables in NOFILL_TABLES:
                    case(mesh, edges, dtype, base, 'none', None, 'keep', tables)
            for k, tables in enumerate(FILL_TABLES):
                if (k + base) % 2 == 0:
                    case(mesh, edges, dtype, base, 'attr', 'i4big', 'max', tables, next_relook(ctx) if k == 1 else None)
                else:
                    case(mesh, edges, dtype, base, 'attr', 'low', 'keep', tables)
    sizes = [13, 14] + ([15, 16] if ctx.thorough else [])
    n = rng.choice(sizes)
    grid = X.uniform_grid(rng, n)
    mixed = X.mixed_grid(rng, rng.choice(sizes))
    for mesh in (grid, mixed):
        nodes = len(mesh['nodes'])
        edges = M.shuffled_edges(rng, mesh['faces'])
        uniform = is_uniform(mesh['faces'])
        # the narrowest signed / unsigned type that holds every index (and base, and a fill value), a wide one
        signed = 'i1' if nodes + 1 < 127 else 'i2'
        unsigned = 'u1' if nodes + 1 < 255 else 'u2'
        combos = [(signed, 0), (unsigned, 1), (unsigned, 0), ('i8', 1)] + ([(signed, 1), ('i8', 0)] if ctx.thorough else [])
        for k, (dtype, base) in enumerate(combos):
            # (the first of each mesh also goes through the model, the others are judged by the oracle alone)
            if uniform:
                case(mesh, edges, dtype, base, 'none', None, 'keep', [], to_model=k == 0)
            else:
                case(mesh, edges, dtype, base, 'attr', 'i4big', 'max', [], to_model=k == 0)
        case(mesh, edges, signed, 0, 'attr', 'i4big', 'max', ['edge_face', 'face_face'], to_model=False)
        case(mesh, edges, None, 1, 'nan', None, None, ['edge_face'], next_relook(ctx), to_model=False)


def start_index_cases(ctx, items: list) -> None:
    try:
        from emsarray.conventions.ugrid import _get_start_index
        from emsarray.exceptions import ConventionViolationWarning
    except ImportError:
        ctx.notes.append('_get_start_index not importable: start_index checked through datasets only')
        return
    import xarray as xr
    cases = [('-', None), ('i0', 0), ('i1', 1), ('i1', np.int32(1)), ('i0', np.int64(0)), ('i1', True), ('i0', False),
             ('s0', '0'), ('s1', '1'), ('i2', 2), ('i-1', -1), ('i10', 10), ('s2', '2'), ('sone', 'one'),
             ('s01', '01'), ('s1.0', '1.0'), ('o', None), ('o', [1]), ('o', 1.5)]
    for tok, value in cases:
        attrs = {} if tok == '-' else {'start_index': value}
        da = xr.DataArray([1, 2, 3], dims=['index'], name='connectivity', attrs=attrs)
        with warnings.catch_warnings(record=True) as w:
            warnings.simplefilter('always')
            try:
                got = _get_start_index(da)
                out = str(int(got)) + ('!' if any(issubclass(x.category, ConventionViolationWarning) for x in w) else '')
                accepted = True
            except Exception as e:  # noqa: BLE001
                out = 'ERR:convention'   # refused; the exception class is not part of the property
                accepted = False
        items.append((f'startindex {tok}', out, {'start_index': repr(value), 'kind': 'startindex'}))
        ctx.nontrivial(('startindex', tok, repr(value)))
        # direct oracle
        valid = tok in ('-', 'i0', 'i1', 's0', 's1')
        if valid and not accepted:
            ctx.oracle_fail('start-index-refused', {'start_index': repr(value)}, f'start_index {value!r} refused')
        if not valid and accepted:
            ctx.oracle_fail('start-index-accepted', {'start_index': repr(value)}, f'invalid start_index {value!r} accepted as {out}')
        if valid and accepted:
            want = {'-': '0', 'i0': '0', 'i1': '1', 's0': '0!', 's1': '1!'}[tok]
            if out != want:
                ctx.oracle_fail('start-index-value', {'start_index': repr(value)}, f'start_index {value!r} read as {out}, expected {want}')


def malformed(ctx, items: list, pool: list) -> None:
    rng = ctx.rng
    by_name = {m['name']: m for m in pool}
    lattices = [m for m in pool if m['name'].startswith('lattice')]
    meshes = [by_name['octagon'], by_name['fan']] + lattices[:2]
    for mesh in meshes:
        edges = M.shuffled_edges(rng, mesh['faces'])
        base = {'conv': 'ugrid', 'nodes': mesh['nodes'], 'faces': mesh['faces'], 'edges': edges}
        all_tables = list(M.TABLES)
        # invalid start_index on the face-node table, or on one optional table only
        for var, val in [('Mesh2_face_nodes', ('int', 2)), ('Mesh2_face_nodes', ('str', 'x')),
                         ('Mesh2_face_edges', ('int', 3)), ('Mesh2_edge_nodes', ('str', '2')),
                         ('Mesh2_face_links', ('int', -1)), ('Mesh2_face_nodes', ('del', 0))]:
            enc = {'start_index': 0 if val[0] == 'del' else 1, 'fill': 'attr', 'transposed': rng.random() < 0.5, 'tables': all_tables}
            recipe = dict(base, enc=enc, c10={'set_start_index': {var: list(val)}})
            one_case(ctx, items, recipe, None, 'bad-start-index')
            ctx.nontrivial((mesh['name'], 'bad-start', var, val))
        # a supplied table with the wrong dimensions / a dangling attribute: the derived table is used
        for key in M.TABLES:
            enc = {'start_index': 1, 'fill': 'nan', 'transposed': False, 'tables': all_tables, 'edge_dim_declared': True}
            recipe = dict(base, enc=enc, c10={'rename_second_dim': [key]})
            one_case(ctx, items, recipe, set(all_tables) - {key}, 'wrong-dims')
            enc = dict(enc, tables=[t for t in all_tables if t != key])
            recipe = dict(base, enc=enc, c10={'dangling_attr': [key]})
            one_case(ctx, items, recipe, set(enc['tables']), 'dangling-attr')
            ctx.nontrivial((mesh['name'], 'wrong-dims', key))
        # `_FillValue` of face_edge inside / at the border of / outside the index range
        n_edges = len(edges)
        for fill in [-1, 0, n_edges // 2, n_edges, n_edges + 1, n_edges + 2, 999999]:
            for start in (0, 1):
                enc = {'start_index': start, 'fill': 'nan', 'transposed': False, 'tables': ['edge_node', 'face_edge'],
                       'edge_dim_declared': True}
                recipe = dict(base, enc=enc, c10={'enc_fill': {'face_edge': fill}})
                inside = start <= fill <= n_edges + start
                one_case(ctx, items, recipe, {'edge_node'} | (set() if inside else {'face_edge'}), 'fill-in-range')
                ctx.nontrivial((mesh['name'], 'enc-fill', fill, start))
    # a mesh outside the valid class: three faces on one edge
    tri = [[0, 0], [2, 0], [0, 2], [2, 2], [-2, -2]]
    for tables in ([], ['edge_node'], ['edge_node', 'face_edge']):
        enc = {'start_index': 1, 'fill': 'nan', 'transposed': False, 'tables': tables, 'edge_dim_declared': True}
        recipe = {'conv': 'ugrid', 'nodes': tri, 'faces': [[0, 1, 2], [1, 0, 3], [0, 1, 4]], 'enc': enc}
        try:
            one_case(ctx, items, recipe, None, 'non-manifold')
        except IndexError:
            # the generator itself cannot tabulate three faces on one edge for the supplied tables
            continue
        ctx.nontrivial(('non-manifold', tuple(tables)))
    # no node_coordinates attribute: whatever needs the node count (`sensible_fill_value`) raises KeyError
    for fill, tables in (('nan', []), ('attr', ['edge_node']), ('attr', list(M.TABLES))):
        enc = {'start_index': 1, 'fill': fill, 'transposed': False, 'tables': tables, 'edge_dim_declared': True}
        recipe = {'conv': 'ugrid', 'nodes': tri, 'faces': [[0, 1, 2], [1, 3, 2]], 'enc': enc,
                  'c10': {'drop_mesh_attr': ['node_coordinates']}}
        one_case(ctx, items, recipe, None, 'missing-node-attr')
        ctx.nontrivial(('missing-node-attr', fill, tuple(tables)))
    # an edge table that lacks one edge of the mesh
    mesh = by_name['octagon']
    edges = G.mesh_edges(mesh['faces'])
    for tables in (['edge_node'], ['edge_node', 'edge_face']):
        recipe = {'conv': 'ugrid', 'nodes': mesh['nodes'], 'faces': mesh['faces'], 'edges': [list(e) for e in edges],
                  'enc': {'start_index': 0, 'fill': 'nan', 'tables': tables}, 'c10': {'truncate_edges': 1}}
        # build_ugrid needs the full edge list; the truncation is applied by rebuilding the variable
        one_case_truncated(ctx, items, recipe)


def one_case_truncated(ctx, items: list, recipe: dict) -> None:
    """supplied edge_node table without its last edge (the edge dimension shrinks accordingly)"""
    built = build(recipe)
    ds = built.ds
    edim = built.extra['names']['edge_dim']
    ds = ds.isel({edim: slice(0, ds.sizes[edim] - 1)})
    built.ds = ds
    built, obs, line = observe(recipe, built)
    items.append((line, obs.line(), {'recipe': recipe, 'kind': 'truncated-edge-table'}))
    ctx.count('kind:truncated-edge-table')
    ctx.nontrivial(('truncated', tuple(recipe['enc']['tables'])))


# ---------------------------------------------------------------------------
# replay

def replay(ctx, data) -> int:
    return util.generic_replay(ctx, data, run_one)


def run_one(ctx, inp: dict) -> dict:
    out = {}
    if 'recipe' in inp:
        recipe = inp['recipe']
        if inp.get('kind') == 'truncated-edge-table':
            items: list = []
            one_case_truncated(ctx, items, recipe)
            line, impl, _ = items[0]
        else:
            built, obs, line = observe(recipe)
            impl = obs.line()
            if inp.get('kind') == 'follow-broken':
                line, impl, _ = edge_node_item(line, obs, {})
            if obs.second is not None:
                out['impl[second look]'] = obs.second.line()
            if built.extra.get('storage_cast') is not None:
                out['tables held as ' + recipe['c10']['storage']['dtype']] = ','.join(built.extra['storage_cast']) or 'none'
            for k, e in obs.exc.items():
                out[f'raised[{k}]'] = f'{type(e).__name__}: {e}'
            if 'expect_valid' in inp:
                found = findings(recipe, built, obs, set(inp['expect_valid']))
                out['oracle'] = '; '.join(f'{sig}: {msg[:200]}' for sig, msg in found) or 'property holds on this input'
        out['impl'] = impl
        if ctx.driver:
            out['model'] = ctx.model([line])[0]
    elif 'start_index' in inp:
        out['impl'] = f"start_index {inp['start_index']}"
    return out
