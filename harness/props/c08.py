"""C08 — clipping keeps every selected value and blanks everything else."""
from __future__ import annotations

import copy
import os

import numpy as np
import xarray as xr

from harness import util
from harness.gen import c08_extra as CX
from harness.gen import clipgen as CG
from harness.gen import datasets as G
from harness.gen import geomspec as S
from harness.props.c02 import arr_str

ID = 'C08'
MODULE = 'EmsModel.Props.C08'
DRIVER = 'C08'
REQUIRED = ['Ems.C08.crop_get', 'Ems.C08.where_get', 'Ems.C08.grid_clip_spec', 'Ems.C08.fill_decision_table',
            'Ems.C08.unmaskable_never_altered', 'Ems.C08.selectRows_get', 'Ems.C08.governing_first',
            'Ems.C08.empty_mask_refused', 'Ems.C08.trueBounds_spec', 'Ems.C08.nothing_outside_survives',
            'Ems.C08.keptRows_spec', 'Ems.C08.meshRows_passthrough', 'Ems.C08.clip_end_to_end', 'Ems.C08.mesh_clip_end_to_end']
RULE = ('datasets of every convention (coordinates as xarray coordinates or plain variables; meshes with every subset of '
        'the optional connectivity tables, 0/1-based, NaN / _FillValue / no fill) with tagged variables: float, int '
        'without fill, int with _FillValue / missing_value, on faces / edges / nodes / no grid, dimensions in random '
        'order x clip geometries (box, cell, polygon, line, point, multi-part, touching a corner / an edge only, covering '
        'everything, hugging the border; and, once per dataset, a non-rectangular region whose bounding box encloses the '
        'whole grid while the region does not: L, U, frame with a hole, triangle, pieces in opposite corners, diagonal / '
        'V / cross of lines) x buffer 0..2; the mask applied directly, the one-step `clip()` call, and saved to netCDF, reloaded and '
        'applied to a second dataset with the same geometry and different tags. The returned dataset is loaded fully '
        '(so the per-variable files and open_mfdataset are exercised). Non-trivial: the mask keeps some but not all '
        'cells; distinct by (recipe, geometry wkt, buffer, variant).')
TRUSTED = ['xarray isel / where / to_netcdf / open_mfdataset and netCDF4 round-trip of the per-variable files (exercised, not modelled)',
           'the clip mask itself (C07) is taken as given: the model is fed the content of the mask dataset emsarray produced']
ASSUMPTIONS = ['file-level behaviour of the clip (temporary netCDF files, lazy loading) is runtime: compared, not proved']

FILL = {'f8': 'm', 'f4': 'm', 'i4': 'u', 'i8': 'u', 'u4': 'u', 'i4fill': 'm', 'i4missing': 'm', 'i4fill0': 'm'}


def tag_str(da, dtype: str) -> str:
    """canonical array string; the raw fill value -999 of a variable with a fill attribute is a missing value"""
    s = arr_str(da)
    if dtype in G.INT_FILL:
        head, data = s.split('|')
        s = head + '|' + ','.join('nan' if v == str(G.INT_FILL[dtype]) else v for v in data.split(','))
    return s


def do_clip(c, mask, second=None, one_step=None):
    """apply the mask (optionally to the convention of a second dataset) and load the result;
    `one_step=(geometry, buffer)`: the single call `clip(geometry, work_dir, buffer=…)` instead"""
    with CG.WorkDir() as wd:
        target = second if second is not None else c
        if one_step is not None:
            out = target.clip(one_step[0], wd, buffer=one_step[1])
        else:
            out = target.apply_clip_mask(mask, wd)
        out = out.load()
        out.close()
        return out


def check_case(ctx, recipe, built, c, geom_kind, geom, buffer, variant, items) -> None:
    desc = {'recipe': recipe, 'geometry': geom.wkt, 'buffer': buffer, 'variant': variant}
    conv = built.conv
    try:
        mask = c.make_clip_mask(geom, buffer=buffer)
    except Exception as e:
        ctx.oracle_fail('make-clip-mask-raised', desc, f'{type(e).__name__}: {e}')
        return
    mesh = conv == 'ugrid'
    # ---- which cells are "selected": stated independently of emsarray's mask -----------------
    # the cells whose polygon intersects the geometry, grown `buffer` times over neighbouring cells
    try:
        from harness.props import c07 as C07
        from harness.gen import clipgeoms
        polys = clipgeoms.ground_polygons(built)
        hit = [bool(q is not None and q.intersects(geom)) for q in polys]
        if mesh:
            want, _, _ = C07.mesh_expected([list(f) for f in recipe['faces']], None,
                                           {n for n, h in enumerate(hit) if h}, buffer)
            got_sel = {n for n, v in enumerate(mask['new_face_index'].values) if not np.isnan(v)}
        else:
            shape = built.grids['face'][1]
            want_arr = C07.dilate(np.array(hit, dtype=bool).reshape(shape), buffer)
            want = {n for n, v in enumerate(want_arr.reshape(-1)) if v}
            fm = mask['face_mask'] if 'face_mask' in mask else mask['cell_mask']
            got_sel = {n for n, v in enumerate(np.asarray(fm.transpose(*built.grids['face'][0]).values).reshape(-1)) if v}
        if want - got_sel:
            ctx.oracle_fail('selected-cell-not-kept', desc,
                            f'cells {sorted(want - got_sel)[:10]} are selected by the geometry and buffer but the clip drops or blanks them')
        if got_sel - want:
            ctx.oracle_fail('unselected-cell-kept', desc,
                            f'cells {sorted(got_sel - want)[:10]} are not selected by the geometry and buffer but their data survives')
    except KeyError:
        pass
    if mesh:
        kept_any = bool(np.any(~np.isnan(mask['new_face_index'].values)))
    else:
        kept_any = all(bool(m.values.any()) for m in mask.data_vars.values())
    target_built, target = built, c
    if variant == 'reloaded-second':
        r2 = copy.deepcopy(recipe)
        for v in r2.get('vars', []):
            v['base'] = v['base'] + 7
        target_built = G.build(r2)
        target = G.bind(target_built)
        with CG.WorkDir() as wd:
            p = os.path.join(wd, 'mask.nc')
            mask.to_netcdf(p)
            with xr.open_dataset(p) as m2:
                mask_used = m2.load()
    else:
        mask_used = mask
    err = None
    try:
        out = do_clip(c, mask_used, second=target, one_step=(geom, buffer) if variant == 'one-step' else None)
    except Exception as e:
        out = None
        err = f'{type(e).__name__}: {str(e)[:200]}'
    ds = target_built.ds
    # ---- model lines ------------------------------------------------------------
    if mesh:
        names = built.extra['names']
        dm = [f"{names['face_dim']}={''.join('0' if np.isnan(v) else '1' for v in mask['new_face_index'].values)}",
              f"{names['node_dim']}={''.join('0' if np.isnan(v) else '1' for v in mask['new_node_index'].values)}"]
        if 'new_edge_index' in mask:
            dm.append(f"{names['edge_dim']}={''.join('0' if np.isnan(v) else '1' for v in mask['new_edge_index'].values)}")
        dms = ';'.join(dm)
    else:
        ms = ';'.join(f'{n}={CG.bool_arr_str(m)}' for n, m in mask.data_vars.items())
    for name, info in target_built.vars.items():
        da = ds[name]
        if mesh:
            line = f'meshrows {dms} {tag_str(da, info.dtype)}'
        else:
            line = f'gridclip {ms} {FILL[info.dtype]} {tag_str(da, info.dtype)}'
        if out is None:
            impl = 'ERR'
        elif name not in out:
            impl = 'ABSENT'
        else:
            impl = tag_str(out[name], info.dtype)
        if not kept_any and mesh:
            continue   # an empty mesh selection is outside the property (nothing selected)
        items.append((line, impl, {**desc, 'op': line, 'var': name}))
    some_dropped = (mesh and bool(np.any(np.isnan(mask['new_face_index'].values)))) or \
        (not mesh and not all(bool(m.values.all()) for m in mask.data_vars.values()))
    if kept_any and some_dropped:
        ctx.nontrivial((str(recipe), geom.wkt, buffer, variant))
    ctx.count(f'{conv}:{geom_kind}:b{buffer}:{variant}')
    # ---- direct oracle --------------------------------------------------------------
    if not kept_any:
        if not mesh and out is not None:
            ctx.oracle_fail('empty-mask-accepted', desc, 'clipping with a mask that marks nothing did not raise')
        return
    if out is None:
        sig = 'clip-raised'
        enc = recipe.get('enc', {})
        if mesh and 'face_edge' in enc.get('tables', []) and 'primary dimension' in err:
            sig = 'ugrid-clip-face-edge-primary-dimension'
        elif mesh and ('masked' in err.lower()) and (set(enc.get('tables', [])) & {'face_face', 'edge_face'}):
            sig = 'ugrid-clip-dropped-reference-masked'
        elif not mesh and recipe.get('coords_as') == 'vars':
            sig = 'grid-clip-coordinates-as-variables'
        ctx.oracle_fail(sig, desc, f'clipping raised {err}')
        return
    if mesh:
        # the selected edges and nodes are exactly those of the selected faces (generator's ground truth)
        keepF = ~np.isnan(mask['new_face_index'].values)
        want_nodes = sorted({n for f, k in zip(recipe['faces'], keepF) if k for n in f})
        got_nodes = [int(i) for i in np.flatnonzero(~np.isnan(mask['new_node_index'].values))]
        if got_nodes != want_nodes:
            ctx.oracle_fail('selected-nodes-not-of-selected-faces', desc, f'nodes kept {got_nodes}, nodes of the selected faces {want_nodes}')
        if 'new_edge_index' in mask:
            want_edges = sorted({e for fe, k in zip(built.extra['face_edges'], keepF) if k for e in fe})
            got_edges = [int(i) for i in np.flatnonzero(~np.isnan(mask['new_edge_index'].values))]
            tables = set(recipe['enc'].get('tables', []))
            # edge numbering is the generator's only when an edge table fixing it is supplied
            if tables & {'edge_node', 'face_edge'} and got_edges != want_edges:
                ctx.oracle_fail('selected-edges-not-of-selected-faces', desc, f'edges kept {got_edges}, edges of the selected faces {want_edges}')
            elif len(got_edges) != len(want_edges):
                ctx.oracle_fail('selected-edges-not-of-selected-faces', desc, f'{len(got_edges)} edges kept, the selected faces have {len(want_edges)}')
    for name, info in target_built.vars.items():
        da = ds[name]
        if name not in out:
            ctx.oracle_fail('variable-lost', {**desc, 'var': name}, f'{name} is missing from the clipped dataset')
            continue
        got = out[name]
        if tuple(got.dims) != tuple(da.dims):
            ctx.oracle_fail('dims-changed', {**desc, 'var': name}, f'{name}: dims {got.dims}, were {da.dims}')
            continue
        exp = np.asarray(da.values, dtype='f8')
        if info.dtype in G.INT_FILL:
            exp = np.where(exp == G.INT_FILL[info.dtype], np.nan, exp)
        if mesh:
            for dim, key in ((names['face_dim'], 'new_face_index'), (names['node_dim'], 'new_node_index'), (names['edge_dim'], 'new_edge_index')):
                if dim in da.dims and key in mask:
                    keep = ~np.isnan(mask[key].values)
                    exp = np.compress(keep, exp, axis=da.dims.index(dim))
        else:
            sel = {}
            gov = None
            for mname, m in mask.data_vars.items():
                if gov is None and set(m.dims) <= set(da.dims):
                    gov = m
                for ax, dim in enumerate(m.dims):
                    proj = np.asarray(m.values).any(axis=tuple(k for k in range(m.ndim) if k != ax))
                    nz = np.flatnonzero(proj)
                    sel[dim] = slice(int(nz[0]), int(nz[-1]) + 1)
            index = tuple(sel.get(d, slice(None)) for d in da.dims)
            exp = exp[index]
            if gov is not None and FILL[info.dtype] == 'm':
                mk = np.asarray(gov.values)[tuple(sel[d] for d in gov.dims)]
                # broadcast the mask over the variable's dimension order
                shape = [exp.shape[da.dims.index(d)] if d in gov.dims else 1 for d in da.dims]
                perm = [gov.dims.index(d) for d in da.dims if d in gov.dims]
                mkb = np.transpose(mk, perm).reshape(shape)
                exp = np.where(mkb, exp, np.nan)
        g = np.asarray(got.values, dtype='f8')
        if info.dtype in G.INT_FILL:
            g = np.where(g == G.INT_FILL[info.dtype], np.nan, g)
        if g.shape != exp.shape or not np.array_equal(g, exp, equal_nan=True):
            sig = 'clip-values-differ'
            if FILL[info.dtype] == 'u' and g.shape == exp.shape:
                sig = 'unmaskable-variable-altered'
            ctx.oracle_fail(sig, {**desc, 'var': name},
                            f'{name}: clipped values {g.tolist()} expected {exp.tolist()}'[:500])
        # an attribute may legitimately have moved into the encoding (decoded `_FillValue`)
        lost = [k for k in da.attrs if k not in got.attrs and k not in got.encoding]
        if lost:
            ctx.oracle_fail('attributes-lost', {**desc, 'var': name}, f'{name}: attributes {lost} lost (attrs {dict(got.attrs)}, were {dict(da.attrs)})')
    for k, v in ds.attrs.items():
        if out.attrs.get(k) != v:
            ctx.oracle_fail('global-attributes-lost', desc, f'global attribute {k} lost')
            break


def make_recipe(ctx, k):
    rng = ctx.rng
    conv = G.CONVS[k % len(G.CONVS)]
    if conv == 'ugrid':
        kw = {'max_w': 3, 'max_h': 2, 'coords_as': 'vars', 'tables': G.tables_for(k // len(G.CONVS))}
    else:
        kw = {'max_n': 4, 'min_n': 2, 'coords_as': rng.choice(['coords', 'coords', 'vars'])}
        if conv in ('cf2d', 'shoc_simple'):
            kw['bounds_as'] = 'vars'
    recipe = G.random_recipe(rng, conv, ctx.tier, vary=True, **kw)
    return G.attach_vars(rng, recipe, n_vars=3, max_extra=1, with_nan=True,
                         dtypes=('f8', 'f8', 'f4', 'i4', 'i8', 'u4', 'i4fill', 'i4missing', 'i4fill0'))


def examine(ctx, recipe, items) -> None:
    rng = ctx.rng
    built = G.build(recipe)
    c = G.bind(built)
    raw = built.polys
    vbits = S.geos_valid_bits(raw)
    kept = [q if (q is not None and vbits[n] == '1') else None for n, q in enumerate(raw)]
    if not any(q is not None for q in kept):
        return
    n_plain = 4 if built.conv == 'ugrid' else 2
    for j in range(n_plain + 1):
        if j < n_plain:
            gk, geom = CG.random_geometry(rng, kept)
            buffer = rng.choice([0, 0, 1, 1, 2])
        else:
            # one region per dataset whose envelope covers the whole grid while the region does not
            gk, geom = CX.envelope_geometry(rng, kept)
            buffer = rng.choice([0, 0, 0, 1])
        variant = rng.choice(['direct', 'direct', 'reloaded-second', 'one-step'])
        ctx.guarded(lambda: check_case(ctx, recipe, built, c, gk, geom, buffer, variant, items),
                    {'recipe': recipe, 'geometry': geom.wkt, 'buffer': buffer, 'variant': variant})


def run(ctx) -> None:
    items: list = []
    for k in range(ctx.budget(70, 500)):
        recipe = make_recipe(ctx, k)
        ctx.guarded(lambda: examine(ctx, recipe, items), {'recipe': recipe})
    if ctx.searching and ctx.driver is None:
        ctx.evaluated(len(items))
        return
    ctx.check_batch(items)


def run_one(ctx, inp):
    import shapely
    out = {}
    if inp.get('op') and ctx.driver:
        out['model'] = ctx.model([inp['op']])[0]
    if 'geometry' in inp:
        built = G.build(inp['recipe'])
        c = G.bind(built)
        geom = shapely.from_wkt(inp['geometry'])
        items: list = []
        sub = type(ctx)(ctx.prop, ctx.tier, ctx.seed)
        sub.known = []
        check_case(sub, inp['recipe'], built, c, 'replay', geom, inp.get('buffer', 0), inp.get('variant', 'direct'), items)
        for line, impl, d in items:
            if line == inp.get('op'):
                out['impl'] = impl
        if sub.oracle_failures:
            out['oracle'] = '; '.join(f"{f['signature']}: {f['message'][:200]}" for f in sub.oracle_failures[:3])
    return out


def replay(ctx, data) -> int:
    return util.generic_replay(ctx, data, run_one)
