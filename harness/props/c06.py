"""C06 — cell polygons and dataset extent are faithful to the dataset's coordinates."""
from __future__ import annotations

import warnings
from fractions import Fraction

import numpy as np
import shapely

from harness import util
from harness.gen import c06_extra as X
from harness.gen import c06_extra6 as X6
from harness.gen import datasets as G
from harness.gen import geomspec as S

ID = 'C06'
MODULE = 'EmsModel.Props.C06'
DRIVER = 'C06'
# further theorem files of this property (built and axiom-audited like MODULE); append to the list
EXTRA_MODULES = ['EmsModel.Props.C06Opens']
EXTRA_MODULES += ['EmsModel.Props.C06Src']   # UGrid._make_polygons as the source has it (harness/trans_ugridsrc.py -> Gen.UgridSrc.ugridPolygons)
REQUIRED = [
    'Ems.C06Src.ugrid_polygons_translated', 'Ems.C06Src.ugrid_polygons_src', 'Ems.C06Src.ugrid_polygon_src_at',
    'Ems.C06.cf1d_polygon_at', 'Ems.C06.cf1d_length', 'Ems.C06.midBounds_interior', 'Ems.C06.midBounds_outer',
    'Ems.C06.cf2d_polygon_at', 'Ems.C06.arakawa_polygon_at', 'Ems.C06.ugrid_polygon_at',
    'Ems.C06.missing_no_polygon', 'Ems.C06.storedCorners_spec', 'Ems.C06.ugrid_bad_node', 'Ems.C06.midBounds_length', 'Ems.C06.mask_iff', 'Ems.C06.invalid_dropped', 'Ems.C06.warned_iff',
    'Ems.C06.bbox_spec', 'Ems.C06.cf1d_box_is_union', 'Ems.C06.cf1d_cell_is_polygon',
    'Ems.C06.cellsCover_iff', 'Ems.C06.cellsCover_polygon', 'Ems.C06.cf1d_box_cover',
    # the cached accessors of one convention object read in any order (Core/ConvReads.lean)
    'Ems.C06.reads_order_independent', 'Ems.C06.mask_first_iff',
    # convention objects constructed one after the other, some configured through their constructor (Core/ConvOpen.lean, Props/C06Opens.lean)
    'Ems.C06.class_names_unchanged', 'Ems.C06.open_history_independent', 'Ems.C06.default_open_after_configured',
    'Ems.C06.configured_open_uses_given',
    # the numpy pipelines as the source has them (Gen/Pipelines.lean, translated by harness/pipelines.py on every run)
    'Ems.C06.pipelines_translated', 'Ems.C06.pipeline_eval_get',
    'Ems.C06.cf1d_pipeline_spec', 'Ems.C06.cf2d_pipeline_spec', 'Ems.C06.arakawa_pipeline_spec',
    'Ems.C06.cf1d_midbounds_pipeline_spec', 'Ems.C06.cf1d_asserts_hold', 'Ems.C06.cf1d_centres_pipeline_spec',
    'Ems.C06.cf2d_derived_pipeline_spec', 'Ems.C06.cf2d_derived_shape', 'Ems.C06.cf2d_derived_get',
]
RULE = ('datasets of every convention from the recipe generator: CF 1-D axes ascending / descending / non-uniform, '
        'with stored bounds (contiguous or gapped, the four axis directions in turn) and without, coordinates and bounds as xarray '
        'coordinates or plain variables; CF 2-D / SHOC simple sheared lattices with stored 4-corner bounds or derived '
        'bounds, holes, 1xN / Nx1 degenerate derived cells, bow-tie (self-intersecting) stored cells; SHOC standard node '
        'lattices with masked nodes; UGRID meshes mixing 3..8-gons, concave and collinear, 0/1-based, NaN / _FillValue / '
        'no fill, transposed, node coordinates as variables or coordinates. Compared: exact vertex lists of every '
        'polygon, mask, InvalidPolygonWarning, bounds; exact ring validity vs GEOS on every raw cell; geometry vs '
        'GEOS union of polygons; for CF 1-D grids the decision box-of-the-bounds / union-of-cells of the overall geometry. '
        'Cells that do not tile their domain edge to edge: CF 1-D stored bounds that overlap the neighbouring cells, CF 2-D / SHOC simple '
        'stored corners pushed outwards into the neighbours, UGRID meshes with hanging nodes (a node in the middle of an edge listed by one '
        'of the two faces only); the overall geometry has to be a valid geometry equal to the GEOS union of the ground-truth polygons, and '
        'for every CF 1-D grid its point set is compared with the model on a lattice of probe points (every bound value, the middle of every '
        'stretch between two bound values, one value beyond either end: `cf1dcover`). '
        'Storage types: the two axes of a CF 1-D grid (coordinate and stored bounds) are stored as int16/32/64, float32 or float64, walked '
        'round-robin over 9 (longitude, latitude) pairs, either axis the narrower one; an integer axis is stretched so that its stored bounds '
        'are whole numbers while the other axis keeps half / quarter bounds, a float64 axis next to a float32 one carries an offset of 5/2^30 '
        'that float32 cannot hold: a value is only ever stored in a type that holds it exactly, so the cell the dataset describes does not '
        'depend on the storage types. '
        'Self-intersecting cells in every convention that can hold one: CF 2-D / SHOC simple stored corners in crossing order, a SHOC '
        'standard node displaced across the opposite side of its face (`moved_nodes`), two neighbouring nodes of a UGRID face listed the '
        'other way round. '
        'Read histories: every dataset is bound a second time and the cached accessors of that fresh convention object (mask, polygons, '
        'geometry, bounds, face_centres, strtree) are read in a generated order — a random permutation, half of the time with `mask` '
        'before anything that builds the polygons, then one of them a second time; polygons / mask / bounds / warning of that object go '
        'through the model of the cache (`reads <order> polys …`), the mask is compared with its own polygons and with the cells the '
        'generator made, a repeated read with the first one, and every accessor with its value on the object read polygons-first. '
        'Configured objects (harness/gen/c06_extra6.py): histories of 3..5 datasets of one family (SHOC standard, CF 1-D, CF 2-D, SHOC simple) '
        'opened one after the other in one process; some datasets carry a second coordinate set on the same dimensions (a recipe of its own, '
        'variables without CF attributes), every history has an object configured for it through the constructor — ArakawaC / ShocStandard '
        '`coordinate_names=` (a random subset of the four grids renamed, kinds as enum members or strings, pairs as tuples or lists), CFGrid1D / '
        'CFGrid2D / ShocSimple `latitude=`/`longitude=` or `topology=` — and after it datasets opened without configuration (`Cls(dataset)` or '
        '`dataset.ems`), with or without variables of the same extra names; a fifth of the objects are constructed in their place and read only '
        'at the end. A configured object has to describe the cells of the coordinate set it was given, every other object the cells of its own '
        'dataset\'s coordinates (polygons, mask, bounds, geometry; `opens cls= hist= use= // <set> … // <set> …` in the model). '
        'Non-trivial: dataset with a hole, an invalid cell, derived bounds, a non-quad face, overlapping cells, mixed storage types, '
        'or a non-default storage of coordinates; distinct by recipe. '
        'Pipelines: the source text of CFGrid1D._make_polygons, CFGrid2D._make_polygons, ArakawaC._make_polygons, the derived-bounds '
        'branch of CFGrid1DTopology._get_or_make_bounds and CFGrid1D.face_centres is translated on every run into terms of a numpy '
        'expression language (harness/pipelines.py -> Gen/Pipelines.lean); for every CF 1-D, CF 2-D / SHOC simple with stored bounds and '
        'SHOC standard dataset generated, the generated term is evaluated in the driver on the generator\'s ground-truth bounds / node '
        'arrays (`pipe` operations) and compared with ds.ems.polygons (vertex lists, mask, bounds, warning), topology.*_bounds and '
        'face_centres of the running code. The derived-bounds branch of CFGrid2DTopology._get_or_make_bounds (isnan / pad / & | / masked '
        'assignment / nanmean / any) is translated the same way; for every CF 2-D / SHOC simple dataset without stored bounds the generated '
        'term is evaluated on the ground-truth centre coordinates of either axis (`pipe cf2dderived`) and compared, value by value and NaN '
        'by NaN, with topology.longitude_bounds.values / latitude_bounds.values of the running code.')
TRUSTED = ['GEOS is_valid / unary_union / equals',
           'numpy stack / expand_dims / broadcast_to / transpose / basic indexing / reshape / concatenate / isnan / pad / & | / '
           'boolean-mask assignment / nanmean / any(axis) follow the positional C-order semantics given to them in Core/NpExpr.lean '
           '(cross-checked by the `pipe` operations on every generated dataset)',
           'the source translator harness/pipelines.py (Python ast -> NpExpr): part of the trusted base; what it cannot render becomes '
           'NpExpr.unsupported and breaks Ems.C06.pipelines_translated; its output is validated against the running code on every run']
TECHNIQUE = ('Lean 4 proof over a model that is partly translated from the source on every run (the numpy pipelines of the polygon '
             'constructors, harness/pipelines.py -> Gen/Pipelines.lean) and partly hand-written + differential correspondence with the implementation')
LEVEL_NOTE = ('GEOS is_valid enters as a truth table (and is compared with an exact ring-validity test); unary_union / equals are GEOS on '
              'both sides of the geometry oracle; bounds are compared where every stored bound / node belongs to a kept polygon. '
              'The *_pipeline_spec theorems are about terms regenerated from the source text on every run, for all grid sizes: the '
              'stack / broadcast_to / transpose / reshape pipelines refine the comprehension models the other theorems are about. '
              'cf2d_derived_pipeline_spec does the same for the derived-bounds branch of CFGrid2DTopology._get_or_make_bounds (the generated '
              'term computes derived2d for every ny x nx array of centres, NaNs included). '
              'Not translated (still hand-modelled + correspondence only): UGrid._make_polygons. '
              'Trusted: Lean kernel (axioms propext, Quot.sound, Classical.choice), the hand-written model and the semantics of the numpy '
              'expression language, the harness (generators, canonicalisers, driver parser, the source translator harness/pipelines.py), '
              'numpy/xarray/shapely behaviour taken as parameters.')
ASSUMPTIONS = ['coordinates are small integers / dyadic rationals so every float operation on the code path is exact',
               'bounds_eq_bbox is checked where every stored bound / node belongs to a kept polygon (no invalid cell, no orphan node)']


def make_recipe(ctx, k: int) -> dict:
    rng = ctx.rng
    conv = G.CONVS[k % len(G.CONVS)]
    kw = {}
    if conv == 'cf1d':
        kw['coords_as'] = rng.choice(['coords', 'coords', 'vars'])
        kw['bounds_as'] = rng.choice(['vars', 'vars', 'coords'])
        c = rng.random()
        if c < 0.3:
            kw['bounds'] = 'gaps'
        elif c < 0.55:
            kw['bounds'] = 'overlap'     # stored bounds wider than the axis spacing: neighbouring cells overlap
    elif conv in ('cf2d', 'shoc_simple'):
        kw['coords_as'] = rng.choice(['coords', 'coords', 'vars'])
        kw['bounds_as'] = rng.choice(['vars', 'vars', 'coords'])
        kw['twist'] = True
    elif conv == 'shoc_standard':
        kw['coords_as'] = rng.choice(['coords', 'coords', 'vars'])
    else:
        kw['coords_as'] = rng.choice(['vars', 'vars', 'vars', 'coords'])
    recipe = G.random_recipe(rng, conv, ctx.tier, **kw)
    if conv == 'cf1d':
        # the four axis directions in turn (north-to-south latitudes, east-to-west longitudes)
        u = k // len(G.CONVS)
        recipe['lat'] = sorted(recipe['lat'], reverse=u % 2 == 1)
        recipe['lon'] = sorted(recipe['lon'], reverse=(u // 2) % 2 == 1)
        # the storage types of the two axes (integer / float32 / float64, either way round), round-robin
        X.storage_types(rng, recipe, u)
    elif conv in ('cf2d', 'shoc_simple'):
        if recipe.get('bounds') == 'stored' and rng.random() < 0.3:
            recipe['grow'] = True        # stored corners reach into the neighbouring cells
    elif conv == 'shoc_standard':
        if rng.random() < 0.35:
            X.move_node(rng, recipe)     # a node displaced across the opposite side of a face: a self-intersecting face
    elif conv == 'ugrid':
        if rng.random() < 0.4:
            # hanging nodes: two faces share part of an edge without matching node for node
            X.add_hanging_nodes(rng, recipe, rng.choice([1, 1, 2]))
        if rng.random() < 0.25:
            X.twist_face(rng, recipe)    # two neighbouring nodes of a face listed the other way round: it crosses itself
    # the order in which the cached accessors of a second, fresh convention object of this dataset are read
    recipe['reads'] = X.read_history(rng)
    return recipe


def examine(ctx, recipe: dict, items: list) -> None:
    built = G.build(recipe)
    conv = built.conv
    desc = {'recipe': recipe}
    raw = built.polys
    vbits = S.geos_valid_bits(raw)
    kept = [q if (q is not None and vbits[n] == '1') else None for n, q in enumerate(raw)]
    any_invalid = any(q is not None and vbits[n] == '0' for n, q in enumerate(raw))
    # exact ring validity vs GEOS, on every raw cell
    for n, q in enumerate(raw):
        if q is not None and (n < 12 or vbits[n] == '0'):
            items.append((f'valid {S.ring_str_raw(q)}', vbits[n], {'recipe': recipe, 'op': f'valid {S.ring_str_raw(q)}'}))
    # bounds hypothesis: every stored bound / node belongs to a kept polygon
    orphan = False
    if conv == 'ugrid':
        used = {n for f in recipe['faces'] for n in f}
        orphan = len(used) != len(recipe['nodes'])
    with_bounds = not any_invalid and not orphan and any(k is not None for k in kept)
    snapshot = {str(n): np.array(v.values, copy=True) for n, v in built.ds.variables.items()}
    try:
        c = G.bind(built)
        impl = S.impl_polys_out(c, with_bounds=with_bounds)
    except Exception as e:
        c = None
        impl = f'ERR'
        err = f'{type(e).__name__}: {e}'
    line = f"polys {S.polys_args(built)} valid={vbits}" + ('' if with_bounds else ' nob=1')
    items.append((line, impl, {'recipe': recipe, 'op': line}))
    # ---- the pipelines translated from the source, run on the same ground truth (Core/NpProto.lean) ----
    if conv in ('cf1d', 'shoc_standard') or (conv in ('cf2d', 'shoc_simple') and built.extra.get('corners') is not None):
        pl = 'pipe ' + line[len('polys '):]
        items.append((pl, impl, {'recipe': recipe, 'op': pl}))
        ctx.count(f'pipeline:{pl.split()[1]}')
    # --- B5 (ugridsrc): the program GENERATED FROM THE SOURCE of UGrid._make_polygons, run on the same ground truth with the
    # masked table the generator wrote (rows padded with masked entries up to `maxn` columns; Core/UgridSrcProto.lean)
    if conv == 'ugrid':
        width = max([int(built.extra.get('maxn', 0))] + [len(f) for f in recipe['faces']])
        pl = 'polys-src ' + line[len('polys '):] + f' width={width}'
        items.append((pl, impl, {'recipe': recipe, 'op': pl}))
        ctx.count('pipeline:ugrid-src')
    # --- end B5
    if conv == 'cf1d' and c is not None:
        pipeline_extras(ctx, recipe, built, c, items)
    if conv in ('cf2d', 'shoc_simple') and built.extra.get('corners') is None and c is not None:
        derived_bounds_items(ctx, recipe, built, c, items)
    nontrivial = (any(q is None for q in raw) or any_invalid or recipe.get('bounds') == 'none'
                  or conv == 'ugrid' or recipe.get('coords_as') == 'vars' or recipe.get('bounds_as') == 'coords'
                  or recipe.get('enc', {}).get('coords_as') == 'coords' or recipe.get('grow')
                  or recipe.get('bounds') == 'overlap' or 'lon_dtype' in recipe)
    if nontrivial:
        ctx.nontrivial(recipe)
    ctx.count(f'conv:{conv}')
    if recipe.get('hanging'):
        ctx.count('ugrid-hanging-node')
    if recipe.get('grow') or recipe.get('bounds') == 'overlap':
        ctx.count('overlapping-cells')
    if conv == 'cf1d':
        a, b = (str(built.ds[built.extra['names'][k]].dtype) for k in ('lon', 'lat'))
        if a != b:
            ctx.count(f'cf1d-axis-types:{a}/{b}' + ('+fine' if any(isinstance(v, float) for v in recipe['lon'] + recipe['lat']) else ''))
    if conv == 'cf1d' and c is not None:
        geometry_items(ctx, recipe, built, c, items)
    if any_invalid:
        ctx.count('has-invalid-cell')
    if any(q is None for q in raw):
        ctx.count('has-hole')
    # ---- reading the geometry leaves the dataset as it was (a second look, or a slice sharing the arrays, must see
    # the same coordinates)
    if c is not None:
        try:
            _ = c.bounds, c.geometry, c.polygons, c.face_centres
        except Exception:
            pass
        for n, before in snapshot.items():
            after = np.asarray(built.ds.variables[n].values)
            same = after.shape == before.shape and (
                np.array_equal(after, before, equal_nan=True) if before.dtype.kind == 'f' else np.array_equal(after, before))
            if not same:
                ctx.oracle_fail('dataset-modified-by-geometry', {**desc, 'variable': n},
                                f'variable {n} of the dataset changed while its geometry was read: '
                                f'{int(np.sum(np.isnan(after)) - np.sum(np.isnan(before))) if before.dtype.kind == "f" else "?"} more missing values')
                break
    # ---- direct oracle (independent of the Lean model) -------------------
    if c is None:
        sig = 'polygons-raise'
        if conv == 'ugrid' and recipe.get('enc', {}).get('coords_as') == 'coords':
            sig = 'ugrid-node-coords-as-coordinates-keyerror'
        ctx.oracle_fail(sig, desc, f'building polygons raised {err}')
        return
    if recipe.get('reads'):
        history_items(ctx, recipe, c, kept, with_bounds, line, items)
    polys = c.polygons
    # (naming the failure only) stored bounds held as coordinates that were not used: the topology answers with midpoints
    bounds_ignored = False
    if conv == 'cf1d' and recipe.get('bounds') in ('gaps', 'overlap') and recipe.get('bounds_as') == 'coords':
        try:
            seen = [tuple(Fraction(float(v)) for v in row) for row in np.asarray(c.topology.longitude_bounds.values)]
            bounds_ignored = seen == [tuple(ab) for ab in G._mid_bounds(recipe['lon'])]
        except Exception:
            pass
    if len(polys) != len(raw):
        ctx.oracle_fail('polygon-count', desc, f'{len(polys)} polygons for {len(raw)} cells')
        return
    for n, (p, q) in enumerate(zip(polys, kept)):
        if q is None:
            if p is not None:
                ctx.oracle_fail('polygon-for-missing-or-invalid-cell', {**desc, 'cell': n},
                                f'cell {n} has polygon {p.wkt} but its coordinates are missing / self-intersecting')
                break
        else:
            if p is None:
                ctx.oracle_fail('no-polygon-for-valid-cell', {**desc, 'cell': n}, f'cell {n} has no polygon, expected {S.ring_str(q)}')
                break
            got = S.impl_ring(p)
            if got != util.expected_ring(q):
                sig = 'polygon-differs'
                if bounds_ignored:
                    sig = 'cf1d-bounds-as-coordinates-ignored'
                ctx.oracle_fail(sig, {**desc, 'cell': n}, f'cell {n}: polygon {S.ring_str(got)} expected {S.ring_str(q)}')
                break
    mask = [bool(m) for m in c.mask]
    if mask != [p is not None for p in polys]:
        ctx.oracle_fail('mask-inconsistent', desc, 'mask does not say which cells have polygons')
    # extent
    good = [shapely.Polygon([(float(x), float(y)) for x, y in q]) for q in kept if q is not None]
    if good and with_bounds:
        xs = [x for q in kept if q is not None for x, _ in q]
        ys = [y for q in kept if q is not None for _, y in q]
        exp = (min(xs), min(ys), max(xs), max(ys))
        try:
            got = tuple(Fraction(float(v)) for v in c.bounds)
        except Exception as e:
            got = f'ERR {e}'
        if got != exp:
            sig = 'bounds-differ'
            if bounds_ignored:
                sig = 'cf1d-bounds-as-coordinates-ignored'
            ctx.oracle_fail(sig, desc, f'bounds {got} expected {exp}')
    if good and all(p is None or k is not None for p, k in zip(polys, kept)):
        # the overall geometry is a valid geometry and, as a point set, the union of the polygons of the cells the
        # dataset describes (ground truth of the generator; GEOS on both sides of `equals`)
        why = ''
        valid, boxed = True, False
        try:
            geom = c.geometry
            union = shapely.unary_union(good)
            valid = bool(shapely.is_valid(geom))
            if not valid:
                why = f': not a valid geometry ({shapely.is_valid_reason(geom)})'
            same = valid and bool(geom.equals(union))
            boxed = valid and bool(geom.equals(shapely.box(*geom.bounds)))
            if valid and not same:
                why = f': area {geom.area!r}, the union has area {union.area!r}'
        except Exception as e:
            same = False
            why = f': {type(e).__name__}: {e}'
        if not same:
            sig = 'geometry-differs'
            if not valid:
                sig = 'geometry-invalid'
            elif conv == 'cf1d' and recipe.get('bounds') == 'gaps' and boxed:
                sig = 'cf1d-geometry-box-with-gapped-bounds'
            elif bounds_ignored:
                sig = 'cf1d-bounds-as-coordinates-ignored'
            ctx.oracle_fail(sig, desc, 'geometry is not the union of the cell polygons' + why)


def _same(name: str, a, b) -> bool:
    """the value accessor `name` gave on two convention objects of the same dataset is the same"""
    if name == 'mask':
        return [bool(v) for v in a] == [bool(v) for v in b]
    if name == 'polygons':
        return [None if p is None else S.impl_ring(p) for p in a] == [None if p is None else S.impl_ring(p) for p in b]
    if name == 'bounds':
        a, b = np.asarray(a, dtype='f8'), np.asarray(b, dtype='f8')      # (NaN where a node of the extent is missing)
        return a.shape == b.shape and bool(np.array_equal(a, b, equal_nan=True))
    if name == 'geometry':
        return (a.is_empty and b.is_empty) or bool(a.equals(b))
    if name == 'face_centres':
        a, b = np.asarray(a), np.asarray(b)
        return a.shape == b.shape and bool(np.array_equal(a, b, equal_nan=True))
    if name == 'strtree':
        return len(a.geometries) == len(b.geometries)
    return True


def history_items(ctx, recipe: dict, ref, kept: list, with_bounds: bool, line: str, items: list) -> None:
    """A second, fresh convention object of the same dataset whose cached accessors are read in the order
    recipe['reads'] (mask before polygons, bounds / geometry / strtree first, one of them twice, …).
    Oracle: the mask says which cells have a polygon, and which cells the dataset describes, whatever was read
    before; every accessor answers what it answers on the object read in the usual order (`ref`: polygons first).
    Correspondence: `reads <order> polys …` (Core/ConvReads.lean)."""
    reads = [str(a) for a in recipe['reads']]
    desc = {'recipe': recipe, 'reads': reads}
    rl = f"reads {','.join(reads)} {line}"
    if any(a not in X.ACCESSORS for a in reads):
        raise ValueError(f'unknown accessor in {reads}')
    conv = G.bind(G.build(recipe))
    first, again, warned = X.read_accessors(conv, reads + ['polygons', 'mask', 'bounds'])
    # ---- correspondence
    try:
        if first['polygons'][0] != 'ok' or first['mask'][0] != 'ok':
            raise ValueError('polygons / mask raised')
        rings = '|'.join('-' if p is None else S.ring_str(S.impl_ring(p)) for p in first['polygons'][1])
        mbits = ''.join('1' if m else '0' for m in first['mask'][1])
        if not with_bounds:
            bs = 'skip'
        elif first['bounds'][0] == 'ok':
            bs = ','.join(S.rat_str(Fraction(float(v))) for v in first['bounds'][1])
        else:
            bs = 'ERR'
        impl = f"{rings} M={mbits} B={bs} W={1 if warned else 0}"
    except Exception:
        impl = 'ERR'
    items.append((rl, impl, {'recipe': recipe, 'op': rl}))
    ctx.count('reads:first=' + reads[0])
    before = reads[:reads.index('mask')] if 'mask' in reads else reads
    if not any(a in before for a in ('polygons', 'geometry', 'strtree', 'bounds')):
        ctx.count('reads:mask-before-polygons' + ('+invalid-cell' if 'W=1' in impl else ''))
    # ---- direct oracle
    how = f"(accessors of one convention object read in the order {', '.join(reads)})"
    if first['mask'][0] != 'ok' or first['polygons'][0] != 'ok':
        bad = 'mask' if first['mask'][0] != 'ok' else 'polygons'
        ctx.oracle_fail('accessor-raises-after-reads', {**desc, 'accessor': bad}, f'{bad} raised {first[bad][1]} {how}')
        return
    try:
        mask = [bool(m) for m in first['mask'][1]]
        has = [p is not None for p in first['polygons'][1]]
    except Exception as e:
        ctx.oracle_fail('mask-inconsistent', desc, f'mask / polygons cannot be read as arrays: {type(e).__name__}: {e} {how}')
        return
    if mask != has:
        wrong = [n for n, (m, h) in enumerate(zip(mask, has)) if m != h] or ['length']
        ctx.oracle_fail('mask-inconsistent', {**desc, 'cell': wrong[0]},
                        f'mask does not say which cells have polygons: cell {wrong[0]} has mask '
                        f'{mask[wrong[0]] if wrong[0] != "length" else len(mask)} and '
                        f'{"a" if wrong[0] != "length" and has[wrong[0]] else "no"} polygon {how}')
        return
    if mask != [k is not None for k in kept]:
        ctx.oracle_fail('mask-differs-from-cells', desc,
                        f'mask {"".join("1" if m else "0" for m in mask)}, the cells the dataset describes (valid, complete) are '
                        f'{"".join("0" if k is None else "1" for k in kept)} {how}')
        return
    for name, got in again:
        try:
            same = got[0] == first[name][0] and (got[0] != 'ok' or _same(name, got[1], first[name][1]))
        except Exception:
            same = False
        if not same:
            ctx.oracle_fail('accessor-changes-between-reads', {**desc, 'accessor': name},
                            f'{name} answered differently the second time {how}')
            return
    for name in X.ACCESSORS:
        if name not in first:
            continue
        try:
            want = ('ok', getattr(ref, name))
        except Exception as e:
            want = ('err', f'{type(e).__name__}: {e}')
        got = first[name]
        try:
            same = got[0] == want[0] and (got[0] != 'ok' or _same(name, got[1], want[1]))
        except Exception:
            same = False
        if not same:
            ctx.oracle_fail('accessor-depends-on-read-order', {**desc, 'accessor': name},
                            f'{name} is {got[1] if got[0] == "err" else "a different value"} {how}; read after polygons on another '
                            f'object of the same dataset it is {want[1] if want[0] == "err" else "something else"}')
            return


def geometry_items(ctx, recipe: dict, built, c, items: list) -> None:
    """CF 1-D: the overall geometry of the running code vs the model of CFGrid1D.geometry"""
    args = S.polys_args(built)[len('cf1d '):]
    try:
        geom = c.geometry
    except Exception:
        geom = None
    if recipe.get('bounds') != 'overlap':
        # the box of its bounds, or (gaps) the union of the cells.  Observed topologically: these bounds are either
        # gap-free or leave true gaps (with overlapping bounds the two answers are the same point set: not observable)
        gl = 'cf1dgeom ' + args
        try:
            bb = tuple(float(v) for v in geom.bounds)
            if geom.equals(shapely.box(*bb)):
                gout = 'box ' + ','.join(S.num(Fraction(v)) for v in bb)
            else:
                gout = 'union'
        except Exception:
            gout = 'ERR'
        items.append((gl, gout, {'recipe': recipe, 'op': gl}))
        ctx.count(f'cf1d-geometry:{gout.split()[0]}')
    # the point set of the geometry on a lattice of probe points: every bound value, the middle of every stretch
    # between two bound values (inside a cell, a gap, an overlap), one value beyond either end
    xs, ys = X.probe_values(built.extra['lonb']), X.probe_values(built.extra['latb'])
    cl = f'cf1dcover {args} xs={S.nums(xs)} ys={S.nums(ys)}'
    try:
        px = np.array([float(x) for _ in ys for x in xs])
        py = np.array([float(y) for y in ys for _ in xs])
        cout = ''.join('1' if b else '0' for b in shapely.covers(geom, shapely.points(px, py)))
    except Exception:
        cout = 'ERR'
    items.append((cl, cout, {'recipe': recipe, 'op': cl}))
    ctx.count('cf1d-cover:' + recipe.get('bounds', 'none'))


def pipeline_extras(ctx, recipe: dict, built, c, items: list) -> None:
    """CF 1-D: derived bounds and face centres of the running code vs the pipelines translated from the source"""
    def pairs(arr) -> str:
        a = np.asarray(arr)
        if a.ndim != 2 or a.shape[1] != 2:
            return f'SHAPE{tuple(a.shape)}'
        return ','.join(f'{S.num(Fraction(float(lo)))}:{S.num(Fraction(float(hi)))}' for lo, hi in a)
    if recipe.get('bounds', 'none') == 'none':
        for axis, key in (('longitude_bounds', 'lon'), ('latitude_bounds', 'lat')):
            ml = f'pipe mid vals={S.nums(recipe[key])}'
            try:
                mout = pairs(getattr(c.topology, axis).values)
            except Exception:
                mout = 'ERR'
            items.append((ml, mout, {'recipe': recipe, 'op': ml}))
        ctx.count('pipeline:mid')
    cl = f"pipe centres lon={S.nums(recipe['lon'])} lat={S.nums(recipe['lat'])}"
    try:
        fc = np.asarray(c.face_centres)
        cout = ';'.join(f'{S.num(Fraction(float(x)))},{S.num(Fraction(float(y)))}' for x, y in fc)
    except Exception:
        cout = 'ERR'
    items.append((cl, cout, {'recipe': recipe, 'op': cl}))


def derived_bounds_items(ctx, recipe: dict, built, c, items: list) -> None:
    """CF 2-D / SHOC simple without stored bounds: the bounds arrays the running topology derives vs the pipeline translated
    from the source of CFGrid2DTopology._get_or_make_bounds, run on the generator's centre coordinates (NaN as `-`)"""
    ny, nx = recipe['ny'], recipe['nx']
    for key, attr in (('cx', 'longitude_bounds'), ('cy', 'latitude_bounds')):
        dl = f"pipe cf2dderived ny={ny} nx={nx} vals={S.nums(v for row in built.extra[key] for v in row)}"
        try:
            a = np.asarray(getattr(c.topology, attr).values)
            dout = ','.join(str(d) for d in a.shape) + ':' + ','.join(
                '-' if np.isnan(v) else S.num(Fraction(float(v))) for v in a.ravel())
        except Exception:
            dout = 'ERR'
        items.append((dl, dout, {'recipe': recipe, 'op': dl}))
    ctx.count('pipeline:cf2dderived')


# ---- extra6: convention objects configured through their constructor, and the datasets opened after them --------------
# (generators: harness/gen/c06_extra6.py; model: lean/EmsModel/Core/ConvOpen.lean, theorems Props/C06Opens.lean)

def _cells_of(b) -> tuple:
    """ground truth of one coordinate set: (kept polygons, GEOS validity bits, bounds comparable)"""
    raw = b.polys
    vbits = S.geos_valid_bits(raw)
    kept = [q if (q is not None and vbits[n] == '1') else None for n, q in enumerate(raw)]
    any_invalid = any(q is not None and vbits[n] == '0' for n, q in enumerate(raw))
    return kept, vbits, (not any_invalid and any(k is not None for k in kept))


def _judge_cells(ctx, desc: dict, c, kept: list, with_bounds: bool, how: str) -> None:
    """direct oracle: the object `c` describes exactly the cells `kept` (polygons, mask, bounds, overall geometry)"""
    try:
        with warnings.catch_warnings():
            warnings.simplefilter('ignore')
            polys = list(c.polygons)
            mask = [bool(m) for m in c.mask]
    except Exception as e:
        ctx.oracle_fail('polygons-raise', desc, f'building polygons raised {type(e).__name__}: {e} {how}')
        return
    if len(polys) != len(kept):
        ctx.oracle_fail('polygon-count', desc, f'{len(polys)} polygons for {len(kept)} cells {how}')
        return
    for n, (p, q) in enumerate(zip(polys, kept)):
        if q is None and p is not None:
            ctx.oracle_fail('polygon-for-missing-or-invalid-cell', {**desc, 'cell': n},
                            f'cell {n} has polygon {p.wkt} but its coordinates are missing / self-intersecting {how}')
            return
        if q is not None and p is None:
            ctx.oracle_fail('no-polygon-for-valid-cell', {**desc, 'cell': n},
                            f'cell {n} has no polygon, expected {S.ring_str(q)} {how}')
            return
        if q is not None and S.impl_ring(p) != util.expected_ring(q):
            ctx.oracle_fail('polygon-differs', {**desc, 'cell': n},
                            f'cell {n}: polygon {S.ring_str(S.impl_ring(p))} expected {S.ring_str(q)} {how}')
            return
    if mask != [p is not None for p in polys]:
        ctx.oracle_fail('mask-inconsistent', desc, f'mask does not say which cells have polygons {how}')
        return
    good = [shapely.Polygon([(float(x), float(y)) for x, y in q]) for q in kept if q is not None]
    if good and with_bounds:
        xs = [x for q in kept if q is not None for x, _ in q]
        ys = [y for q in kept if q is not None for _, y in q]
        exp = (min(xs), min(ys), max(xs), max(ys))
        try:
            got = tuple(Fraction(float(v)) for v in c.bounds)
        except Exception as e:
            got = f'ERR {type(e).__name__}: {e}'
        if got != exp:
            ctx.oracle_fail('bounds-differ', desc, f'bounds {got} expected {exp} {how}')
            return
    if good:
        try:
            geom = c.geometry
            same = bool(shapely.is_valid(geom)) and bool(geom.equals(shapely.unary_union(good)))
            why = ''
        except Exception as e:
            same, why = False, f': {type(e).__name__}: {e}'
        if not same:
            ctx.oracle_fail('geometry-differs', desc, f'geometry is not the union of the cell polygons{why} {how}')


def play_history(ctx, hist: dict, items: list) -> None:
    """Construct the convention objects of a history in order, in this process; judge every object (as it is made, or —
    `read: late` — after everything else was constructed) against the cells of the coordinate set it has to use."""
    steps = hist['steps']
    tokens = ['c:' + X6.set_label(s['recipe'], 'alt') if s['open'] == 'configured' else 'd' for s in steps]
    made = []

    def construct(k: int, step: dict) -> tuple:
        main, alt = X6.build_with_alt(step['recipe'])
        truth = X6.truth_of(step, main, alt)
        try:
            with warnings.catch_warnings():
                warnings.simplefilter('ignore')
                c, err = X6.open_step(step, main), ''
        except Exception as e:
            c, err = None, f'{type(e).__name__}: {e}'
        ctx.count(f"opens:{hist['family']}:{step['open']}" + (':late' if step.get('read') == 'late' else ''))
        return (k, step, main, alt, truth, c, err)

    def judge(entry) -> None:
        k, step, main, alt, truth, c, err = entry
        late = step.get('read') == 'late'
        desc = {'history': hist, 'step': k}
        kept, _, with_bounds = _cells_of(truth)
        said = {'default': 'opened without configuration', 'accessor': 'opened through dataset.ems',
                'configured': f"configured with {X6.alt_names(step['recipe']) if step['open'] == 'configured' else ''}"}[step['open']]
        others = [f"{s['recipe']['conv']} {s['open']}" for j, s in enumerate(steps) if (j != k if late else j < k)]
        how = (f"(object {k + 1} of {len(steps)} in this process, {said}"
               f"{', read after all were constructed' if late else ''}; constructed {'around' if late else 'before'} it: "
               f"{', '.join(others) or 'nothing'})")
        # ---- correspondence: the model plays the other constructions, then this one, on this dataset's coordinate sets
        sets = [(X6.set_label(step['recipe'], 'main'), main)]
        if alt is not None and X6.set_label(step['recipe'], 'alt') != sets[0][0]:
            sets.append((X6.set_label(step['recipe'], 'alt'), alt))
        parts = []
        for label, b in sets:
            _, vb, wb = _cells_of(b)
            parts.append(f"// {label} {S.polys_args(b)} valid={vb}" + ('' if wb else ' nob=1'))
        base_cls = step['open'] == 'configured' and step.get('spelling', {}).get('cls') == 'ArakawaC'
        hist_tokens = [t for j, t in enumerate(tokens) if (j != k if late else j < k)]
        line = (f"opens cls={'-' if base_cls else sets[0][0]} hist={','.join(hist_tokens) or '-'} use={tokens[k]} "
                + ' '.join(parts))
        if c is None:
            impl = 'ERR'
        else:
            try:
                impl = S.impl_polys_out(c, with_bounds=with_bounds)
            except Exception:
                impl = 'ERR'
        items.append((line, impl, {**desc, 'op': line}))
        if step['open'] == 'configured' or any(s['open'] == 'configured' for s in steps[:k]):
            ctx.nontrivial({'history': hist, 'step': k})
        # ---- direct oracle
        if c is None:
            ctx.oracle_fail('polygons-raise', desc, f'constructing the convention object raised {err} {how}')
            return
        _judge_cells(ctx, desc, c, kept, with_bounds, how)

    for k, step in enumerate(steps):
        entry = construct(k, step)
        if step.get('read') == 'late':
            made.append(entry)      # held; looked at after everything else was constructed
        else:
            judge(entry)
    for entry in made:
        judge(entry)


def configured_histories(ctx, items: list) -> None:
    rng = X6.own_rng(ctx.seed, ctx.searching)       # a stream of its own: the recipes above are what they were
    for k in range(ctx.budget(20, 120)):
        hist = X6.random_history(rng, X6.FAMILIES[k % len(X6.FAMILIES)], ctx.tier)
        ctx.guarded(lambda: play_history(ctx, hist, items), {'history': hist})
# ---- end extra6 --------------------------------------------------------------------------------------------------------


def run(ctx) -> None:
    items: list = []
    n = ctx.budget(160, 900)
    for k in range(n):
        recipe = make_recipe(ctx, k)
        ctx.guarded(lambda: examine(ctx, recipe, items), {'recipe': recipe})
    configured_histories(ctx, items)        # extra6 (last: what it constructs must not colour the cases above)
    if ctx.searching and ctx.driver is None:
        ctx.evaluated(len(items))
        return
    ctx.check_batch(items)


def run_one(ctx, inp: dict) -> dict:
    items: list = []
    sub = type(ctx)(ctx.prop, ctx.tier, ctx.seed)
    sub.known = []
    if 'history' in inp:        # extra6
        play_history(sub, inp['history'], items)
    else:
        examine(sub, inp['recipe'], items)
    out = {}
    if inp.get('op'):
        for line, impl, _ in items:
            if line == inp['op']:
                out['impl'] = impl
                if ctx.driver:
                    out['model'] = ctx.model([line])[0]
    if sub.oracle_failures:
        out['oracle'] = '; '.join(f"{f['signature']}: {f['message']}" for f in sub.oracle_failures)
    return out


def replay(ctx, data) -> int:
    return util.generic_replay(ctx, data, run_one)
