"""C06 — cell polygons and dataset extent are faithful to the dataset's coordinates."""
from __future__ import annotations

import warnings
from fractions import Fraction

import numpy as np
import shapely

from harness import util
from harness.gen import datasets as G
from harness.gen import geomspec as S

ID = 'C06'
MODULE = 'EmsModel.Props.C06'
DRIVER = 'C06'
REQUIRED = [
    'Ems.C06.cf1d_polygon_at', 'Ems.C06.cf1d_length', 'Ems.C06.midBounds_interior', 'Ems.C06.midBounds_outer',
    'Ems.C06.cf2d_polygon_at', 'Ems.C06.arakawa_polygon_at', 'Ems.C06.ugrid_polygon_at',
    'Ems.C06.missing_no_polygon', 'Ems.C06.storedCorners_spec', 'Ems.C06.ugrid_bad_node', 'Ems.C06.midBounds_length', 'Ems.C06.mask_iff', 'Ems.C06.invalid_dropped', 'Ems.C06.warned_iff',
    'Ems.C06.bbox_spec', 'Ems.C06.cf1d_box_is_union', 'Ems.C06.cf1d_cell_is_polygon',
]
RULE = ('datasets of every convention from the recipe generator: CF 1-D axes ascending / descending / non-uniform, '
        'with stored bounds (contiguous or gapped, the four axis directions in turn) and without, coordinates and bounds as xarray '
        'coordinates or plain variables; CF 2-D / SHOC simple sheared lattices with stored 4-corner bounds or derived '
        'bounds, holes, 1xN / Nx1 degenerate derived cells, bow-tie (self-intersecting) stored cells; SHOC standard node '
        'lattices with masked nodes; UGRID meshes mixing 3..8-gons, concave and collinear, 0/1-based, NaN / _FillValue / '
        'no fill, transposed, node coordinates as variables or coordinates. Compared: exact vertex lists of every '
        'polygon, mask, InvalidPolygonWarning, bounds; exact ring validity vs GEOS on every raw cell; geometry vs '
        'GEOS union of polygons; for CF 1-D grids the decision box-of-the-bounds / union-of-cells of the overall geometry. Non-trivial: dataset with a hole, an invalid cell, derived bounds, a non-quad face, '
        'or a non-default storage of coordinates; distinct by recipe.')
TRUSTED = ['GEOS is_valid / unary_union / equals; numpy nanmean, pad, stack, reshape']
ASSUMPTIONS = ['coordinates are small integers / dyadic rationals so every float operation on the code path is exact',
               'bounds_eq_bbox is checked where every stored bound / node belongs to a kept polygon (no invalid cell, no orphan node)']


def make_recipe(ctx, k: int) -> dict:
    rng = ctx.rng
    conv = G.CONVS[k % len(G.CONVS)]
    kw = {}
    if conv == 'cf1d':
        kw['coords_as'] = rng.choice(['coords', 'coords', 'vars'])
        kw['bounds_as'] = rng.choice(['vars', 'vars', 'coords'])
        if rng.random() < 0.4:
            kw['bounds'] = 'gaps'
    elif conv in ('cf2d', 'shoc_simple'):
        kw['coords_as'] = rng.choice(['coords', 'coords', 'vars'])
        kw['bounds_as'] = rng.choice(['vars', 'vars', 'coords'])
        kw['twist'] = True
    elif conv == 'shoc_standard':
        kw['coords_as'] = rng.choice(['coords', 'coords', 'vars'])
    else:
        kw['coords_as'] = rng.choice(['vars', 'vars', 'vars', 'coords'])
    recipe = G.random_recipe(rng, conv, ctx.tier, **kw)
    if conv == 'cf1d':
        # the four axis directions in turn (north-to-south latitudes, east-to-west longitudes)
        u = k // len(G.CONVS)
        recipe['lat'] = sorted(recipe['lat'], reverse=u % 2 == 1)
        recipe['lon'] = sorted(recipe['lon'], reverse=(u // 2) % 2 == 1)
    return recipe


def examine(ctx, recipe: dict, items: list) -> None:
    built = G.build(recipe)
    conv = built.conv
    desc = {'recipe': recipe}
    raw = built.polys
    vbits = S.geos_valid_bits(raw)
    kept = [q if (q is not None and vbits[n] == '1') else None for n, q in enumerate(raw)]
    any_invalid = any(q is not None and vbits[n] == '0' for n, q in enumerate(raw))
    # exact ring validity vs GEOS, on every raw cell
    for n, q in enumerate(raw):
        if q is not None and (n < 12 or vbits[n] == '0'):
            items.append((f'valid {S.ring_str_raw(q)}', vbits[n], {'recipe': recipe, 'op': f'valid {S.ring_str_raw(q)}'}))
    # bounds hypothesis: every stored bound / node belongs to a kept polygon
    orphan = False
    if conv == 'ugrid':
        used = {n for f in recipe['faces'] for n in f}
        orphan = len(used) != len(recipe['nodes'])
    with_bounds = not any_invalid and not orphan and any(k is not None for k in kept)
    snapshot = {str(n): np.array(v.values, copy=True) for n, v in built.ds.variables.items()}
    try:
        c = G.bind(built)
        impl = S.impl_polys_out(c, with_bounds=with_bounds)
    except Exception as e:
        c = None
        impl = f'ERR'
        err = f'{type(e).__name__}: {e}'
    line = f"polys {S.polys_args(built)} valid={vbits}" + ('' if with_bounds else ' nob=1')
    items.append((line, impl, {'recipe': recipe, 'op': line}))
    nontrivial = (any(q is None for q in raw) or any_invalid or recipe.get('bounds') == 'none'
                  or conv == 'ugrid' or recipe.get('coords_as') == 'vars' or recipe.get('bounds_as') == 'coords'
                  or recipe.get('enc', {}).get('coords_as') == 'coords')
    if nontrivial:
        ctx.nontrivial(recipe)
    ctx.count(f'conv:{conv}')
    if conv == 'cf1d' and c is not None:
        # the overall geometry of an axis-aligned grid: the box of its bounds, or (gaps) the union of the cells.
        # Observed topologically; the generator's bounds are either gap-free or leave true gaps.
        gl = 'cf1dgeom ' + S.polys_args(built)[len('cf1d '):]
        try:
            geom = c.geometry
            bb = tuple(float(v) for v in geom.bounds)
            if geom.equals(shapely.box(*bb)):
                gout = 'box ' + ','.join(S.num(Fraction(v)) for v in bb)
            else:
                gout = 'union'
        except Exception:
            gout = 'ERR'
        items.append((gl, gout, {'recipe': recipe, 'op': gl}))
        ctx.count(f'cf1d-geometry:{gout.split()[0]}')
    if any_invalid:
        ctx.count('has-invalid-cell')
    if any(q is None for q in raw):
        ctx.count('has-hole')
    # ---- reading the geometry leaves the dataset as it was (a second look, or a slice sharing the arrays, must see
    # the same coordinates)
    if c is not None:
        try:
            _ = c.bounds, c.geometry, c.polygons, c.face_centres
        except Exception:
            pass
        for n, before in snapshot.items():
            after = np.asarray(built.ds.variables[n].values)
            same = after.shape == before.shape and (
                np.array_equal(after, before, equal_nan=True) if before.dtype.kind == 'f' else np.array_equal(after, before))
            if not same:
                ctx.oracle_fail('dataset-modified-by-geometry', {**desc, 'variable': n},
                                f'variable {n} of the dataset changed while its geometry was read: '
                                f'{int(np.sum(np.isnan(after)) - np.sum(np.isnan(before))) if before.dtype.kind == "f" else "?"} more missing values')
                break
    # ---- direct oracle (independent of the Lean model) -------------------
    if c is None:
        sig = 'polygons-raise'
        if conv == 'ugrid' and recipe.get('enc', {}).get('coords_as') == 'coords':
            sig = 'ugrid-node-coords-as-coordinates-keyerror'
        ctx.oracle_fail(sig, desc, f'building polygons raised {err}')
        return
    polys = c.polygons
    if len(polys) != len(raw):
        ctx.oracle_fail('polygon-count', desc, f'{len(polys)} polygons for {len(raw)} cells')
        return
    for n, (p, q) in enumerate(zip(polys, kept)):
        if q is None:
            if p is not None:
                ctx.oracle_fail('polygon-for-missing-or-invalid-cell', {**desc, 'cell': n},
                                f'cell {n} has polygon {p.wkt} but its coordinates are missing / self-intersecting')
                break
        else:
            if p is None:
                ctx.oracle_fail('no-polygon-for-valid-cell', {**desc, 'cell': n}, f'cell {n} has no polygon, expected {S.ring_str(q)}')
                break
            got = S.impl_ring(p)
            if got != util.expected_ring(q):
                sig = 'polygon-differs'
                if conv == 'cf1d' and recipe.get('bounds') != 'none' and recipe.get('bounds_as') == 'coords':
                    sig = 'cf1d-bounds-as-coordinates-ignored'
                ctx.oracle_fail(sig, {**desc, 'cell': n}, f'cell {n}: polygon {S.ring_str(got)} expected {S.ring_str(q)}')
                break
    mask = [bool(m) for m in c.mask]
    if mask != [p is not None for p in polys]:
        ctx.oracle_fail('mask-inconsistent', desc, 'mask does not say which cells have polygons')
    # extent
    good = [shapely.Polygon([(float(x), float(y)) for x, y in q]) for q in kept if q is not None]
    if good and with_bounds:
        xs = [x for q in kept if q is not None for x, _ in q]
        ys = [y for q in kept if q is not None for _, y in q]
        exp = (min(xs), min(ys), max(xs), max(ys))
        try:
            got = tuple(Fraction(float(v)) for v in c.bounds)
        except Exception as e:
            got = f'ERR {e}'
        if got != exp:
            sig = 'bounds-differ'
            if conv == 'cf1d' and recipe.get('bounds') != 'none' and recipe.get('bounds_as') == 'coords':
                sig = 'cf1d-bounds-as-coordinates-ignored'
            ctx.oracle_fail(sig, desc, f'bounds {got} expected {exp}')
    if good and all(p is None or k is not None for p, k in zip(polys, kept)):
        try:
            geom = c.geometry
            union = shapely.unary_union(good)
            same = bool(geom.equals(union))
        except Exception as e:
            same = False
        if not same:
            sig = 'geometry-differs'
            if conv == 'cf1d' and recipe.get('bounds') == 'gaps':
                sig = 'cf1d-geometry-box-with-gapped-bounds'
            elif conv == 'cf1d' and recipe.get('bounds') != 'none' and recipe.get('bounds_as') == 'coords':
                sig = 'cf1d-bounds-as-coordinates-ignored'
            ctx.oracle_fail(sig, desc, 'geometry is not the union of the cell polygons')


def run(ctx) -> None:
    items: list = []
    n = ctx.budget(160, 900)
    for k in range(n):
        recipe = make_recipe(ctx, k)
        ctx.guarded(lambda: examine(ctx, recipe, items), {'recipe': recipe})
    if ctx.searching and ctx.driver is None:
        ctx.evaluated(len(items))
        return
    ctx.check_batch(items)


def run_one(ctx, inp: dict) -> dict:
    items: list = []
    sub = type(ctx)(ctx.prop, ctx.tier, ctx.seed)
    sub.known = []
    examine(sub, inp['recipe'], items)
    out = {}
    if inp.get('op'):
        for line, impl, _ in items:
            if line == inp['op']:
                out['impl'] = impl
                if ctx.driver:
                    out['model'] = ctx.model([line])[0]
    if sub.oracle_failures:
        out['oracle'] = '; '.join(f"{f['signature']}: {f['message']}" for f in sub.oracle_failures)
    return out


def replay(ctx, data) -> int:
    return util.generic_replay(ctx, data, run_one)
