"""C20 — command line tools compute exactly what the library computes."""
from __future__ import annotations

import argparse
import contextlib
import io
import json
import os
import pathlib
import re
import shutil
import subprocess
import sys
import tempfile
import unicodedata
import warnings
from fractions import Fraction

warnings.simplefilter('ignore')

from harness import util
from harness.gen import c20_extra as GX
from harness.gen import c20_extra6 as GX6
from harness.gen import cli as GC
from harness.gen import datasets as G

ID = 'C20'
MODULE = 'EmsModel.Props.C20'
DRIVER = 'C20'
EXTRA_MODULES = ['EmsModel.Props.C20Hist']      # round 6: geometry_argument over a history of the scratch directory
REQUIRED = [
    'Ems.C20.parseBounds_iff', 'Ems.C20.bounds_unambiguous', 'Ems.C20.not_bounds_never_box',
    'Ems.C20.bounds_denote_box', 'Ems.C20.geometry_argument_order', 'Ems.C20.guess_format_table',
    'Ems.C20.formats_have_writers', 'Ems.C20.unknown_format_fails', 'Ems.C20.exit_status',
    'Ems.C20.exit_status_nonzero', 'Ems.C20.pattern_text', 'Ems.C20.pattern_language',
    'Ems.C20.guess_table_generated', 'Ems.C20.format_choices_generated', 'Ems.C20.missing_points_generated',
    'Ems.C20.clip_handler_generated', 'Ems.C20.extract_points_handler_generated',
    'Ems.C20.export_geometry_handler_generated', 'Ems.C20.generated_handlers_write_last',
    # round 6 (Props/C20Hist.lean)
    'Ems.C20.replay_is_last_event', 'Ems.C20.geometry_argument_history_free', 'Ems.C20.geometry_argument_other_paths',
    'Ems.C20.file_version_is_current', 'Ems.C20.history_agrees_with_stateless',
]
RULE = ('bounds texts: corpus of minimal strings, texts drawn from the grammar of bounds_re (signs, the four '
        'numeral forms, underscores, non-ASCII decimal digits, every kind of blank around the commas), 24 kinds of '
        'near-miss mutations of them (trailing / leading garbage, 3 and 5 fields, empty fields, double or edge '
        'underscores, two dots, plus signs, exponents, inner and outer blanks, other commas / minus signs), an '
        'exhaustive sweep of short numeral candidates in each of the four positions, through the real '
        'bounds_argument, geometry_argument and bounds_re.fullmatch; the digit / blank classes of the model '
        'against re over all of Unicode; GeoJSON texts and file-name scenarios (valid, invalid, missing, '
        'unsupported suffix, directory, names that look like bounds or JSON) in a scratch directory; GeoJSON documents '
        'whose coordinates take many digits to write down (long decimals, fine dyadic fractions, a hair off a whole '
        'number, large and tiny magnitudes, a third ordinate; holes, multi-part, collections, Features), each once as '
        'the argument text and once as a file of some layout, compared ordinate for ordinate with shape(json.load); the suffix / '
        'guess / format / exit-status / command-name tables against the live objects; emsarray.cli.main(argv) '
        'in-process for clip, extract-points (each policy, hits and misses) and export-geometry (each format, '
        'explicit and guessed) on datasets of every convention written to disk, outputs compared with the library '
        'call, plus every user-caused failure scenario (exit status, message, no output left); clip boxes whose sides '
        'lie 2^-21 … 2^-30 away from a cell edge (as exact decimal bounds, GeoJSON text, GeoJSON file); point tables '
        'with free-text columns before / between / after the coordinate columns holding the characters that are '
        'special to some CSV dialect (# ; , quotes, tabs, outer blanks, line breaks, non-ASCII), written in the '
        'dialects pandas writes; point tables of hundreds / thousands (thorough: tens of thousands) of rows under '
        'every policy, the rows outside the model spread from the first to the last tenth of the file (recorded as '
        'row count + seed + missing rows, rebuilt from the dataset\'s ground truth), the row numbers along the point '
        'dimension compared on their own; point tables whose rows are placed ON the geometry by the generator\'s exact '
        'cell polygons (a cell vertex, the extreme vertices of the model, the middle of an edge of one cell / of two '
        'cells / of an edge on the model\'s bounding box, a small power of two inside / outside of these) under every '
        'policy; clip regions whose sides are cell-edge coordinates, the bounding box of the model, boxes that only touch '
        'it; histories within one process: a scratch directory that lives on while a geometry file is rewritten with '
        'another geometry / an unreadable document / removed / replaced by a directory / asked about under another '
        'spelling of its path, every step judged against what the path holds at that moment and sent to the model '
        'with the explicit event list (`fshist`); command runs that reuse the same input, region, table and output '
        'paths with new content (region file rewritten, point table rewritten, dataset rewritten). Non-trivial: a '
        'text that is not the bare `1,2,3,4` shape (has a sign / fraction / underscore / blank / non-ASCII digit '
        'or is a near miss), a geometry-argument scenario that reaches the JSON or file branch, a command run; '
        'distinct = distinct (operation, text / scenario).')
TRUSTED = [
    'Python re: `\\d` / `\\s` of a str pattern are the str.isdecimal() / str.isspace() character classes, tabulated in Ems.Cli.ndZeros / spaceCodes (compared with re over every code point on every run); the pattern text parses to the syntax tree Ems.Cli.boundsAst (proved: the tree prints to exactly the live pattern text; checked: bounds_re.fullmatch = model acceptance on every generated text)',
    'Python float(str) is the correctly rounded binary64 of the decimal numeral (modelled by Ems.Cli.toDouble in the driver; exact values are what the theorems speak about)',
    'json.loads, shapely.geometry.shape / box, pathlib.Path.suffix / exists: parameters of the model (their verdict is computed by calling them directly and passed on the op line)',
    'argparse: a type function raising ArgumentTypeError and an option value outside `choices` end in exit status 2 with a usage message',
    'equality of the files written by the commands with the library results is a runtime comparison (netCDF via xarray identical(), geometry files byte for byte), not a theorem',
]
ASSUMPTIONS = [
    'numerals have at most ~60 digits (binary64 overflow / underflow of float() is not modelled)',
    'the handlers are run with the default verbosity; warnings are silenced',
]
TECHNIQUE = ('Lean 4 proof over a hand-written model whose tables (bounds expression, extension table from the AST of guess_format, argparse '
             'choices) are regenerated from the code on every run + differential correspondence with the implementation')
LEVEL_NOTE = ('Proved: the bounds grammar (full-text match, exact values, unambiguity), the decision order of '
              'geometry_argument, the export format tables against the live writer table, the exit-status mapping and '
              'the validate-before-write order of the three handlers. Partial: CLI output = library result is compared at '
              'run time on generated datasets of every convention, not proved.')

TIME_UNITS = 'days since 1990-01-01 00:00:00'


def codes(s: str) -> str:
    return '.'.join(str(ord(c)) for c in s) if s else '-'


def lean_safe(s: str) -> bool:
    return all(not (0xD800 <= ord(c) <= 0xDFFF) for c in s) and len(s) < 400


def cli_utils():
    from emsarray.cli import utils
    return utils


# ---------------------------------------------------------------------------
# canonical forms of what the real code returns

def canon_ring(pts) -> str:
    """`BOX` + ring of a proper box; `BOXD` + sorted distinct corners of one that collapses to a
    segment or a point (GEOS drops repeated vertices there)"""
    pts = [(Fraction(float(p[0])), Fraction(float(p[1]))) for p in pts]
    if len({p[0] for p in pts}) < 2 or len({p[1] for p in pts}) < 2:
        return 'BOXD ' + ';'.join(f'{util.rat_str(x)},{util.rat_str(y)}' for x, y in sorted(set(pts)))
    return 'BOX ' + ';'.join(f'{util.rat_str(x)},{util.rat_str(y)}' for x, y in pts)


def canon_box(g) -> str:
    coords = list(g.exterior.coords)
    return canon_ring(coords[:-1] if len(coords) > 1 and coords[0] == coords[-1] else coords)


def usage_kind(msg: str) -> str:
    m = msg.lower()
    if 'four comma' in m:
        return 'ERR:not-bounds'
    if 'geojson string' in m:
        return 'ERR:invalid-geojson'
    if 'can not be parsed' in m or 'existing' in m:
        return 'ERR:not-found'
    if 'not valid geojson' in m:
        return 'ERR:bad-file'
    if 'unsupported' in m:
        return 'ERR:unsupported-file'
    return 'ERR:other-usage'


def is_box_like(g) -> bool:
    if g.geom_type != 'Polygon' or g.interiors or g.has_z or g.is_empty:
        return False
    coords = list(g.exterior.coords)
    return len(coords) == 5 or len({c[0] for c in coords}) < 2 or len({c[1] for c in coords}) < 2


def real_bounds_argument(s: str):
    u = cli_utils()
    try:
        g = u.bounds_argument(s)
    except argparse.ArgumentTypeError as e:
        return usage_kind(str(e)), None
    except Exception as e:  # noqa
        return f'ERR:raised:{type(e).__name__}', None
    return (canon_box(g) if is_box_like(g) else 'GEOM:' + g.wkt), g


def expected_box_floats(cores):
    """(x0, y0, x1, y1) the four numerals denote, through float() of each numeral in full"""
    return [float(GC.numeral_value(c)) for c in cores]


def ring_of(vals) -> str:
    x0, y0, x1, y1 = vals
    return canon_ring([(x1, y0), (x1, y1), (x0, y1), (x0, y0)])


def bounds_oracle(ctx, s: str, out: str, where: str, desc: dict) -> None:
    """Direct statement of the property on one text and what the real code made of it."""
    verdict, cores = GC.classify_bounds(s)
    accepted = out.startswith('BOX')
    u = cli_utils()
    m = u.bounds_re.match(s)
    fm = u.bounds_re.fullmatch(s)
    # the reading is the one a *prefix* match of the live pattern gives, and differs from the full match
    prefix_cause = False
    if accepted and m is not None and reads_differ(m, fm):
        try:
            prefix_cause = out == ring_of([float(g) for g in m.groups()])
        except ValueError:
            prefix_cause = False
    if verdict == 'reject':
        if accepted:
            sig = 'bounds-prefix-match' if prefix_cause else 'bounds-grammar-accepts-junk'
            ctx.oracle_fail(sig, desc, f'{where}({s!r}) is not four comma-separated numbers but was taken as bounds: {out}')
        return
    want = ring_of(expected_box_floats(cores))
    if accepted and verdict == 'open' and prefix_cause:
        # blanks before the first / after the last number: the code's own grammar, read in full, does not
        # allow them, yet the text was taken as bounds — only because the rest of it was never looked at
        ctx.oracle_fail('bounds-prefix-match', desc,
                        f'{where}({s!r}) = {out}: taken as bounds although bounds_re does not describe the whole text')
    elif accepted and out != want:
        sig = 'bounds-prefix-match' if prefix_cause else 'bounds-wrong-values'
        ctx.oracle_fail(sig, desc, f'{where}({s!r}) = {out}, but the four numbers {cores} denote {want}')
    elif verdict == 'accept' and not accepted:
        ctx.oracle_fail('bounds-rejected', desc, f'{where}({s!r}) = {out}: four well-formed numbers were not taken as bounds')


# ---------------------------------------------------------------------------
# case evaluation: every case is a JSON-able dict; evaluate() runs the REAL code and returns
# (op line for the model, canonical output of the real code).  The oracle is applied here too.

def evaluate(ctx, case: dict, work: pathlib.Path | None = None):
    k = case['k']
    u = cli_utils()
    desc = {'case': case}
    if k == 'classes':
        lo, hi = case['lo'], case['hi']
        parts = []
        for cp in range(lo, hi):
            if 0xD800 <= cp <= 0xDFFF:
                continue
            c = chr(cp)
            if re.fullmatch(r'\d', c):
                d = unicodedata.decimal(c)
                if float(c) != d or int(c) != d:
                    ctx.oracle_fail('digit-value', desc, f'float({c!r}) != its decimal value {d}')
                parts.append(f'{cp}=d{d}')
            elif re.fullmatch(r'\s', c):
                parts.append(f'{cp}=s')
        return f'classes {lo} {hi}', (','.join(parts) if parts else '-')
    if k == 'pattern':
        return 'pattern', u.bounds_re.pattern + f' flags={int(u.bounds_re.flags)}'
    if k == 'accepts':
        s = case['s']
        return f'accepts {codes(s)}', '1' if u.bounds_re.fullmatch(s) is not None else '0'
    if k == 'exact':
        # exact values of the four numerals the live pattern captures on a full match, each group
        # evaluated digit by digit in Python; cross-checked with the generator's ground truth
        s = case['s']
        fm = u.bounds_re.fullmatch(s)
        def value(g):
            try:
                return util.rat_str(GC.numeral_value(g))
            except Exception:  # noqa -- the live pattern captured something that is not a numeral
                return f'?{codes(g)}'
        out = '-' if fm is None else ' '.join(value(g) for g in fm.groups())
        if case.get('values') is not None:
            want = ' '.join(util.rat_str(Fraction(v)) for v in case['values'])
            if out != want:
                ctx.oracle_fail('grammar-text-not-matched', desc,
                                f'bounds_re.fullmatch({s!r}) gives {out}, the text was built from the numerals {want}')
        return f'exact {codes(s)}', out
    if k == 'bounds':
        s = case['s']
        out, _ = real_bounds_argument(s)
        bounds_oracle(ctx, s, out, 'bounds_argument', desc)
        return f'bounds {codes(s)}', out
    if k == 'propcheck':
        return f'propcheck {codes(case["s"])}', 'ok'
    if k == 'geom':
        return eval_geom(ctx, case, work)
    if k == 'suffix':
        name = case['name']
        return f'suffix {codes(name)}', codes(pathlib.Path('/x/' + name).suffix)
    if k == 'guess':
        from emsarray.cli import CommandException
        from emsarray.cli.commands import export_geometry as eg
        name = case['name']
        if not hasattr(eg.Command, 'guess_format'):
            return None, 'guess_format is not a method any more: covered through main() only'
        try:
            out = eg.Command().guess_format(pathlib.Path('/x/' + name))
        except CommandException as e:
            out = 'ERR:command' if e.code != 0 else 'ERR:command-code-0'
        except Exception as e:  # noqa
            out = f'ERR:raised:{type(e).__name__}'
        return f'guess {codes(name)}', out
    if k == 'cmdname':
        return eval_cmdname(ctx, case)
    if k == 'choices':
        import importlib
        m = importlib.import_module(f"emsarray.cli.commands.{case['module']}")
        parser = argparse.ArgumentParser()
        m.Command().add_arguments(parser)
        action = next(a for a in parser._actions if case['option'] in a.option_strings)
        out = ','.join(map(str, action.choices or []))
        if case['option'] == '--missing-points' and action.default != (action.choices or [None])[0]:
            out += f' default={action.default}'
        if case['option'] == '--format' and action.default != 'auto':
            out += f' default={action.default}'
        return f"choices {case['option'].lstrip('-')}", out
    if k == 'exit':
        return eval_exit(ctx, case)
    if k == 'double':
        t = case['t']
        return f'double {util.rat_str(GC.numeral_value(t))}', util.rat_str(float(t))
    if k == 'cmd':
        return eval_cmd(ctx, case, work)
    # >>> round 6: histories (several uses of the same paths in one process); these return LISTS of lines / outputs
    if k == 'geomhist':
        return eval_geomhist(ctx, case, work)
    if k == 'cmdhist':
        return eval_cmdhist(ctx, case, work)
    # <<< round 6
    raise ValueError(f'unknown case kind {k}')


# ---------------------------------------------------------------------------
# >>> round 6: histories

def hist_dir(work: pathlib.Path, case: dict) -> pathlib.Path:
    """the scratch directory of one history: one fixed path for all its steps"""
    d = work / ('hist-' + re.sub(r'[^A-Za-z0-9]', '_', str(case.get('dir', '0'))))
    shutil.rmtree(d, ignore_errors=True)
    return d


def eval_geomhist(ctx, case: dict, work: pathlib.Path):
    """A history of one scratch directory: every step changes some files (`set`: text = (re)written, None = a
    directory, False = removed) and then evaluates geometry_argument on a path.  Every step is judged like a single
    `geom` case - against what the directory holds at that moment - and, for the model with an explicit history
    (`fshist`), the geometry returned is named by the version of the text it equals (generator's ground truth)."""
    from shapely.geometry import shape
    d = hist_dir(work, case)
    d.mkdir(parents=True)
    events, versions, current = [], {}, {}
    lines, impls = [], []
    try:
        for i, step in enumerate(case['steps']):
            desc = {'case': dict(case, steps=case['steps'][:i + 1]), 'step': i}
            for name, content in step['set'].items():
                p = d / name
                if content is False:
                    if p.is_dir():
                        shutil.rmtree(p)
                    elif p.exists():
                        p.unlink()
                    events.append(f'{codes(name)}=a')
                    current.pop(name, None)
                elif content is None:
                    p.mkdir(parents=True, exist_ok=True)
                    events.append(f'{codes(name)}=d')
                    current.pop(name, None)
                else:
                    p.parent.mkdir(parents=True, exist_ok=True)
                    p.write_text(content)
                    ver = step.get('ver', {}).get(name)
                    if ver is not None:
                        try:
                            versions[ver] = shape(json.loads(content))
                        except Exception:  # noqa -- an unreadable document
                            versions[ver] = None
                        events.append(f'{codes(name)}=f{ver}:{int(versions[ver] is not None)}')
                        current[name] = ver
            line, out, g = geom_in_dir(ctx, {'s': step['s'], 'name': step['name']}, d, desc)
            ctx.count('geomhist:step')
            ctx.nontrivial(('geomhist', case.get('dir'), i, step['s']))
            if line is None:
                continue
            lines.append(line)
            impls.append(out)
            # which of the texts written so far is the geometry that came back?
            cur = current.get(step['path'])
            named = out
            if g is not None and not out.startswith('BOX') and out != 'JSON':
                if cur is not None and versions.get(cur) is not None and g.wkb == versions[cur].wkb:
                    named = f'FILE:{cur}'
                else:
                    old = [v for v, geom in sorted(versions.items(), reverse=True) if geom is not None and g.wkb == geom.wkb]
                    named = f'FILE:{old[0]}' if old else out
                    if old:
                        ctx.oracle_fail('geometry-file-stale', desc,
                                        f'geometry_argument({step["s"]!r}) returned the geometry of text no. {old[0]} written in this '
                                        f'history; the path now holds ' + (f'text no. {cur}' if cur is not None else 'no readable text'))
            jout = line.split()[2]
            lines.append(' '.join(['fshist', codes(step['s']), jout, codes(step['path']), codes(step['name'])] + events))
            impls.append(named)
        return lines, impls
    finally:
        shutil.rmtree(d, ignore_errors=True)


def eval_cmdhist(ctx, case: dict, work: pathlib.Path):
    """A history of command runs in ONE scratch directory: the input, the geometry file, the point table and the output
    have the same paths in every step, their content changes.  Every step is judged exactly like a single run."""
    d = hist_dir(work, case)
    lines, impls = [], []
    for i, step in enumerate(case['steps']):
        desc = {'case': dict(case, steps=case['steps'][:i + 1]), 'step': i}
        line, impl = eval_cmd(ctx, step, work, fixed=d, desc=desc)
        ctx.count(f"cmdhist:{step['cmd']}:{step.get('scenario', 'ok')}")
        if line is not None:
            lines.append(line)
            impls.append(impl)
    return lines, impls
# <<< round 6


# ---------------------------------------------------------------------------
# geometry_argument in a scratch directory

def eval_geom(ctx, case: dict, work: pathlib.Path):
    """case: s (argument text, relative names resolve inside the scratch dir), files {name: text | None=dir},
    name (final component of the path the text denotes)"""
    d = pathlib.Path(tempfile.mkdtemp(prefix='geom', dir=work))
    try:
        for name, content in case.get('files', {}).items():
            p = d / name
            p.parent.mkdir(parents=True, exist_ok=True)
            if content is None:
                p.mkdir()
            else:
                p.write_text(content)
        return geom_in_dir(ctx, case, d, {'case': case})[:2]
    finally:
        shutil.rmtree(d, ignore_errors=True)


def geom_in_dir(ctx, case: dict, d: pathlib.Path, desc: dict):
    """geometry_argument(case['s']) with `d` as the working directory, judged against what the directory holds now;
    returns (model line, canonical output, geometry returned or None)"""
    from shapely.geometry import shape
    u = cli_utils()
    s = case['s']
    if True:
        # parameters of the model, computed by calling the external libraries directly
        try:
            obj = json.loads(s)
            try:
                jgeom = shape(obj)
                jout = 'geometry'
            except Exception:  # noqa
                jgeom, jout = None, 'notgeometry'
        except RecursionError:
            jgeom, jout = None, 'nojson'
        except (ValueError, KeyError):
            jgeom, jout = None, 'nojson'
        old = os.getcwd()
        os.chdir(d)
        try:
            try:
                p = pathlib.Path(s)
                exists = p.exists()
            except (ValueError, OSError):
                # a text the OS cannot even ask about (NUL byte, over-long name); irrelevant when the text is JSON
                exists = None if jout == 'nojson' else False
            fgeom, loads = None, False
            if exists:
                try:
                    with p.open('r') as f:
                        fgeom = shape(json.load(f))
                    loads = True
                except Exception:  # noqa
                    loads = False
            try:
                g = u.geometry_argument(s)
            except argparse.ArgumentTypeError as e:
                out, g = usage_kind(str(e)), None
            except Exception as e:  # noqa
                out, g = f'ERR:raised:{type(e).__name__}', None
        finally:
            os.chdir(old)
        if g is not None:
            if jgeom is not None and g.wkb == jgeom.wkb:
                out = 'JSON'
            elif fgeom is not None and g.wkb == fgeom.wkb:
                out = 'FILE'
            elif is_box_like(g) and not (s.count(',') < 3 or jout == 'geometry'):
                out = canon_box(g)
            else:
                # (a text with fewer than four fields, or a GeoJSON document, cannot have been read as bounds:
                # a rectangle that comes out of it is a wrong geometry, not a bounds reading)
                out = 'GEOM:' + g.wkt
        # oracle: bounds reading, and "a GeoJSON string or file denotes exactly that geometry"
        bounds_oracle(ctx, s, out, 'geometry_argument', desc)
        verdict, _ = GC.classify_bounds(s)
        if verdict == 'reject':
            if jout == 'geometry' and out != 'JSON':
                ctx.oracle_fail('geojson-text-wrong-geometry', desc,
                                f'geometry_argument({s!r}) = {out}, the GeoJSON text denotes {jgeom.wkt}')
            if jout == 'nojson' and exists and loads and case.get('name', '').endswith(('.json', '.geojson')) \
                    and not case.get('name', '').startswith('.') and out != 'FILE' and not out.startswith('BOX'):
                ctx.oracle_fail('geojson-file-wrong-geometry', desc,
                                f'geometry_argument({s!r}) = {out}, the file holds {fgeom.wkt}')
            # ---- round 6: what the path holds NOW decides; a file that cannot be read, or is not there, is a failure
            json_name = case.get('name', '').endswith(('.json', '.geojson')) and not case.get('name', '').startswith('.')
            if jout == 'nojson' and exists and not loads and json_name and g is not None:
                ctx.oracle_fail('unreadable-geometry-file-accepted', desc,
                                f'geometry_argument({s!r}) = {out}, but the file does not hold a GeoJSON geometry')
            if jout == 'nojson' and exists is False and g is not None:
                ctx.oracle_fail('missing-geometry-file-accepted', desc,
                                f'geometry_argument({s!r}) = {out}, but there is no such file')
        if exists is None:
            # a text pathlib / the OS cannot even ask about (NUL byte …): outside the model
            return None, out, g
        line = f"geom {codes(s)} {jout} {int(bool(exists))} {codes(case.get('name', ''))} {int(loads)}"
        return line, out, g


# ---------------------------------------------------------------------------
# nice_console_errors, command names

EXC = {
    'FileNotFoundError': ('os', lambda: FileNotFoundError("'./foo.txt' does not exist")),
    'PermissionError': ('os', lambda: PermissionError('denied')),
    'IsADirectoryError': ('os', lambda: IsADirectoryError('is a directory')),
    'OSError': ('os', lambda: OSError('io')),
    'ValueError': ('uncaught', lambda: ValueError('bad value')),
    'KeyError': ('uncaught', lambda: KeyError('lon')),
    'ZeroDivisionError': ('uncaught', lambda: ZeroDivisionError('division by zero')),
    'RuntimeError': ('uncaught', lambda: RuntimeError('boom')),
    'ArgumentTypeError': ('uncaught', lambda: argparse.ArgumentTypeError('late')),
    'KeyboardInterrupt': ('interrupt', lambda: KeyboardInterrupt()),
}


def eval_exit(ctx, case: dict):
    from emsarray.cli import CommandException
    u = cli_utils()
    name = case['exc']
    err, outb = io.StringIO(), io.StringIO()
    if name == 'CommandException':
        code = case.get('code')
        kind = 'command' if code is None else f'command:{code}'
        make = (lambda: CommandException('Could not frobnicate')) if code is None else \
            (lambda: CommandException('Could not frobnicate', code=code))
    else:
        kind, make = EXC[name]
    status = 'none'
    with contextlib.redirect_stderr(err), contextlib.redirect_stdout(outb):
        u.set_verbosity(1)
        try:
            with u.nice_console_errors():
                raise make()
        except SystemExit as e:
            status = e.code
        except BaseException as e:  # noqa
            status = f'raised:{type(e).__name__}'
    msg = int(bool(err.getvalue().strip()))
    desc = {'case': case}
    if status == 0 and not (name == 'CommandException' and case.get('code') == 0):
        ctx.oracle_fail('failure-exit-zero', desc, f'{name} inside nice_console_errors ended with exit status 0')
    if not msg and kind != 'interrupt':
        ctx.oracle_fail('failure-without-message', desc, f'{name} inside nice_console_errors printed nothing')
    return f'exit {kind}', f'EXIT:{status} msg:{msg}'


def eval_cmdname(ctx, case: dict):
    import importlib
    mod = case['module']
    m = importlib.import_module(f'emsarray.cli.commands.{mod}')
    return f'cmdname {codes(mod)}', codes(m.Command().name)


# ---------------------------------------------------------------------------
# running the command line in-process

def run_main(argv: list[str]):
    from emsarray.cli import main
    err, out = io.StringIO(), io.StringIO()
    with contextlib.redirect_stderr(err), contextlib.redirect_stdout(out):
        try:
            main(list(argv))
            code = 0
        except SystemExit as e:
            code = e.code if e.code is not None else 0
        except BaseException as e:  # noqa  -- escaped the error handler altogether
            code = f'raised:{type(e).__name__}'
    return code, err.getvalue(), out.getvalue()


def build_dataset(recipe: dict, path: pathlib.Path):
    """Write the generated dataset to disk (the command line only ever sees files)."""
    import numpy as np
    import pandas as pd
    import xarray as xr
    b = G.build(recipe['ds'])
    ds = b.ds
    if recipe.get('timecoord') and 'time' in ds.dims:
        n = ds.sizes['time']
        name = 't' if b.conv == 'shoc_standard' else 'time'
        t = xr.DataArray(pd.date_range('2000-01-01', periods=n).values, dims=['time'])
        t.encoding['units'] = TIME_UNITS
        ds = ds.assign_coords({name: t})
    if recipe.get('pack'):
        ds = G.pack_coordinates(ds, skip=b.vars)
    ds.to_netcdf(path)
    return b


def ds_digest(ds) -> str:
    """short, order-independent description used only in messages"""
    return ', '.join(f'{k}{tuple(v.shape)}' for k, v in sorted(ds.variables.items()))


def compare_datasets(lib, path: pathlib.Path):
    """None if the file holds exactly the library result, else a description"""
    import xarray as xr
    try:
        cli = xr.open_dataset(path)
        cli.load()
        cli.close()
    except Exception as e:  # noqa
        return f'output not readable: {type(e).__name__}: {e}'
    try:
        xr.testing.assert_identical(lib, cli)
    except AssertionError as e:
        return str(e)[:600]
    return None


def row_numbers_differ(lib, path: pathlib.Path, dim: str):
    """the coordinate along the point dimension says which row of the table each extracted point is: a description
    of where the file departs from the library result in it, or None if it does not"""
    import numpy as np
    import xarray as xr
    try:
        with xr.open_dataset(path) as cli:
            got = None if dim not in cli.variables else np.asarray(cli[dim].values)
        want = None if dim not in lib.variables else np.asarray(lib[dim].values)
        if got is None or want is None:
            return None if got is want else f'`{dim}` coordinate: file has {"none" if got is None else "one"}, library has {"none" if want is None else "one"}'
        if got.shape != want.shape:
            return f'`{dim}` has {got.shape[0] if got.ndim else 0} values in the file, {want.shape[0] if want.ndim else 0} in the library result'
        bad = np.flatnonzero(got != want)
        if bad.size == 0:
            return None
        i = int(bad[0])
        return (f'row numbers (`{dim}`) differ at {bad.size} of {got.size} positions, first at position {i}: '
                f'file says row {got[i].item()!r}, library says row {want[i].item()!r}')
    except Exception:  # noqa -- the general comparison has already said that the file differs
        return None


def geometry_files(path: pathlib.Path) -> dict:
    """all files the geometry writers produce for an output path (shapefile: .shp .shx .dbf .prj)"""
    out = {}
    for p in sorted(path.parent.iterdir()):
        if p.stem == path.stem and p.is_file():
            out[p.suffix] = p.read_bytes()
    return out


def sniff_format(files: dict) -> str:
    if '.shp' in files and '.dbf' in files:
        return 'shapefile'
    if len(files) != 1:
        return f'?{sorted(files)}'
    data = next(iter(files.values()))
    try:
        text = data.decode('utf-8')
    except UnicodeDecodeError:
        return 'wkb'
    t = text.lstrip()
    if t.startswith('{'):
        return 'geojson'
    if t.upper().startswith(('MULTIPOLYGON', 'POLYGON', 'GEOMETRYCOLLECTION')):
        return 'wkt'
    return 'wkb' if data[:1] in (b'\x00', b'\x01') else '?'


def clip_geometry_for(b, rng):
    """a box with quarter-integer corners around one cell (so it meets the dataset), grown by a random
    share of the dataset's extent; from the generator's ground truth"""
    polys = [p for p in b.polys if p]
    xs = [float(x) for poly in polys for x, _ in poly]
    ys = [float(y) for poly in polys for _, y in poly]
    cell = rng.choice(polys)
    cx = [float(x) for x, _ in cell]
    cy = [float(y) for _, y in cell]
    gx = (max(xs) - min(xs)) * rng.choice([0, 0.25, 0.5, 1])
    gy = (max(ys) - min(ys)) * rng.choice([0, 0.25, 0.5, 1])
    q = lambda v: round(v * 4) / 4     # noqa: E731
    x0, x1 = q(min(cx) - gx * rng.random()), q(max(cx) + gx * rng.random())
    y0, y1 = q(min(cy) - gy * rng.random()), q(max(cy) + gy * rng.random())
    if x1 <= x0:
        x1 = x0 + 1
    if y1 <= y0:
        y1 = y0 + 1
    return [x0, y0, x1, y1]


def fmt_number(rng, v: float) -> str:
    """one of the numeral spellings of a quarter-integer"""
    neg = v < 0
    a = abs(v)
    ip, fp = int(a), a - int(a)
    frac = {0.0: '', 0.25: '25', 0.5: '5', 0.75: '75'}[fp]
    ips = str(ip)
    if len(ips) > 1 and rng.random() < 0.3:
        ips = ips[0] + '_' + ips[1:]
    if rng.random() < 0.15:
        ips = '0' + ips
    if frac:
        t = (ips if (ip or rng.random() < 0.5) else '') + '.' + frac + rng.choice(['', '', '0', '_0'])
    else:
        t = ips + rng.choice(['', '', '.', '.0', '.0_0'])
    return ('-' if neg else '') + t


def eval_cmd(ctx, case: dict, work: pathlib.Path, fixed: pathlib.Path | None = None, desc: dict | None = None):
    """One run of `emsarray <command>`; compares with the library call and with the step model.
    `fixed` (round 6): the scratch directory of a history - the same paths as in the step before, new content."""
    import pandas as pd
    import emsarray
    from shapely.geometry import box, shape
    desc = desc or {'case': case}
    if fixed is None:
        d = pathlib.Path(tempfile.mkdtemp(prefix='cmd', dir=work))
    else:
        import gc
        gc.collect()        # nothing of the step before keeps a file of this directory open
        d = fixed
        d.mkdir(parents=True)
    cmd = case['cmd']
    scenario = case.get('scenario', 'ok')
    try:
        inp = d / 'in.nc'
        built = build_dataset(case['recipe'], inp)
        out_name = case.get('out', 'out.nc')
        outp = d / 'result' / out_name
        outp.parent.mkdir()
        lib_dir = d / 'lib'
        lib_dir.mkdir()
        argv = [cmd]
        lib_result = None
        lib_error = None
        if scenario == 'missing-input':
            inp = d / 'absent.nc'
        if scenario == 'garbage-input':
            inp = d / 'garbage.nc'
            inp.write_text('this is not a netCDF file')
        if scenario == 'no-convention':
            import xarray as xr
            inp = d / 'plain.nc'
            xr.Dataset({'a': ('n', [1.0, 2.0])}).to_netcdf(inp)
        if scenario == 'missing-outdir':
            outp = d / 'no' / 'such' / 'dir' / out_name
            # how the external writer (netCDF4 through xarray / open()) reports a missing directory
            try:
                if cmd == 'export-geometry':
                    open(outp, 'w').close()
                else:
                    import xarray as xr
                    xr.Dataset({'a': ('n', [1.0])}).to_netcdf(outp)
            except OSError:
                case = dict(case, failure='os')
            except Exception:  # noqa
                case = dict(case, failure='uncaught')

        # ---- command specific arguments and the library call ----------------------
        if cmd == 'clip':
            how = case.get('geom_how', 'bounds')
            vals = case['bounds']
            if how == 'bounds':
                geom_arg = case['bounds_text']
            elif how == 'json':
                geom_arg = json.dumps(box(*vals).__geo_interface__)
            else:
                gp = d / case.get('geom_file', 'clip.geojson')
                # (round 6: `geom_file_text` = a file that does not hold this geometry, e.g. an unreadable document)
                gp.write_text(case['geom_file_text'] if 'geom_file_text' in case else json.dumps(box(*vals).__geo_interface__))
                geom_arg = str(gp)
            if scenario == 'bad-geometry':
                geom_arg = case.get('bad_geometry', geom_arg)
            argv += ['--', str(inp), geom_arg, str(outp)]
            if case.get('work_dir') == 'same':
                # scratch files kept next to the result: the directory the output goes to is also the work directory
                outp.parent.mkdir(parents=True, exist_ok=True)
                argv = [cmd, '--work_dir', str(outp.parent)] + argv[1:]
            elif case.get('work_dir'):
                wd = d / 'wd'
                wd.mkdir()
                argv = [cmd, '--work_dir', str(wd)] + argv[1:]

            def library():
                ds = emsarray.open_dataset(inp)
                with tempfile.TemporaryDirectory(dir=d) as wd2:
                    res = ds.ems.clip(box(*vals), work_dir=wd2)
                    res.load()
                ds.close()
                return res
        elif cmd == 'extract-points':
            csv = d / 'points.csv'
            cols = case.get('columns', ['lon', 'lat'])
            # a long table is recorded as (row count, seed, rows outside the model) and rebuilt from the generator's
            # ground truth of the dataset
            table = case['table'] if 'table' in case else GX.long_points_table(case['long_table'], built.polys, cols)
            df = pd.DataFrame(table)
            if case.get('table_order'):
                df = df[list(case['table_order'])]      # replay files are written with sorted keys
            if scenario == 'missing-csv':
                csv = d / 'absent.csv'
            elif scenario == 'empty-csv':
                csv.write_text('')
            else:
                df.to_csv(csv, index=False, **GX.csv_kwargs(case.get('csv_style', 'default')))
            argv += [str(inp), str(csv), str(outp)]
            policy = case.get('policy')
            if policy:
                argv += ['--missing-points', policy]
            if cols != ['lon', 'lat'] or case.get('explicit_columns'):
                argv += ['-c', *case.get('columns_arg', cols)]
            if case.get('dim'):
                argv += ['-d', case['dim']]

            def library():
                from emsarray.operations import point_extraction
                ds = emsarray.open_dataset(inp)
                res = point_extraction.extract_dataframe(
                    ds, pd.read_csv(csv), tuple(case.get('columns_arg', cols)),
                    point_dimension=case.get('dim') or 'point', missing_points=policy or 'error')
                res.load()
                ds.close()
                return res
        elif cmd == 'export-geometry':
            argv += [str(inp), str(outp)]
            fmt = case.get('format')
            if fmt:
                argv += ['-f', fmt]

            def library():
                from emsarray.operations import geometry
                writer = {'geojson': geometry.write_geojson, 'shapefile': geometry.write_shapefile,
                          'wkt': geometry.write_wkt, 'wkb': geometry.write_wkb}[case['expect_format']]
                ds = emsarray.open_dataset(inp)
                target = lib_dir / out_name
                writer(ds, target)
                ds.close()
                return geometry_files(target)
        else:
            raise ValueError(cmd)
        if scenario == 'missing-outdir':
            # the write step is reached only if the library calls before it go through on this dataset
            try:
                library()
            except Exception as e:  # noqa
                from emsarray.operations.point_extraction import NonIntersectingPoints
                kind = 'os' if isinstance(e, OSError) else 'command' if isinstance(e, NonIntersectingPoints) else 'uncaught'
                lib_step = {'clip': 'clip', 'extract-points': 'extract-dataframe', 'export-geometry': 'polygons'}[cmd]
                case = dict(case, step=lib_step, failure=kind, write_step=False)
                ctx.count('cmd:write-scenario-stopped-by-library')
        if scenario == 'unknown-option':
            argv.append('--definitely-not-an-option')
        if scenario == 'unknown-command':
            argv = [case['bad_command']] + argv[1:]
        if scenario == 'missing-argument':
            argv = argv[:-1] if cmd != 'clip' else [cmd, str(inp)]

        # ---- run -------------------------------------------------------------------
        code, err, out = run_main(argv)
        has_out = bool(geometry_files(outp)) if outp.parent.exists() else False
        msg = int(bool(err.strip()))

        # ---- library ------------------------------------------------------------------
        if scenario == 'points-miss':
            # what the handler must do follows from what the library call does with these points
            from emsarray.operations.point_extraction import NonIntersectingPoints
            try:
                library()
                case = dict(case, scenario='ok')
                scenario = 'ok'
            except NonIntersectingPoints:
                case = dict(case, failure='command')
            except Exception:  # noqa
                case = dict(case, failure='uncaught')
        if scenario == 'ok':
            try:
                lib_result = library()
            except Exception as e:  # noqa
                lib_error = f'{type(e).__name__}: {e}'
                ctx.notes.append(f'{cmd} library: {lib_error[:300]}') if len(ctx.notes) < 40 else None

        # ---- oracle: exit status, message, nothing left behind; output = library ----------
        shown = ' '.join(argv).replace(str(d), '.')
        if code != 0:
            if not msg:
                ctx.oracle_fail('failure-without-message', desc, f'`emsarray {shown}` ended with status {code} and printed nothing')
            if has_out:
                ctx.oracle_fail('output-left-after-failure', desc,
                                f'`emsarray {shown}` ended with status {code} ({err.strip().splitlines()[-1][:200] if err.strip() else ""}) '
                                f'but left {sorted(geometry_files(outp))} behind')
        if isinstance(code, str):
            ctx.oracle_fail('exception-escaped', desc, f'`emsarray {shown}`: {code} escaped the error handler')
        if scenario != 'ok':
            if code == 0:
                ctx.oracle_fail('failure-exit-zero', desc, f'`emsarray {shown}` ({scenario}) ended with status 0')
        else:
            if lib_error is not None:
                ctx.count('cmd:library-raises')
                if code == 0:
                    ctx.oracle_fail('cli-succeeds-where-library-fails', desc,
                                    f'`emsarray {shown}` ended with status 0, the library call raises {lib_error}')
            elif code != 0 and has_out:
                pass    # already reported above: a failure status with the output left behind
            elif code != 0:
                sig = 'cli-fails-where-library-succeeds'
                if cmd == 'clip' and case.get('geom_how') == 'bounds' and prefix_misread(case['bounds_text']):
                    sig = 'bounds-prefix-match'
                ctx.oracle_fail(sig, desc, f'`emsarray {shown}` ended with status {code} '
                                f'({err.strip().splitlines()[-1][:200] if err.strip() else ""}); the library call succeeds')
            else:
                if cmd == 'export-geometry':
                    files = geometry_files(outp)
                    diff = None if files == lib_result else \
                        f'files {sorted(files)} vs library {sorted(lib_result)}; format looks like {sniff_format(files)}'
                else:
                    diff = compare_datasets(lib_result, outp)
                if diff is not None:
                    sig = f'cli-{cmd}-differs'
                    if cmd == 'extract-points':
                        rows = row_numbers_differ(lib_result, outp, case.get('dim') or 'point')
                        if rows:
                            sig, diff = 'cli-extract-points-row-numbers', rows + ' | ' + diff
                    if cmd == 'clip' and case.get('geom_how') == 'bounds' and prefix_misread(case['bounds_text']):
                        sig = 'bounds-prefix-match'
                    ctx.oracle_fail(sig, desc, f'`emsarray {shown}` wrote something else than the library call returns: {diff}')

        # ---- the step model ----------------------------------------------------------------
        step, failure = case.get('step', '-'), case.get('failure', 'os')
        if scenario == 'ok' and lib_error is not None:
            # the library itself refuses this input (other properties' business): error against error
            return None, f'EXIT:{code}'
        if scenario == 'ok':
            line = f'run {cmd} - os'
            impl = f'EXIT:{code} msg:0 out:{int(has_out)}'
        else:
            line = f'run {cmd} {step} {failure}'
            impl = f'EXIT:{code} msg:{msg} out:{"?" if case.get("write_step") else int(has_out)}'
        return line, impl
    finally:
        shutil.rmtree(d, ignore_errors=True)


def reads_differ(m, fm) -> bool:
    """prefix match `m` and full match `fm` of the live pattern give different numbers (or there is no full match)"""
    if fm is None:
        return True
    try:
        return [float(g) for g in m.groups()] != [float(g) for g in fm.groups()]
    except ValueError:
        return True


def prefix_misread(text: str) -> bool:
    """is the real geometry_argument's reading of this bounds text the one a prefix match of the live regular
    expression gives, and different from the full match?"""
    u = cli_utils()
    m, fm = u.bounds_re.match(text), u.bounds_re.fullmatch(text)
    if m is None or not reads_differ(m, fm):
        return False
    try:
        got = u.geometry_argument(text)
        return is_box_like(got) and canon_box(got) == ring_of([float(g) for g in m.groups()])
    except Exception:  # noqa
        return False


# ---------------------------------------------------------------------------
# case generation

CORPUS_TEXTS = [
    # minimal strings first (finding F6): the last numeral loses its fraction; trailing text is ignored
    '1,2,3,4.5', '1,2,3,4x', '1,2,3,4,5', '1,2,3,4abc', '0.12,0.12,0.28,0.18', '1,2,3,4 ', '1,2,3,4\n',
    '1,2,3,.5x', '1,2,3,4.json',
    # the grammar
    '1,2,3,4', '1.5 , -.2 , 3.,4', '1.5 , .2 , 3.,4', '-1,-2,-3,-4', '1_0,2_000,3,4', '1 ,\t2\n,\x0b3 , 4',
    '٠,١,٢,٣', '１,２,３,４', '1.,2.,3.,4.', '.1,.2,.3,.4', '0,0,0,0', '-0,-0.0,-.0,0', '007,08,09,010',
    '3,4,1,2', '1,2,3,4.0', '1,2,3,10.25', '1_2.3_4,5,6,7', '123456789012345678901234567890,1,2,3',
    '0.1,0.2,0.3,0.7', '0.000000000000000000001,1,2,3',
    # not the grammar
    '', ',', ',,,', '1,2,3', '1,2,3,', ',1,2,3', '1,,2,3', ' 1,2,3,4', '+1,2,3,4', '1e3,2,3,4', '1__0,2,3,4',
    '_1,2,3,4', '1_,2,3,4', '1,2,3,4_', '1._5,2,3,4', '1_.5,2,3,4', '.,1,2,3', '-,1,2,3', '1 2,3,4,5',
    '1,2,3,-', '--1,2,3,4', 'x1,2,3,4', '1.2.3,4,5,6', '1;2;3;4', '1，2，3，4', '−1,2,3,4', 'nope',
    '1,2,3,½', '1,2,3,²', '1,2,3,①', '[1,2,3,4]', '"1,2,3,4"', '1,2,3,4\x00', 'nan,1,2,3', 'inf,1,2,3',
    '1,2,3,0x4', '1,2,3,4j', '1, 2, 3, 4', '1 , 2 , 3 , 4', '1　, 2,3,4', '1- ,2,3,4', '1,2,3,4 5',
]


def trivial_text(s: str) -> bool:
    return re.fullmatch(r'[0-9]+,[0-9]+,[0-9]+,[0-9]+', s) is not None


def text_cases(ctx) -> list:
    rng = ctx.rng
    cases = []

    def add_text(s, values=None, tag='gen'):
        if not lean_safe(s):
            return
        cases.append({'k': 'bounds', 's': s})
        cases.append({'k': 'accepts', 's': s})
        cases.append({'k': 'exact', 's': s, 'values': None if values is None else [str(v) for v in values]})
        if rng.random() < 0.25 or tag == 'corpus':
            cases.append({'k': 'propcheck', 's': s})
        ctx.count(f'text:{tag}')
        if not trivial_text(s):
            ctx.nontrivial(('text', s))
    for s in CORPUS_TEXTS:
        add_text(s, tag='corpus')
    n_valid = ctx.budget(500, 12000)
    for i in range(n_valid):
        kw = {'dyadic': rng.random() < 0.3, 'exotic': rng.choice([0, 0, 0, 0.1, 1.0]),
              'max_digits': rng.choice([3, 6, 6, 20, 45])}
        s, vals, parts = GC.bounds_text(rng, **kw)
        add_text(s, vals, 'grammar')
        for _ in range(2):
            t, m = GC.mutate(rng, s, parts)
            add_text(t, None, f'near:{m}')
    # exhaustive sweep of short numeral candidates in each position
    alphabet = '12.-_ x'
    max_len = 4 if ctx.thorough else 3
    toks = list(GC.token_strings(alphabet, max_len))
    if not ctx.thorough:
        toks = [t for t in toks if len(t) <= 2] + rng.sample([t for t in toks if len(t) == 3], min(343, ctx.budget(120)))
    for t in toks:
        for pos in range(4):
            p = ['7', '8', '9', '6']
            p[pos] = t
            s = ','.join(p)
            cases.append({'k': 'bounds', 's': s})
            cases.append({'k': 'accepts', 's': s})
            ctx.count('text:sweep')
            ctx.nontrivial(('text', s))
    # float(): the rounding model against Python on numerals of the grammar
    for _ in range(ctx.budget(150, 1500)):
        t, _v = GC.numeral(rng, max_digits=rng.choice([3, 8, 20, 45]), exotic=rng.choice([0, 0, 0.2]))
        cases.append({'k': 'double', 't': t})
    return cases


def table_cases(ctx) -> list:
    cases = [{'k': 'pattern'}]
    step = 0x1000
    for lo in range(0, 0x110000, step):
        cases.append({'k': 'classes', 'lo': lo, 'hi': lo + step})
    names = []
    stems = ['out', 'a.b', '.hidden', 'x.tar', '', 'UP', 'sp ace', 'ünï', '1,2,3,4']
    exts = ['', '.json', '.geojson', '.wkt', '.wkb', '.shp', '.JSON', '.Shp', '.txt', '.nc', '.geo', '.jsonl', '.',
            '..json', '.json.', '.shx', '.dbf', '.wkt ', '.js', '.geojson.bak', '.gz', '.wkb.wkt']
    for st in stems:
        for e in exts:
            n = st + e
            if n and '/' not in n:
                names.append(n)
    rng = ctx.rng
    for _ in range(ctx.budget(40, 400)):
        names.append(''.join(rng.choice('ab.jsonwktshpg_-') for _ in range(rng.randint(1, 9))))
    for n in dict.fromkeys(names):
        if n in ('.', '..'):
            continue
        cases.append({'k': 'suffix', 'name': n})
        cases.append({'k': 'guess', 'name': n})
        ctx.nontrivial(('name', n))
    for exc in EXC:
        cases.append({'k': 'exit', 'exc': exc})
    for code in [None, 0, 1, 2, 3, 5, 64, 255]:
        cases.append({'k': 'exit', 'exc': 'CommandException', 'code': code})
    cases.append({'k': 'choices', 'module': 'export_geometry', 'option': '--format'})
    cases.append({'k': 'choices', 'module': 'extract_points', 'option': '--missing-points'})
    import pkgutil
    from emsarray.cli import commands
    for mi in pkgutil.iter_modules(commands.__path__):
        if not mi.name.startswith('_'):
            cases.append({'k': 'cmdname', 'module': mi.name})
    return cases


def geom_cases(ctx) -> list:
    rng = ctx.rng
    cases = []
    poly = {'type': 'Polygon', 'coordinates': [[[0, 1], [1, 0], [2, 1], [1, 2], [0, 1]]]}
    good = json.dumps(poly)
    files = {
        'poly.geojson': good, 'poly.json': good, 'bad.geojson': 'nope', 'notgeom.json': '{"not": "geojson"}',
        'empty.json': '', 'poly.shp': good, 'poly.txt': good, 'poly.JSON': good, 'noext': good, '.json': good,
        '.geojson': good, 'x.tar.json': good, 'poly.json.bak': good, 'dir.json': None, 'plain_dir': None,
        'sub/inner.geojson': good, '1,2,3,4.json': good, '1,2,3,4': good, '5': good, '[1]': good,
        '1,2,3,4.5.geojson': good, 'sp ace.geojson': good, 'ünï.json': good, '7,8,9,1_0.geojson': good,
    }
    texts = list(files) + ['./poly.geojson', 'sub/../poly.json', 'missing.geojson', 'missing', 'sub/missing.json',
                           'poly.geojson/', 'dir.json/', 'sub', 'POLY.GEOJSON', 'poly.geojson ', ' poly.geojson']
    for t in texts:
        name = os.path.basename(os.path.normpath(t)) if t.strip('/') else ''
        cases.append({'k': 'geom', 's': t, 'files': files, 'name': name})
        ctx.nontrivial(('geom', t))
        ctx.count('geom:file')
    for t in GC.NOT_GEOMETRY_JSON:
        cases.append({'k': 'geom', 's': t, 'files': {}, 'name': os.path.basename(t)})
        ctx.nontrivial(('geom', t))
        ctx.count('geom:json-not-geometry')
    for t in GC.NOT_JSON:
        cases.append({'k': 'geom', 's': t, 'files': {}, 'name': os.path.basename(os.path.normpath(t)) if t.strip() else t})
        ctx.nontrivial(('geom', t))
        ctx.count('geom:not-json')
    for _ in range(ctx.budget(60, 600)):
        obj = GC.geojson_geometry(rng)
        t = GC.dump_json(rng, obj)
        cases.append({'k': 'geom', 's': t, 'files': {}, 'name': ''})
        ctx.nontrivial(('geom', t))
        ctx.count('geom:json-geometry')
    # geometries whose coordinates take many digits to write down (long decimals, fine dyadic fractions, a hair
    # off a whole number, large / tiny magnitudes, a third ordinate), holes, multi-part, collections, Features:
    # the same document once as the argument text and once as a file of some layout under some name
    for _ in range(ctx.budget(50, 500)):
        obj = GX.fine_geojson(rng)
        fine = 'fine' if GX.has_fine_digits(obj) else 'short'
        t = GX.dump_json(rng, obj)
        if lean_safe(t):
            cases.append({'k': 'geom', 's': t, 'files': {}, 'name': ''})
            ctx.nontrivial(('geom', t))
            ctx.count(f'geom:json-geometry:{fine}')
        arg, name = GX.geojson_file_argument(rng)
        cases.append({'k': 'geom', 's': arg, 'files': {name: GX.dump_json(rng, obj)}, 'name': os.path.basename(name)})
        ctx.nontrivial(('geom-file', arg, t))
        ctx.count(f'geom:file-geometry:{fine}')
    # bounds texts and their neighbours go through geometry_argument too
    for s in CORPUS_TEXTS:
        if lean_safe(s) and '\x00' not in s and '/' not in s:
            cases.append({'k': 'geom', 's': s, 'files': {}, 'name': s})
    for _ in range(ctx.budget(150, 1500)):
        s, vals, parts = GC.bounds_text(rng, exotic=rng.choice([0, 0, 0.2]), max_digits=rng.choice([3, 6, 20]))
        if rng.random() < 0.5:
            s, _m = GC.mutate(rng, s, parts)
        if lean_safe(s) and '\x00' not in s and '/' not in s and len(s.encode()) < 200:
            cases.append({'k': 'geom', 's': s, 'files': {}, 'name': s})
            ctx.count('geom:bounds-like')
            if not trivial_text(s):
                ctx.nontrivial(('geom', s))
    return cases


def dataset_recipe(rng, conv: str, tier: str, for_clip: bool) -> dict:
    kw = {}
    # Clipping meshes with optional connectivity / grids whose coordinates are plain variables is the business
    # of C08 / C09; most clip runs stay on the plain encodings so that this check is about "CLI = library",
    # the rest goes through the same comparison (error against error where the library refuses).
    plain = for_clip and rng.random() < 0.7
    if conv == 'ugrid':
        kw = {'fill': rng.choice(['nan', 'none'])}
        if plain:
            kw.update(tables=[], edge_dim_declared=False)
    else:
        kw = {'coords_as': 'coords'} if plain else {}
        if conv != 'cf1d':
            kw['min_n'] = 2          # one-row curvilinear grids without stored bounds have no valid cell
    for _ in range(50):
        r0 = G.random_recipe(rng, conv, tier, **kw)
        if any(G.build(r0).polys):       # at least one cell has a polygon
            break
    for _ in range(20):
        r = G.attach_vars(rng, r0, n_vars=rng.choice([2, 3]), max_extra=2)
        if any(v.get('kind') == 'face' for v in r['vars']):     # something to extract / clip on the cells
            break
    return {'ds': r, 'timecoord': rng.random() < 0.6, 'pack': rng.random() < 0.5}


def points_table(rng, b, n_hit: int, n_miss: int, cols) -> dict:
    from shapely.geometry import Polygon
    polys = [p for p in b.polys if p]
    pts = []
    for _ in range(n_hit):
        p = rng.choice(polys)
        rp = Polygon([(float(x), float(y)) for x, y in p]).representative_point()
        pts.append((rp.x, rp.y, 'hit'))
    xs = [float(x) for p in polys for x, _ in p]
    ys = [float(y) for p in polys for _, y in p]
    for _ in range(n_miss):
        pts.append((max(xs) + rng.randint(5, 500) + 0.5, min(ys) - rng.randint(5, 500) - 0.25, 'miss'))
    rng.shuffle(pts)
    return {
        'name': [f'p{i}' for i in range(len(pts))],
        cols[0]: [p[0] for p in pts], cols[1]: [p[1] for p in pts],
        'extra': [i * 3 for i in range(len(pts))],
        'kind': [p[2] for p in pts],
    }


EXPORT_TARGETS = [
    ('geojson', 'out.json'), ('geojson', 'out.geojson'), ('wkt', 'out.wkt'), ('wkb', 'out.wkb'),
    ('shapefile', 'out.shp'), ('geojson', 'a.b.geojson'), ('shapefile', 'x.tar.shp'),
]


def command_cases(ctx) -> list:
    rng = ctx.rng
    cases = []
    # corpus: the command-level face of finding F6 — on a 4 x 4 grid the fraction of the fourth number decides
    # whether the row at latitude 3 is kept
    corpus_rec = {'ds': {'conv': 'cf1d', 'lat': [0, 1, 2, 3], 'lon': [0, 1, 2, 3], 'bounds': 'none', 'coords_as': 'coords',
                         'vars': [{'name': 'v', 'kind': 'face', 'extra': [], 'base': 100, 'dtype': 'f8'}],
                         'sizes_extra': {}}, 'timecoord': False}
    cases.append({'k': 'cmd', 'cmd': 'clip', 'recipe': corpus_rec, 'bounds': [0.6, 0.6, 2.4, 2.6],
                  'bounds_text': '0.6,0.6,2.4,2.6', 'geom_how': 'bounds'})
    n_rounds = ctx.budget(2, 12)
    for rnd in range(n_rounds):
        for conv in G.CONVS:
            # ---- clip ------------------------------------------------------------
            rec = dataset_recipe(rng, conv, ctx.tier, for_clip=True)
            b = G.build(rec['ds'])
            vals = clip_geometry_for(b, rng)
            for how in (['bounds', 'json', 'file'] if rnd == 0 else [rng.choice(['bounds', 'bounds', 'json', 'file'])]):
                parts = [fmt_number(rng, v) for v in vals]
                text = parts[0]
                for p in parts[1:]:
                    text += GC.blanks(rng, 0.3) + ',' + GC.blanks(rng, 0.3) + p
                cases.append({'k': 'cmd', 'cmd': 'clip', 'recipe': rec, 'bounds': vals, 'bounds_text': text,
                              'geom_how': how, 'geom_file': rng.choice(['clip.geojson', 'clip.json']),
                              'work_dir': rng.choice([False, False, False, True, True, 'same'])})
            # ---- extract-points -----------------------------------------------------
            rec = dataset_recipe(rng, conv, ctx.tier, for_clip=False)
            b = G.build(rec['ds'])
            cols = rng.choice([['lon', 'lat'], ['lon', 'lat'], ['x', 'y']])
            for policy in [None, 'error', 'drop', 'fill']:
                for n_miss in ([0, 2] if policy in (None, 'error') else [2, 0] if rnd == 0 else [2]):
                    table = points_table(rng, b, rng.randint(1, 4), n_miss, cols)
                    c = {'k': 'cmd', 'cmd': 'extract-points', 'recipe': rec, 'table': table, 'columns': cols,
                         'policy': policy, 'dim': rng.choice([None, None, 'station'])}
                    if n_miss and policy in (None, 'error'):
                        c.update(scenario='points-miss', step='extract-dataframe', failure='command')
                    cases.append(c)
            # ---- export-geometry ---------------------------------------------------------
            rec = dataset_recipe(rng, conv, ctx.tier, for_clip=False)
            targets = EXPORT_TARGETS if rnd == 0 else rng.sample(EXPORT_TARGETS, 3)
            for fmt, name in targets:
                cases.append({'k': 'cmd', 'cmd': 'export-geometry', 'recipe': rec, 'out': name, 'expect_format': fmt})
                cases.append({'k': 'cmd', 'cmd': 'export-geometry', 'recipe': rec, 'out': 'out.blob' if fmt != 'shapefile' else 'out.shp',
                              'format': fmt, 'expect_format': fmt})
            if rnd == 0:
                # explicit format wins over a contradicting extension
                cases.append({'k': 'cmd', 'cmd': 'export-geometry', 'recipe': rec, 'out': 'out.json', 'format': 'wkt',
                              'expect_format': 'wkt'})
                cases.append({'k': 'cmd', 'cmd': 'export-geometry', 'recipe': rec, 'out': 'out.wkt', 'format': 'auto',
                              'expect_format': 'wkt'})
    # ---- a SHOC-simple file whose `time` is a bare dimension (no time variable) ---------------------
    rec = dataset_recipe(rng, 'shoc_simple', 'quick', for_clip=True)
    rec['timecoord'] = False
    for v in rec['ds']['vars']:
        if v.get('kind') == 'face':
            v['extra'] = sorted(set(v.get('extra', [])) | {'time'})
            v.pop('order', None)
    b = G.build(rec['ds'])
    vals = clip_geometry_for(b, rng)
    cases.append({'k': 'cmd', 'cmd': 'clip', 'recipe': rec, 'bounds': vals, 'geom_how': 'json',
                  'bounds_text': ','.join(fmt_number(rng, v) for v in vals)})
    cases.append({'k': 'cmd', 'cmd': 'extract-points', 'recipe': rec, 'columns': ['lon', 'lat'], 'policy': 'drop',
                  'table': points_table(rng, b, 2, 1, ['lon', 'lat'])})
    # ---- failure scenarios (one small dataset each) ------------------------------------------
    rec = dataset_recipe(rng, 'cf1d', 'quick', for_clip=True)
    b = G.build(rec['ds'])
    vals = clip_geometry_for(b, rng)
    clip_base = {'k': 'cmd', 'cmd': 'clip', 'recipe': rec, 'bounds': vals,
                 'bounds_text': ','.join(fmt_number(rng, v) for v in vals), 'geom_how': 'bounds'}
    far = [5000.0, 5000.0, 5001.0, 5001.0]
    fails = [
        dict(clip_base, scenario='missing-input', step='open-dataset', failure='os'),
        dict(clip_base, scenario='garbage-input', step='open-dataset', failure='uncaught'),
        dict(clip_base, scenario='no-convention', step='open-dataset', failure='uncaught'),
        dict(clip_base, scenario='missing-outdir', step='save-output', failure='os', write_step=True),
        dict(clip_base, scenario='unknown-option', step='parse-arguments', failure='usage'),
        dict(clip_base, scenario='missing-argument', step='parse-arguments', failure='usage'),
        dict(clip_base, scenario='no-intersection', step='clip', failure='uncaught', bounds=far,
             bounds_text=','.join(str(int(v)) for v in far)),
    ]
    for bad_cmd in ['frobnicate', 'export_geometry', 'Clip', 'extract']:
        fails.append(dict(clip_base, scenario='unknown-command', bad_command=bad_cmd, step='parse-arguments', failure='usage'))
    for bad in ['nope', '1,2,3', '{"type": "nope"}', '{}', 'missing.geojson', '1;2;3;4', '[1,2,3,4]', '']:
        fails.append(dict(clip_base, scenario='bad-geometry', bad_geometry=bad, step='parse-arguments', failure='usage'))
    rec2 = dataset_recipe(rng, 'ugrid', 'quick', for_clip=False)
    b2 = G.build(rec2['ds'])
    tab = points_table(rng, b2, 2, 0, ['lon', 'lat'])
    pts_base = {'k': 'cmd', 'cmd': 'extract-points', 'recipe': rec2, 'table': tab, 'columns': ['lon', 'lat'], 'policy': None}
    fails += [
        dict(pts_base, scenario='missing-input', step='open-dataset', failure='os'),
        dict(pts_base, scenario='missing-csv', step='read-csv', failure='os'),
        dict(pts_base, scenario='empty-csv', step='read-csv', failure='uncaught'),
        dict(pts_base, scenario='wrong-columns', step='extract-dataframe', failure='uncaught', columns_arg=['nolon', 'nolat'],
             explicit_columns=True),
        dict(pts_base, scenario='bad-policy', step='parse-arguments', failure='usage', policy='bogus'),
        dict(pts_base, scenario='missing-outdir', step='save-output', failure='os', write_step=True),
        dict(pts_base, scenario='missing-argument', step='parse-arguments', failure='usage'),
    ]
    exp_base = {'k': 'cmd', 'cmd': 'export-geometry', 'recipe': rec2, 'out': 'out.wkt', 'expect_format': 'wkt'}
    fails += [
        dict(exp_base, scenario='missing-input', step='open-dataset', failure='os'),
        dict(exp_base, scenario='bad-format', step='parse-arguments', failure='usage', format='bogus'),
        dict(exp_base, scenario='bad-format', step='parse-arguments', failure='usage', format='GeoJSON'),
        dict(exp_base, scenario='missing-outdir', step='write-geometry', failure='os', write_step=True),
        dict(exp_base, scenario='unknown-option', step='parse-arguments', failure='usage'),
    ]
    for name in ['out.foo', 'out', 'out.JSON', '.json', 'out.json.', 'out.shx', 'out.geojsonx', 'out.wkt.bak']:
        fails.append(dict(exp_base, scenario='unknown-extension', out=name, step='guess-format', failure='command'))
    cases += fails
    return cases


def extra_command_cases(ctx) -> list:
    """clip boxes whose sides lie a small power of two away from a cell edge (given as exact decimal bounds, as a
    GeoJSON string, as a GeoJSON file); point tables with free-text columns around the coordinate columns, in the
    CSV dialects pandas writes"""
    rng = ctx.rng
    cases = []
    for rnd in range(ctx.budget(2, 10)):
        for conv in G.CONVS:
            rec = dataset_recipe(rng, conv, ctx.tier, for_clip=True)
            b = G.build(rec['ds'])
            base = clip_geometry_for(b, rng)
            for how in rng.sample(['bounds', 'json', 'file', 'file'], 2):
                vals = None
                for _ in range(10):
                    vals = GX.near_edge_box(rng, b.polys, base)
                    if vals is not None:
                        break
                if vals is None:
                    continue
                parts = [GX.exact_decimal(v) for v in vals]
                text = parts[0]
                for p in parts[1:]:
                    text += GC.blanks(rng, 0.3) + ',' + GC.blanks(rng, 0.3) + p
                cases.append({'k': 'cmd', 'cmd': 'clip', 'recipe': rec, 'bounds': vals, 'bounds_text': text,
                              'geom_how': how, 'geom_file': rng.choice(['clip.geojson', 'clip.json', 'a.b.json']),
                              'work_dir': rng.choice([False, False, True])})
                ctx.count(f'cmd:clip:near-edge:{how}')
            rec = dataset_recipe(rng, conv, ctx.tier, for_clip=False)
            b = G.build(rec['ds'])
            cols = rng.choice([['lon', 'lat'], ['lon', 'lat'], ['x', 'y']])
            for policy, n_miss in [(rng.choice([None, 'error']), 0), (rng.choice(['drop', 'fill']), rng.choice([0, 1, 2]))]:
                table, order = GX.text_layout(rng, points_table(rng, b, rng.randint(2, 5), n_miss, cols), cols)
                cases.append({'k': 'cmd', 'cmd': 'extract-points', 'recipe': rec, 'table': table, 'table_order': order,
                              'columns': cols, 'policy': policy, 'dim': rng.choice([None, None, 'station_index']),
                              'csv_style': rng.choice(GX.CSV_STYLES)})
                ctx.count('cmd:extract-points:text-columns')
    return cases


def long_table_cases(ctx) -> list:
    """point files of hundreds / thousands (thorough: tens of thousands) of rows, under every policy, with the rows
    outside the model spread over the whole file (a row in the first and one in the last tenth): the output must be
    the library result for the whole table, row numbers included, and a miss anywhere in the file must fail the run"""
    rng = ctx.rng
    cases = []
    classes = ['thousands', 'thousands+', 'thousands', 'hundreds']
    if ctx.thorough:
        classes += ['thousands+', 'thousands', 'hundreds', 'ten-thousands']
    classes = classes * ctx.mult
    plans = [(None, 0), ('drop', 3), ('fill', 2), ('error', 1), ('drop', 1), ('error', 0), ('fill', 4), (None, 1)]
    for i, rows in enumerate(classes):
        policy, n_miss = plans[i % len(plans)]
        conv = rng.choice(G.CONVS)
        rec = dataset_recipe(rng, conv, 'quick', for_clip=False)
        cols = rng.choice([['lon', 'lat'], ['lon', 'lat'], ['x', 'y']])
        c = {'k': 'cmd', 'cmd': 'extract-points', 'recipe': rec, 'columns': cols, 'policy': policy,
             'long_table': GX.long_points_spec(rng, rows, n_miss), 'dim': rng.choice([None, None, 'station'])}
        if n_miss and policy in (None, 'error'):
            c.update(scenario='points-miss', step='extract-dataframe', failure='command')
        cases.append(c)
        ctx.count(f'cmd:extract-points:rows:{rows}')
    return cases


# ---------------------------------------------------------------------------
# >>> round 6 (harness/gen/c20_extra6.py): points placed ON the geometry, clip boxes whose sides ARE cell edges,
# histories of the same paths within one process

ON_MODEL_CLASSES = ['vertex', 'vertex-extreme', 'edge-rim', 'edge-shared', 'edge-on-extent', 'inside', 'hair-inside']


def whole_model_box(b, grow=1):
    xs = [float(x) for p in b.polys if p for x, _ in p]
    ys = [float(y) for p in b.polys if p for _, y in p]
    return [min(xs) - grow, min(ys) - grow, max(xs) + grow, max(ys) + grow]


def round6_cases(ctx) -> list:
    import random
    rng = random.Random(f'C20:{ctx.seed}:{int(ctx.searching)}:c20-extra6')      # a stream of its own
    cases = []
    plain_text = lambda vals: ','.join(GX.exact_decimal(v) for v in vals)        # noqa: E731
    for rnd in range(ctx.budget(2, 6)):
        for conv in G.CONVS:
            # ---- extract-points: rows on vertices / edges / the rim of the model, under every policy ------------
            rec = dataset_recipe(rng, conv, ctx.tier, for_clip=False)
            b = G.build(rec['ds'])
            cols = rng.choice([['lon', 'lat'], ['lon', 'lat'], ['x', 'y']])
            plans = [(rng.choice([None, 'error']), ON_MODEL_CLASSES, rng.randint(2, 4), 0),
                     (rng.choice([None, 'error']), ['vertex-extreme', 'edge-on-extent', 'edge-rim'], rng.randint(1, 3), 0),
                     (rng.choice(['drop', 'fill']), GX6.POINT_CLASSES, rng.randint(4, 8), rng.choice([0, 1]))]
            for policy, classes, n, n_far in plans:
                table, stats = GX6.placed_points_table(rng, b.polys, cols, n, n_far, classes)
                if not table[cols[0]]:
                    continue
                c = {'k': 'cmd', 'cmd': 'extract-points', 'recipe': rec, 'table': table, 'columns': cols,
                     'policy': policy, 'dim': rng.choice([None, None, 'station'])}
                if policy in (None, 'error'):
                    # whether a point ON an edge belongs to a cell is the library's answer (C04); the command must give the same
                    c.update(scenario='points-miss', step='extract-dataframe', failure='command')
                cases.append(c)
                for cls, k in stats.items():
                    ctx.count(f'cmd:extract-points:placed:{cls}', k)
            # ---- clip: a region whose sides are cell edges / the bounding box of the model / only touches the model ----
            rec = dataset_recipe(rng, conv, ctx.tier, for_clip=True)
            b = G.build(rec['ds'])
            for want in (['extent', rng.choice(['edges', 'touch'])] if rnd == 0 else [None]):
                vals, how = GX6.on_edge_box(rng, b.polys, want)
                if vals is None:
                    continue
                cases.append({'k': 'cmd', 'cmd': 'clip', 'recipe': rec, 'bounds': vals, 'bounds_text': plain_text(vals),
                              'geom_how': rng.choice(['bounds', 'json', 'file']), 'geom_file': 'clip.geojson', 'work_dir': False})
                ctx.count(f'cmd:clip:on-edge:{how}')
    # ---- histories of a geometry file --------------------------------------------------------------------
    for i in range(ctx.budget(20, 120)):
        cases.append({'k': 'geomhist', 'dir': f'g{i}', 'steps': GX6.geometry_file_history(rng)})
        ctx.count('geomhist')
    # ---- histories of command runs on the same paths -------------------------------------------------------
    for i in range(ctx.budget(1, 4)):
        # (a) one dataset, the region file rewritten between the runs: one cell / everything / unreadable / another cell
        conv = rng.choice(G.CONVS)
        rec = dataset_recipe(rng, conv, 'quick', for_clip=True)
        b = G.build(rec['ds'])
        name = rng.choice(['region.geojson', 'region.json'])
        base = {'k': 'cmd', 'cmd': 'clip', 'recipe': rec, 'geom_how': 'file', 'geom_file': name, 'work_dir': False}
        boxes = [clip_geometry_for(b, rng), whole_model_box(b), None, clip_geometry_for(b, rng), whole_model_box(b, 2)]
        if rng.random() < 0.5:
            boxes[0], boxes[1] = boxes[1], boxes[0]
        steps = []
        for vals in boxes:
            if vals is None:
                steps.append(dict(base, bounds=boxes[0], bounds_text=plain_text(boxes[0]), scenario='bad-geometry',
                                  geom_file_text=rng.choice(GX6.BROKEN_DOCUMENTS), step='parse-arguments', failure='usage'))
            else:
                steps.append(dict(base, bounds=vals, bounds_text=plain_text(vals)))
        cases.append({'k': 'cmdhist', 'dir': f'a{i}', 'steps': steps})
        # (b) one dataset, the point table rewritten between the runs
        conv = rng.choice(G.CONVS)
        rec = dataset_recipe(rng, conv, 'quick', for_clip=False)
        b = G.build(rec['ds'])
        steps = []
        for policy, n_hit, n_miss in [(None, 3, 0), ('drop', 2, 2), (None, 2, 1), ('fill', 1, 1), ('error', 4, 0)]:
            c = {'k': 'cmd', 'cmd': 'extract-points', 'recipe': rec, 'columns': ['lon', 'lat'], 'policy': policy,
                 'table': points_table(rng, b, n_hit, n_miss, ['lon', 'lat'])}
            if n_miss and policy in (None, 'error'):
                c.update(scenario='points-miss', step='extract-dataframe', failure='command')
            steps.append(c)
        cases.append({'k': 'cmdhist', 'dir': f'b{i}', 'steps': steps})
        # (c) the dataset rewritten between the runs, everything else the same (same region file, same output name)
        steps = []
        convs = rng.sample(G.CONVS, 2)
        for conv in convs:
            rec = dataset_recipe(rng, conv, 'quick', for_clip=True)
            b = G.build(rec['ds'])
            vals = whole_model_box(b, rng.choice([1, 2]))
            steps.append({'k': 'cmd', 'cmd': 'clip', 'recipe': rec, 'geom_how': 'file', 'geom_file': 'region.geojson',
                          'work_dir': False, 'bounds': vals, 'bounds_text': plain_text(vals)})
            steps.append({'k': 'cmd', 'cmd': 'export-geometry', 'recipe': rec, 'out': 'cells.geojson', 'expect_format': 'geojson'})
        cases.append({'k': 'cmdhist', 'dir': f'c{i}', 'steps': steps})
    for c in cases:
        if c['k'] == 'cmdhist':
            ctx.count('cmdhist')
            ctx.nontrivial(('cmdhist', c['dir'], len(c['steps'])))
    return cases
# <<< round 6


# ---------------------------------------------------------------------------

def run(ctx) -> None:
    import dask
    dask.config.set(scheduler='synchronous')     # threaded dask + netCDF4 crashes the interpreter in this sandbox
    work = pathlib.Path(tempfile.mkdtemp(prefix='c20-'))
    items = []
    try:
        cases = table_cases(ctx) + text_cases(ctx) + geom_cases(ctx) + command_cases(ctx) + extra_command_cases(ctx) + long_table_cases(ctx)
        cases += round6_cases(ctx)      # round 6, from a random stream of its own
        real_ctx, ctx = ctx, Flagging(ctx)
        for case in cases:
            before = ctx.flags
            got = []
            # whatever the implementation returns or raises, handling it must not end the run without a verdict
            real_ctx.guarded(lambda: got.append(evaluate(ctx, case, work)), {'case': case})
            if not got:
                continue
            line, impl = got[0]
            if ctx.flags > before:
                # the direct oracle has reported this input; the model line would only say it again
                ctx.count('flagged-by-oracle')
                line = None
            if case['k'] == 'cmd':
                ctx.count(f"cmd:{case['cmd']}:{case.get('scenario', 'ok')}")
                ctx.nontrivial(('cmd', json.dumps(case, sort_keys=True, default=str)[:2000]))
            if line is None:
                ctx.evaluated()
                continue
            if isinstance(line, list):      # round 6: a history gives one line per step
                items.extend((ln, im, {'case': case, 'line': j}) for j, (ln, im) in enumerate(zip(line, impl)))
                continue
            items.append((line, impl, {'case': case}))
        if ctx.thorough:
            subprocess_sample(ctx, work)
        ctx = real_ctx
    finally:
        shutil.rmtree(work, ignore_errors=True)
    if ctx.searching and ctx.driver is None:
        ctx.evaluated(len(items))
        return
    ctx.check_batch(items)


class Flagging:
    """ctx proxy that counts what the direct oracle reports (known findings included)"""
    PER_SIGNATURE = 5        # keep room for every distinct kind of failure in the replay file

    def __init__(self, ctx):
        self.ctx, self.flags, self.by_sig = ctx, 0, {}

    def oracle_fail(self, sig, desc, msg):
        self.flags += 1
        self.by_sig[sig] = self.by_sig.get(sig, 0) + 1
        self.ctx.count(f'oracle:{sig}')
        if self.by_sig[sig] <= self.PER_SIGNATURE:
            self.ctx.oracle_fail(sig, desc, msg)

    def __getattr__(self, name):
        return getattr(self.ctx, name)


def subprocess_sample(ctx, work: pathlib.Path) -> None:
    """thorough tier: a sample of runs through `python -m emsarray` in a fresh interpreter"""
    import emsarray
    rng = ctx.rng
    src = str(pathlib.Path(emsarray.__file__).resolve().parent.parent)
    env = dict(os.environ, PYTHONPATH=src + os.pathsep + os.environ.get('PYTHONPATH', ''), PYTHONWARNINGS='ignore',
               DASK_SCHEDULER='synchronous')
    d = pathlib.Path(tempfile.mkdtemp(prefix='sub', dir=work))
    outd = d / 'out'
    outd.mkdir()

    def clear():
        for f in outd.iterdir():
            f.unlink()
    for conv in G.CONVS:
        rec = dataset_recipe(rng, conv, 'quick', for_clip=True)
        inp = d / f'{conv}.nc'
        b = build_dataset(rec, inp)
        vals = clip_geometry_for(b, rng)
        text = ','.join(fmt_number(rng, v) for v in vals)
        csv = d / f'{conv}.csv'
        import pandas as pd
        pd.DataFrame(points_table(rng, b, 2, 1, ['lon', 'lat'])).to_csv(csv, index=False)
        runs = [
            (['clip', '--', str(inp), text, str(outd / 'clip.nc')], outd / 'clip.nc'),
            (['export-geometry', str(inp), str(outd / 'geom.geojson')], outd / 'geom.geojson'),
            (['export-geometry', str(inp), str(outd / 'geom.shp')], outd / 'geom.shp'),
            (['export-geometry', str(inp), str(outd / 'geom.nope')], outd / 'geom.nope'),
            (['clip', str(inp), 'nope', str(outd / 'bad.nc')], outd / 'bad.nc'),
            (['extract-points', str(inp), str(csv), str(outd / 'pts.nc'), '--missing-points', 'drop'], outd / 'pts.nc'),
            (['extract-points', str(inp), str(csv), str(outd / 'pts.nc')], outd / 'pts.nc'),
        ]
        for argv, outp in runs:
            clear()
            p = subprocess.run([sys.executable, '-m', 'emsarray', *argv], capture_output=True, text=True, env=env, timeout=600)
            sub_files = geometry_files(outp)
            sub_ds = None
            if outp.suffix == '.nc' and outp.exists():
                import xarray as xr
                sub_ds = xr.open_dataset(outp)
                sub_ds.load()
                sub_ds.close()
            clear()
            code, err, _ = run_main(argv)
            here_files = geometry_files(outp)
            ctx.evaluated()
            ctx.count('subprocess')
            ctx.nontrivial(('subprocess', conv, tuple(a.replace(str(d), '.') for a in argv)))
            desc = {'case': {'k': 'subprocess', 'recipe': rec, 'argv': [a.replace(str(d), '.') for a in argv]}}
            if p.returncode != code:
                ctx.oracle_fail('subprocess-exit-differs', desc,
                                f'python -m emsarray exits {p.returncode}, in-process main() exits {code}: {p.stderr[-300:]}')
            if p.returncode != 0 and not p.stderr.strip():
                ctx.oracle_fail('failure-without-message', desc, 'python -m emsarray failed silently')
            if p.returncode != 0 and sub_files:
                ctx.oracle_fail('output-left-after-failure', desc, f'python -m emsarray exits {p.returncode} and leaves {sorted(sub_files)}')
            if sorted(sub_files) != sorted(here_files):
                ctx.oracle_fail('subprocess-output-differs', desc, f'{sorted(sub_files)} vs {sorted(here_files)}')
            elif outp.suffix != '.nc' and sub_files != here_files:
                ctx.oracle_fail('subprocess-output-differs', desc, 'geometry files differ byte for byte')
            elif sub_ds is not None:
                diff = compare_datasets(sub_ds, outp)
                if diff is not None:
                    ctx.oracle_fail('subprocess-output-differs', desc, diff)
    clear()


def replay(ctx, data) -> int:
    return util.generic_replay(ctx, data, run_one)


def run_one(ctx, inp: dict) -> dict:
    import dask
    dask.config.set(scheduler='synchronous')
    case = inp.get('case', inp)
    if case.get('k') == 'subprocess':
        return {'note': 'subprocess sample: re-run `python -m emsarray ' + ' '.join(case['argv']) + '` on the recipe'}
    work = pathlib.Path(tempfile.mkdtemp(prefix='c20r-'))

    class Probe:
        """collects what the oracle says during the replay"""
        def __init__(self, ctx):
            self.ctx, self.said = ctx, []

        def oracle_fail(self, sig, desc, msg):
            self.said.append(f'{sig}: {msg}')

        def __getattr__(self, name):
            return getattr(self.ctx, name)
    probe = Probe(ctx)
    try:
        line, impl = evaluate(probe, case, work)
    finally:
        shutil.rmtree(work, ignore_errors=True)
    out = {'op': line, 'impl': impl}
    if ctx.driver and isinstance(line, list):       # round 6: a history
        out['model'] = ctx.model(line) if line else []
    elif ctx.driver and line is not None:
        out['model'] = ctx.model([line])[0]
    out['oracle'] = probe.said or 'no violation'
    return out
