"""C01 — native and linear indexes form a bijection on every grid."""
from __future__ import annotations

import itertools
import random

from harness.gen import datasets as G
from harness.gen import c01_extra as X
from harness.gen import c01_extra6 as X6      # sixth round: spellings of an index, larger grids, names tables, process history
from harness import util

ID = 'C01'
MODULE = 'EmsModel.Props.C01'
DRIVER = 'C01'
# theorems about the terms harness/trans_indexsrc.py generates from the source of the index functions
EXTRA_MODULES = ['EmsModel.Props.C01Src']
# sixth round: the integer type an index is spelt in, the accumulation of the linear index, conventions under a names table
EXTRA_MODULES.append('EmsModel.Props.C01Spelling')
REQUIRED_SPELLING = [
    'Ems.C01.typed_ravel_eq', 'Ems.C01.typed_wind_eq', 'Ems.C01.typed_spelling_irrelevant',
    'Ems.C01.ravel_eq_horner', 'Ems.C01.ravel_lastCell', 'Ems.C01.narrow_accumulation_wrong',
    'Ems.C01.arakawa_rename', 'Ems.C01.arakawa_rename_index', 'Ems.C01.arakawa_more_variables',
]
REQUIRED = REQUIRED_SPELLING + [
    'Ems.C01.ravel_index_generated', 'Ems.C01.wind_index_generated', 'Ems.C01.grid_size_generated',
    'Ems.C01.index_functions_translated', 'Ems.C01.ravel_wind_generated', 'Ems.C01.wind_rejects_generated',
    'Ems.C01.ravel_rejects_generated',
    'Ems.C01.ravel_wind', 'Ems.C01.wind_ravel', 'Ems.C01.wind_rejects', 'Ems.C01.ravel_rejects',
    'Ems.C01.unknown_kind_rejected', 'Ems.C01.default_kind', 'Ems.C01.wind_inRange',
    'Ems.C01.wind_injective', 'Ems.C01.wind_surjective', 'Ems.C01.ravel_rowmajor_2d',
    'Ems.C01.ravel_rowmajor',
]
RULE = ('datasets of all five convention classes (UGRID with and without an edge dimension) with '
        'random shapes incl. 1xN, Nx1, non-square; per grid kind every linear index in [-3, size+3) '
        'through wind_index (explicit kind and default), every in-range native index and a margin of '
        'out-of-range / negative / wrong-rank / wrong-kind ones (incl. in-range ones shifted by whole '
        'multiples of the dimension) through ravel_index; grid_size and '
        'grid_kinds. A second stream (gen/c01_extra.py) varies how the convention object is obtained '
        '(introspection, explicit latitude= / longitude= names, an explicit topology helper), puts a second '
        'coordinate pair of another shape into the dataset (staggered grids; the names select either pair) '
        'and places CF 1-D axes on the globe (longitudes going exactly once round it, with the cyclic point '
        'repeated, one cell short; latitudes pole to pole). '
        'In both streams three datasets in four (all conventions, walked systematically) get a depth and a time '
        'coordinate and a history: one to three ordinary read-only questions (the grid kind of every variable incl. '
        'those on no grid, depth / time coordinates, geometry, ravel / wind of variables, selections, a clip mask, '
        'refused index questions, …) are put to the convention object before the index questions; the expected '
        'answers stay those of the generator (what was asked before may not change an index space). '
        'A third stream (gen/c01_extra6.py, a random stream of its own) has grids with more cells than an integer type '
        'counts - medium (128 to ~600 cells), big (32768 to ~80000 cells, every convention, built with numpy) and a CF 1-D '
        'grid of more than 2**31 / 2**32 cells - probed, not enumerated: corners, first / middle / last cell, the cells either '
        'side of every power-of-two boundary of the linear index, components at the largest value of a type, drawn ones; '
        'every probe is put with its integers spelt as Python ints, as numpy integers of every width that holds them '
        '(int8 ... uint64) and as 0-d arrays, in both directions, in range and out of range. '
        'A fourth stream plays what happened earlier in the process (walked in a cycle of 8): other datasets opened before '
        'the one under test - SHOC standard / Arakawa C datasets under a names table (ShocStandard(ds, coordinate_names=), '
        'ArakawaC(ds, coordinate_names=), a subclass with the table on the class; string or enumeration keys; coordinate '
        'variables renamed to names of their own or to the default names of the other grids), CF datasets opened by '
        'explicit names / a topology helper -, refused constructions (partial table, no table), a class put on another '
        "convention's dataset, a second object with another table on the very dataset under test; the dataset under test "
        '(any convention, itself possibly under a names table) then gets every question of the first stream. '
        'The grid shapes given to the model come from the generator, not from emsarray. '
        'A case is non-trivial when its grid has >= 2 cells in a non-square or 1-D shape, or is an '
        'out-of-range probe; distinct = distinct (convention, shape, kind, op, argument).')
TRUSTED = ['numpy.ravel_multi_index / numpy.unravel_index follow C order and raise on out-of-range (modelled by Ems.ravel / Ems.unravel)']
ASSUMPTIONS = ['native indexes are (y,x) / (kind,j,i) / (kind,i) tuples of integers: Python ints, numpy integer scalars '
               'or 0-d integer arrays (the value is what counts)']


def native_str(conv: str, idx) -> str:
    """canonical `kind:j,i` of a native index returned by emsarray"""
    if conv in ('cf1d', 'cf2d', 'shoc_simple'):
        return 'face:' + ','.join(str(int(v)) for v in idx)
    kind = idx[0]
    kind = getattr(kind, 'value', kind)
    return f'{kind}:' + ','.join(str(int(v)) for v in idx[1:])


def make_native(built: G.Built, c, kind: str, comps):
    if built.conv in ('cf1d', 'cf2d', 'shoc_simple'):
        return tuple(comps)
    kinds = {k.value: k for k in type(next(iter(c.grid_kinds)))}
    k = kinds.get(kind, kind)
    return (k, *comps)


def unravel(n: int, shape) -> tuple:
    """row-major position of the n-th cell, computed here (not by numpy, not by the model)"""
    out = []
    for s in reversed(shape):
        n, r = divmod(n, s)
        out.append(r)
    return tuple(reversed(out))


def exercise(ctx, items: list, recipe: dict, tag: str) -> None:
    """every C01 question about the dataset of one recipe: real calls, oracle, lines for the model"""
    rng = ctx.rng
    desc0 = {'recipe': recipe}
    built = X6.build(recipe)
    conv = built.conv
    spec = built.grids_spec()
    ctx.count(f'{tag}conv:{conv}' + ('+edge' if 'edge' in built.grids else ''))
    ctx.evaluated()
    history = recipe.get('c01_history') or []
    ctx.count(f'{tag}history-length:{len(history)}')
    for op in history:
        ctx.count(f'history:{op}')
    after = f' (after the questions {history} were put to the same convention object)' if history else ''

    def fail(signature, desc, message):
        ctx.oracle_fail(signature, desc, message + after)

    try:
        c = X6.bind(built)
    except Exception as e:  # noqa: BLE001
        # a supported dataset for which no convention object can be had: none of its indexes converts
        fail('convention-construction-raises', desc0,
                        f'constructing / binding {built.conv_class.__name__} raised {type(e).__name__}: {e}')
        return
    for op, exc in built.extra.get('c01_history_raised', []):
        ctx.count(f'history-raised:{op}:{exc}')
    for note in built.extra.get('c01_before_notes', []):      # (sixth round: how what was done before ended)
        ctx.count(f'before-ended:{note}')
    # grid kinds and sizes, against the generator's ground truth
    impl_kinds = sorted(str(getattr(k, 'value', k)) for k in c.grid_kinds)
    if impl_kinds != sorted(built.grids):
        fail('grid-kinds', desc0, f'grid_kinds {impl_kinds} != {sorted(built.grids)}')
    kind_objs = {getattr(k, 'value', k): k for k in c.grid_kinds}
    all_kind_objs = {k.value: k for k in type(next(iter(c.grid_kinds)))}
    for kind, (dims, shape) in built.grids.items():
        if kind not in kind_objs:
            continue        # (reported as `grid-kinds` above)
        size = 1
        for s in shape:
            size *= s
        try:
            impl_size = str(int(c.grid_size[kind_objs[kind]]))
        except Exception:
            impl_size = 'ERR'
        items.append((f'size {spec} {built.default_kind} {kind}', impl_size, desc0))
        if impl_size != str(size):
            fail('grid-size', {'recipe': recipe, 'kind': kind},
                            f'grid_size[{kind}] = {impl_size}, the grid {dims} = {shape} has {size} locations')
        interesting = size >= 2 and (len(shape) == 1 or shape[0] != shape[1])
        seen_native = {}
        for n in range(-3, size + 3):
            for explicit in ([True, False] if kind == built.default_kind else [True]):
                try:
                    if explicit:
                        got = c.wind_index(n, grid_kind=kind_objs[kind])
                    else:
                        got = c.wind_index(n)
                    out = native_str(conv, got)
                except Exception:
                    got = None
                    out = 'ERR'
                line = f"wind {spec} {built.default_kind} {kind if explicit else '-'} {n}"
                items.append((line, out, {'recipe': recipe, 'op': line}))
                if interesting or not (0 <= n < size):
                    ctx.nontrivial((conv, shape, kind, 'wind', n, explicit))
                # direct oracle: range, row-major position, round trip, injectivity
                if 0 <= n < size:
                    if got is None:
                        fail('wind-in-range-raises', {'recipe': recipe, 'kind': kind, 'n': n},
                                        f'wind_index({n}) raised on a grid of size {size}')
                    else:
                        exp = f"{kind}:{','.join(map(str, unravel(n, shape)))}"
                        if out != exp:
                            fail('wind-not-row-major', {'recipe': recipe, 'kind': kind, 'n': n},
                                            f'wind_index({n}) = {out}, row-major order over {dims} = {shape} gives {exp}')
                        try:
                            back = int(c.ravel_index(got))
                        except Exception as e:
                            back = f'ERR {e}'
                        if back != n:
                            fail('roundtrip-linear', {'recipe': recipe, 'kind': kind, 'n': n},
                                            f'ravel_index(wind_index({n})) = {back}')
                        if explicit:
                            if out in seen_native:
                                fail('wind-not-injective', {'recipe': recipe, 'kind': kind, 'n': n},
                                                f'wind_index({n}) == wind_index({seen_native[out]}) == {out}')
                            seen_native[out] = n
                elif got is not None:
                    fail('wind-out-of-range-accepted', {'recipe': recipe, 'kind': kind, 'n': n},
                                    f'wind_index({n}) = {out} on a grid of size {size}')
        # native indexes: all in range + a margin
        ranges = [range(-2, s + 2) for s in shape]
        probes = list(itertools.product(*ranges))
        inr = [p for p in probes if all(0 <= v < s for v, s in zip(p, shape))]
        if len(probes) > 400:
            outr = [p for p in probes if not all(0 <= v < s for v, s in zip(p, shape))]
            probes = inr + rng.sample(outr, min(len(outr), 60))
        # an in-range index moved by whole multiples of a dimension (what a wrapped index would hit)
        for p in (rng.sample(inr, min(len(inr), 4)) if inr else []):
            for a, s in enumerate(shape):
                for shift in (s, -s, 2 * s, -2 * s, 3 * s + 1):
                    q = tuple(v + shift if b == a else v for b, v in enumerate(p))
                    if q not in probes:
                        probes.append(q)
        # wrong rank
        probes.append(tuple([0] * (len(shape) + 1)))
        if len(shape) > 1:
            probes.append((0,))
        for comps in probes:
            native = make_native(built, c, kind, comps)
            in_range = len(comps) == len(shape) and all(0 <= v < s for v, s in zip(comps, shape))
            try:
                lin = int(c.ravel_index(native))
                out = str(lin)
            except Exception:
                lin = None
                out = 'ERR'
            line = f"ravel {spec} {built.default_kind} {kind} {','.join(map(str, comps))}"
            items.append((line, out, {'recipe': recipe, 'op': line}))
            if interesting or not in_range:
                ctx.nontrivial((conv, shape, kind, 'ravel', comps))
            if in_range:
                # row-major expectation, computed independently of the model
                exp = 0
                for v, s in zip(comps, shape):
                    exp = exp * s + v
                if lin != exp:
                    fail('not-row-major', {'recipe': recipe, 'kind': kind, 'index': comps},
                                    f'ravel_index({comps}) = {out}, row-major over {dims} = {shape} gives {exp}')
                else:
                    try:
                        back = c.wind_index(lin, grid_kind=kind_objs[kind])
                        back_s = native_str(conv, back)
                    except Exception as e:
                        back_s = f'ERR {e}'
                    if back_s != f"{kind}:{','.join(map(str, comps))}":
                        fail('roundtrip-native', {'recipe': recipe, 'kind': kind, 'index': comps},
                                        f'wind_index(ravel_index({comps})) = {back_s}')
            elif lin is not None:
                fail('ravel-out-of-range-accepted', {'recipe': recipe, 'kind': kind, 'index': comps},
                                f'ravel_index({comps}) = {lin} on shape {shape}')
    # a kind the dataset does not have (UGRID without edges; a made-up kind elsewhere)
    for kind in set(all_kind_objs) - set(built.grids):
        native = make_native(built, c, kind, (0,) * (1 if conv == 'ugrid' else 2))
        try:
            out = str(int(c.ravel_index(native)))
            fail('absent-kind-accepted', {'recipe': recipe, 'kind': kind}, f'ravel_index on absent kind {kind} = {out}')
        except Exception:
            out = 'ERR'
        line = f"ravel {spec} {built.default_kind} {kind} {'0' if conv == 'ugrid' else '0,0'}"
        items.append((line, out, {'recipe': recipe, 'op': line}))
        try:
            out = native_str(conv, c.wind_index(0, grid_kind=all_kind_objs[kind]))
            fail('absent-kind-accepted', {'recipe': recipe, 'kind': kind}, f'wind_index on absent kind {kind} = {out}')
        except Exception:
            out = 'ERR'
        line = f"wind {spec} {built.default_kind} {kind} 0"
        items.append((line, out, {'recipe': recipe, 'op': line}))
        ctx.nontrivial((conv, 'absent-kind', kind))


# >>> sixth round ------------------------------------------------------------------------------------------------
NARROW = ['int8', 'uint8', 'int16', 'uint16', 'int32', 'uint32']


def pick_spellings(prng, values, size: int) -> list:
    """the spellings a probe is put in: every type that holds its integers but not the size of the grid (with the 0-d
    forms), and three drawn from the others"""
    usable = X6.usable(values)
    narrow = [s for s in usable if X6.type_of(s) in NARROW and not X6.holds(s, size)]
    rest = [s for s in usable if s not in narrow]
    return narrow + prng.sample(rest, min(3, len(rest)))


def exercise_typed(ctx, items: list, recipe: dict) -> None:
    """a grid too large to enumerate: probed cells, every integer of every question spelt in several types"""
    info = recipe['c01_typed']
    prng = random.Random(info['probe_seed'])
    desc0 = {'recipe': recipe}
    built = X6.build(recipe)
    conv, spec, dflt = built.conv, built.grids_spec(), built.default_kind
    ctx.count(f"t-class:{info['class']}/{conv}")
    ctx.evaluated()
    try:
        c = X6.bind(built)
    except Exception as e:  # noqa: BLE001
        ctx.oracle_fail('convention-construction-raises', desc0,
                        f'constructing / binding {built.conv_class.__name__} raised {type(e).__name__}: {e}')
        return
    impl_kinds = sorted(str(getattr(k, 'value', k)) for k in c.grid_kinds)
    if impl_kinds != sorted(built.grids):
        ctx.oracle_fail('grid-kinds', desc0, f'grid_kinds {impl_kinds} != {sorted(built.grids)}')
    kind_objs = {getattr(k, 'value', k): k for k in c.grid_kinds}
    for kind, (dims, shape) in built.grids.items():
        if kind not in kind_objs:
            continue
        size = 1
        for s in shape:
            size *= s
        try:
            impl_size = str(int(c.grid_size[kind_objs[kind]]))
        except Exception:
            impl_size = 'ERR'
        items.append((f'size {spec} {dflt} {kind}', impl_size, desc0))
        if impl_size != str(size):
            ctx.oracle_fail('grid-size', {'recipe': recipe, 'kind': kind},
                            f'grid_size[{kind}] = {impl_size}, the grid {dims} = {shape} has {size} locations')
        where = f'on the {kind} grid {dims} = {shape} ({size} cells)'
        cells = X6.probe_cells(prng, shape)
        for comps in cells:
            exp = 0
            for v, s in zip(comps, shape):
                exp = exp * s + v
            comps_s = ','.join(map(str, comps))
            for sp in pick_spellings(prng, comps, size):
                ctx.count(f'spelling:{sp}')
                native = make_native(built, c, kind, X6.spell_all(sp, comps))
                err = None
                try:
                    lin = int(c.ravel_index(native))
                    out = str(lin)
                except Exception as e:  # noqa: BLE001
                    lin, out, err = None, 'ERR', e
                line = f'ravelt {spec} {dflt} {kind} {comps_s} {X6.type_of(sp)}'
                items.append((line, out, {'recipe': recipe, 'op': line, 'dtype': sp}))
                ctx.nontrivial((conv, shape, kind, 'ravelt', comps, sp))
                d = {'recipe': recipe, 'kind': kind, 'index': list(comps), 'dtype': sp}
                if lin is None:
                    ctx.oracle_fail('ravel-in-range-raises', d,
                                    f'ravel_index({comps}) with its components given as {sp} raised '
                                    f'{type(err).__name__}: {err} {where}; the index is in range')
                elif lin != exp:
                    ctx.oracle_fail('not-row-major', d,
                                    f'ravel_index({comps}) with its components given as {sp} = {lin}, row-major order '
                                    f'{where} gives {exp}')
            for sp in pick_spellings(prng, (exp,), size):
                try:
                    out = native_str(conv, c.wind_index(X6.spell(sp, exp), grid_kind=kind_objs[kind]))
                except Exception:
                    out = 'ERR'
                line = f'windt {spec} {dflt} {kind} {exp} {X6.type_of(sp)}'
                items.append((line, out, {'recipe': recipe, 'op': line, 'dtype': sp}))
                ctx.nontrivial((conv, shape, kind, 'windt', exp, sp))
                d = {'recipe': recipe, 'kind': kind, 'n': exp, 'dtype': sp}
                if out == 'ERR':
                    ctx.oracle_fail('wind-in-range-raises', d, f'wind_index({exp}) given as {sp} raised {where}')
                elif out != f'{kind}:{comps_s}':
                    ctx.oracle_fail('wind-not-row-major', d,
                                    f'wind_index({exp}) given as {sp} = {out}, row-major order {where} gives {kind}:{comps_s}')
        # out of range, spelt the same ways: refused, never wrapped into the grid
        for p in ([cells[0], cells[-1]] if cells else []):
            for a, s in enumerate(shape):
                for v in (s, s + 1, -1, 2 * s, -s):
                    q = tuple(v if b == a else w for b, w in enumerate(p))
                    for sp in pick_spellings(prng, q, size):
                        try:
                            lin = int(c.ravel_index(make_native(built, c, kind, X6.spell_all(sp, q))))
                            out = str(lin)
                        except Exception:
                            lin, out = None, 'ERR'
                        line = f"ravelt {spec} {dflt} {kind} {','.join(map(str, q))} {X6.type_of(sp)}"
                        items.append((line, out, {'recipe': recipe, 'op': line, 'dtype': sp}))
                        ctx.nontrivial((conv, shape, kind, 'ravelt', q, sp))
                        if lin is not None:
                            ctx.oracle_fail('ravel-out-of-range-accepted',
                                            {'recipe': recipe, 'kind': kind, 'index': list(q), 'dtype': sp},
                                            f'ravel_index({q}) given as {sp} = {lin} {where}')
        for n in (size, size + 1, -1, -size, 2 * size):
            for sp in pick_spellings(prng, (n,), size):
                try:
                    out = native_str(conv, c.wind_index(X6.spell(sp, n), grid_kind=kind_objs[kind]))
                except Exception:
                    out = 'ERR'
                line = f'windt {spec} {dflt} {kind} {n} {X6.type_of(sp)}'
                items.append((line, out, {'recipe': recipe, 'op': line, 'dtype': sp}))
                ctx.nontrivial((conv, shape, kind, 'windt', n, sp))
                if out != 'ERR':
                    ctx.oracle_fail('wind-out-of-range-accepted', {'recipe': recipe, 'kind': kind, 'n': n, 'dtype': sp},
                                    f'wind_index({n}) given as {sp} = {out} {where}')


def named_call(c, kind_objs: dict, w: list) -> str:
    """one `nsize` / `nwind` / `nravel` question on the real convention object"""
    try:
        if w[0] == 'nsize':
            return str(int(c.grid_size[kind_objs[w[3]]]))
        if w[0] == 'nwind':
            got = c.wind_index(int(w[4])) if w[3] == '-' else c.wind_index(int(w[4]), grid_kind=kind_objs[w[3]])
            return native_str('shoc_standard', got)
        comps = [int(v) for v in w[4].split(',')]
        return str(int(c.ravel_index((kind_objs[w[3]], *comps))))
    except Exception:
        return 'ERR'


def exercise_named(ctx, items: list, recipe: dict) -> None:
    """an Arakawa C dataset under a names table, against the model of the table lookup (`arakawaConv`)"""
    built = X6.build(recipe)
    try:
        c = X6.bind_fresh(built)
    except Exception:
        return              # (`exercise` reports it)
    info = recipe['c01x']
    ctx.count(f"named:{info['bind']}/{info['scheme']}/{info.get('keys')}")
    kind_objs = {k.value: k for k in type(next(iter(c.grid_kinds)))}
    vars_s, names_s = X6.names_spec(built)
    for kind, (dims, shape) in built.grids.items():
        size = shape[0] * shape[1]
        last = ','.join(str(s - 1) for s in shape)
        for op in (f'nsize {vars_s} {names_s} {kind}', f'nwind {vars_s} {names_s} {kind} {size - 1}',
                   f'nwind {vars_s} {names_s} {kind} {size}', f'nravel {vars_s} {names_s} {kind} {last}',
                   f'nravel {vars_s} {names_s} {kind} {shape[0]},0', f'nwind {vars_s} {names_s} - {size - 1}'):
            items.append((op, named_call(c, kind_objs, op.split()), {'recipe': recipe, 'op': op}))
            ctx.nontrivial(('named', info['scheme'], info['bind'], shape, kind, op.split()[0], op.split()[-1]))
    # a table that names a latitude variable the dataset does not have: no grid of it can be addressed
    kind = sorted(built.grids)[len(vars_s) % len(built.grids)]
    bad = {k: list(v) for k, v in info['names'].items()}
    bad[kind][0] = 'no_such_latitude'
    _, bad_s = X6.names_spec(built, bad)
    op = f'nsize {vars_s} {bad_s} {kind}'
    # (`ShocStandard(dataset)` takes no table: the table is then given the documented way)
    bad_info = {**info, 'names': bad, 'bind': 'coordinate_names' if info['bind'] == 'class' else info['bind']}
    try:
        c_bad = X6.construct_named(built.ds, bad_info)
        out = named_call(c_bad, kind_objs, op.split())
    except Exception:
        out = 'ERR'
    items.append((op, out, {'recipe': recipe, 'op': op, 'table': bad_info}))
# <<< sixth round ------------------------------------------------------------------------------------------------


def with_history(rng, recipe: dict, u: int) -> dict:
    """the recipe with the history of its convention object (and depth / time coordinates for it to look at)"""
    history = X.random_history(rng, u)
    if not history:
        return recipe
    recipe = X.with_layers(rng, recipe)
    recipe['c01_history'] = history
    return recipe


def run(ctx) -> None:
    rng = ctx.rng
    n_datasets = ctx.budget(60, 300)
    items = []
    for d in range(n_datasets):
        conv = G.CONVS[d % len(G.CONVS)]
        kw = {'holes': False} if conv != 'ugrid' and conv != 'cf1d' else {}
        if conv == 'ugrid':
            # walk the layouts of the connectivity tables systematically (stored either way round, with and
            # without edge tables / a declared edge dimension) instead of leaving them to chance
            u = d // len(G.CONVS)
            kw = {'transposed': u % 2 == 1,
                  'tables': [[], ['edge_node'], ['edge_node', 'edge_face'], ['edge_face', 'face_edge']][(u // 2) % 4],
                  'edge_dim_declared': (u // 8) % 2 == 0,
                  'edge_tables_as_coords': u % 3 == 2}
        recipe = G.random_recipe(rng, conv, ctx.tier, vary=True, **kw)
        # data variables in arbitrary dimension orders: the grid's shape and index order may not follow them
        recipe = G.attach_vars(rng, recipe, n_vars=2, max_extra=1)
        # what was asked of the convention object before (walked per convention: d // 5 is the dataset's rank in it)
        recipe = with_history(rng, recipe, d // len(G.CONVS))
        ctx.guarded(lambda: exercise(ctx, items, recipe, ''), {'recipe': recipe})
    # second stream: how the convention object is obtained, a second coordinate pair, axes placed on the globe
    for k in range(ctx.budget(40, 160)):
        recipe = X.random_extra(rng, k, ctx.tier)
        recipe = G.attach_vars(rng, recipe, n_vars=2, max_extra=1)
        recipe = with_history(rng, recipe, k)
        info = recipe['c01']
        ctx.count(f"bind:{info['bind']}/{info['pair']}" + ('+2nd-pair' if info['extra'] else ''))
        ctx.count(f"lon:{info['lon_class']}")
        ctx.guarded(lambda: exercise(ctx, items, recipe, 'x-'), {'recipe': recipe})
    # >>> sixth round: streams three and four draw from a random stream of their own (the first two are left as they were)
    rng6 = random.Random(f'{ctx.seed}:{int(ctx.searching)}:c01-extra6')
    for k in range(ctx.budget(20, 96)):
        recipe = X6.random_typed(rng6, k, ctx.tier)
        ctx.guarded(lambda: exercise_typed(ctx, items, recipe), {'recipe': recipe})
    for k in range(ctx.budget(32, 160)):
        recipe = X6.random_process(rng6, k, ctx.tier)
        recipe = G.attach_vars(rng6, recipe, n_vars=2, max_extra=1)
        recipe = with_history(rng6, recipe, k + 2)
        ctx.count(f'before:{k % 8}:' + '+'.join(e.get('do', 'open') for e in recipe['c01_before']))

        def case(recipe=recipe):
            exercise(ctx, items, recipe, 'p-')
            if 'c01x' in recipe:
                exercise_named(ctx, items, recipe)
        ctx.guarded(case, {'recipe': recipe})
    # <<< sixth round
    if ctx.searching and ctx.driver is None:
        ctx.evaluated(len(items))
        return
    ctx.check_batch(items)


def replay(ctx, data) -> int:
    return util.generic_replay(ctx, data, run_one)


def run_one(ctx, inp: dict) -> dict:
    """Re-execute one recorded input on the real code and on the model."""
    built = X6.build(inp['recipe'])
    out = {}
    info = inp['recipe'].get('c01')
    if info:
        out['convention'] = (f"{built.conv_class.__name__} obtained by {info['bind']!r}, coordinates "
                             f"{built.extra['c01_names']}, grid {built.grids_spec()}")
    if inp['recipe'].get('c01_history'):
        out['history'] = ('questions put to the convention object before this one: '
                          + ', '.join(inp['recipe']['c01_history']))
    try:
        c = X6.bind(built)
    except Exception as e:  # noqa: BLE001
        out['impl'] = f'ERR constructing the convention ({type(e).__name__}: {e})'
        return out
    op = inp.get('op')
    kind_objs = {getattr(k, 'value', k): k for k in c.grid_kinds}
    # >>> sixth round: what happened before, how the integers are spelt
    if inp['recipe'].get('c01_before'):
        out['before'] = ('done in this process before the convention object was made: '
                         + '; '.join(f"{e.get('do', 'open')} {(e.get('recipe') or {}).get('conv', '')} "
                                     f"{(e.get('recipe') or e).get('c01x', e.get('info', ''))} -> {note}"
                                     for e, note in zip(inp['recipe']['c01_before'], built.extra.get('c01_before_notes', []))))
    sp = inp.get('dtype')
    if sp:
        out['spelling'] = f'the integers of the question are given as {sp}'
    if op and op.split()[0] in ('nsize', 'nwind', 'nravel'):
        all_kinds = {k.value: k for k in type(next(iter(c.grid_kinds)))}
        target = X6.construct_named(built.ds, inp['table']) if inp.get('table') else c
        out['impl'] = named_call(target, all_kinds, op.split())
        if ctx.driver:
            out['model'] = ctx.model([op])[0]
        return out
    if op and op.split()[0] in ('ravelt', 'windt'):
        w = op.split()
        try:
            if w[0] == 'windt':
                got = c.wind_index(X6.spell(sp, int(w[4]))) if w[3] == '-' else \
                    c.wind_index(X6.spell(sp, int(w[4])), grid_kind=kind_objs[w[3]])
                out['impl'] = native_str(built.conv, got)
            else:
                comps = X6.spell_all(sp, [int(v) for v in w[4].split(',')])
                out['impl'] = str(int(c.ravel_index(make_native(built, c, w[3], comps))))
        except Exception as e:
            out['impl'] = f'ERR ({type(e).__name__}: {e})'
        if ctx.driver:
            out['model'] = ctx.model([op])[0]
        return out
    if sp and 'n' in inp:
        try:
            got = c.wind_index(X6.spell(sp, inp['n']), grid_kind=kind_objs[inp['kind']])
            out['impl'] = f"wind_index({inp['n']} as {sp}) = {native_str(built.conv, got)}"
        except Exception as e:
            out['impl'] = f'ERR ({type(e).__name__}: {e})'
        return out
    if sp and 'index' in inp:
        try:
            native = make_native(built, c, inp['kind'], X6.spell_all(sp, inp['index']))
            out['impl'] = f"ravel_index({tuple(inp['index'])} as {sp}) = {c.ravel_index(native)}"
        except Exception as e:
            out['impl'] = f'ERR ({type(e).__name__}: {e})'
        return out
    # <<< sixth round
    if op:
        w = op.split()
        try:
            if w[0] == 'wind':
                got = c.wind_index(int(w[4])) if w[3] == '-' else c.wind_index(int(w[4]), grid_kind=kind_objs[w[3]])
                out['impl'] = native_str(built.conv, got)
            elif w[0] == 'ravel':
                comps = [int(v) for v in w[4].split(',')]
                out['impl'] = str(int(c.ravel_index(make_native(built, c, w[3], comps))))
            elif w[0] == 'size':
                out['impl'] = str(int(c.grid_size[kind_objs[w[3]]]))
        except Exception as e:
            out['impl'] = f'ERR ({type(e).__name__}: {e})'
        if ctx.driver:
            out['model'] = ctx.model([op])[0]
    elif 'n' in inp:
        try:
            got = c.wind_index(inp['n'], grid_kind=kind_objs[inp['kind']])
            out['impl'] = f"wind_index({inp['n']}) = {native_str(built.conv, got)}; ravel back = {c.ravel_index(got)}"
        except Exception as e:
            out['impl'] = f'ERR ({type(e).__name__}: {e})'
    elif 'index' in inp:
        try:
            out['impl'] = f"ravel_index({inp['index']}) = {c.ravel_index(make_native(built, c, inp['kind'], inp['index']))}"
        except Exception as e:
            out['impl'] = f'ERR ({type(e).__name__}: {e})'
    elif 'kind' in inp:
        try:
            out['impl'] = f"grid_size[{inp['kind']}] = {c.grid_size[kind_objs[inp['kind']]]}"
        except Exception as e:
            out['impl'] = f'ERR ({type(e).__name__}: {e})'
    return out
