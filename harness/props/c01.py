"""C01 — native and linear indexes form a bijection on every grid."""
from __future__ import annotations

import itertools

from harness.gen import datasets as G
from harness.gen import c01_extra as X
from harness import util

ID = 'C01'
MODULE = 'EmsModel.Props.C01'
DRIVER = 'C01'
# theorems about the terms harness/trans_indexsrc.py generates from the source of the index functions
EXTRA_MODULES = ['EmsModel.Props.C01Src']
REQUIRED = [
    'Ems.C01.ravel_index_generated', 'Ems.C01.wind_index_generated', 'Ems.C01.grid_size_generated',
    'Ems.C01.index_functions_translated', 'Ems.C01.ravel_wind_generated', 'Ems.C01.wind_rejects_generated',
    'Ems.C01.ravel_rejects_generated',
    'Ems.C01.ravel_wind', 'Ems.C01.wind_ravel', 'Ems.C01.wind_rejects', 'Ems.C01.ravel_rejects',
    'Ems.C01.unknown_kind_rejected', 'Ems.C01.default_kind', 'Ems.C01.wind_inRange',
    'Ems.C01.wind_injective', 'Ems.C01.wind_surjective', 'Ems.C01.ravel_rowmajor_2d',
    'Ems.C01.ravel_rowmajor',
]
RULE = ('datasets of all five convention classes (UGRID with and without an edge dimension) with '
        'random shapes incl. 1xN, Nx1, non-square; per grid kind every linear index in [-3, size+3) '
        'through wind_index (explicit kind and default), every in-range native index and a margin of '
        'out-of-range / negative / wrong-rank / wrong-kind ones (incl. in-range ones shifted by whole '
        'multiples of the dimension) through ravel_index; grid_size and '
        'grid_kinds. A second stream (gen/c01_extra.py) varies how the convention object is obtained '
        '(introspection, explicit latitude= / longitude= names, an explicit topology helper), puts a second '
        'coordinate pair of another shape into the dataset (staggered grids; the names select either pair) '
        'and places CF 1-D axes on the globe (longitudes going exactly once round it, with the cyclic point '
        'repeated, one cell short; latitudes pole to pole). '
        'In both streams three datasets in four (all conventions, walked systematically) get a depth and a time '
        'coordinate and a history: one to three ordinary read-only questions (the grid kind of every variable incl. '
        'those on no grid, depth / time coordinates, geometry, ravel / wind of variables, selections, a clip mask, '
        'refused index questions, …) are put to the convention object before the index questions; the expected '
        'answers stay those of the generator (what was asked before may not change an index space). '
        'The grid shapes given to the model come from the generator, not from emsarray. '
        'A case is non-trivial when its grid has >= 2 cells in a non-square or 1-D shape, or is an '
        'out-of-range probe; distinct = distinct (convention, shape, kind, op, argument).')
TRUSTED = ['numpy.ravel_multi_index / numpy.unravel_index follow C order and raise on out-of-range (modelled by Ems.ravel / Ems.unravel)']
ASSUMPTIONS = ['native indexes are (y,x) / (kind,j,i) / (kind,i) tuples of Python ints']


def native_str(conv: str, idx) -> str:
    """canonical `kind:j,i` of a native index returned by emsarray"""
    if conv in ('cf1d', 'cf2d', 'shoc_simple'):
        return 'face:' + ','.join(str(int(v)) for v in idx)
    kind = idx[0]
    kind = getattr(kind, 'value', kind)
    return f'{kind}:' + ','.join(str(int(v)) for v in idx[1:])


def make_native(built: G.Built, c, kind: str, comps):
    if built.conv in ('cf1d', 'cf2d', 'shoc_simple'):
        return tuple(comps)
    kinds = {k.value: k for k in type(next(iter(c.grid_kinds)))}
    k = kinds.get(kind, kind)
    return (k, *comps)


def unravel(n: int, shape) -> tuple:
    """row-major position of the n-th cell, computed here (not by numpy, not by the model)"""
    out = []
    for s in reversed(shape):
        n, r = divmod(n, s)
        out.append(r)
    return tuple(reversed(out))


def exercise(ctx, items: list, recipe: dict, tag: str) -> None:
    """every C01 question about the dataset of one recipe: real calls, oracle, lines for the model"""
    rng = ctx.rng
    desc0 = {'recipe': recipe}
    built = X.build(recipe)
    conv = built.conv
    spec = built.grids_spec()
    ctx.count(f'{tag}conv:{conv}' + ('+edge' if 'edge' in built.grids else ''))
    ctx.evaluated()
    history = recipe.get('c01_history') or []
    ctx.count(f'{tag}history-length:{len(history)}')
    for op in history:
        ctx.count(f'history:{op}')
    after = f' (after the questions {history} were put to the same convention object)' if history else ''

    def fail(signature, desc, message):
        ctx.oracle_fail(signature, desc, message + after)

    try:
        c = X.bind(built)
    except Exception as e:  # noqa: BLE001
        # a supported dataset for which no convention object can be had: none of its indexes converts
        fail('convention-construction-raises', desc0,
                        f'constructing / binding {built.conv_class.__name__} raised {type(e).__name__}: {e}')
        return
    for op, exc in built.extra.get('c01_history_raised', []):
        ctx.count(f'history-raised:{op}:{exc}')
    # grid kinds and sizes, against the generator's ground truth
    impl_kinds = sorted(str(getattr(k, 'value', k)) for k in c.grid_kinds)
    if impl_kinds != sorted(built.grids):
        fail('grid-kinds', desc0, f'grid_kinds {impl_kinds} != {sorted(built.grids)}')
    kind_objs = {getattr(k, 'value', k): k for k in c.grid_kinds}
    all_kind_objs = {k.value: k for k in type(next(iter(c.grid_kinds)))}
    for kind, (dims, shape) in built.grids.items():
        if kind not in kind_objs:
            continue        # (reported as `grid-kinds` above)
        size = 1
        for s in shape:
            size *= s
        try:
            impl_size = str(int(c.grid_size[kind_objs[kind]]))
        except Exception:
            impl_size = 'ERR'
        items.append((f'size {spec} {built.default_kind} {kind}', impl_size, desc0))
        if impl_size != str(size):
            fail('grid-size', {'recipe': recipe, 'kind': kind},
                            f'grid_size[{kind}] = {impl_size}, the grid {dims} = {shape} has {size} locations')
        interesting = size >= 2 and (len(shape) == 1 or shape[0] != shape[1])
        seen_native = {}
        for n in range(-3, size + 3):
            for explicit in ([True, False] if kind == built.default_kind else [True]):
                try:
                    if explicit:
                        got = c.wind_index(n, grid_kind=kind_objs[kind])
                    else:
                        got = c.wind_index(n)
                    out = native_str(conv, got)
                except Exception:
                    got = None
                    out = 'ERR'
                line = f"wind {spec} {built.default_kind} {kind if explicit else '-'} {n}"
                items.append((line, out, {'recipe': recipe, 'op': line}))
                if interesting or not (0 <= n < size):
                    ctx.nontrivial((conv, shape, kind, 'wind', n, explicit))
                # direct oracle: range, row-major position, round trip, injectivity
                if 0 <= n < size:
                    if got is None:
                        fail('wind-in-range-raises', {'recipe': recipe, 'kind': kind, 'n': n},
                                        f'wind_index({n}) raised on a grid of size {size}')
                    else:
                        exp = f"{kind}:{','.join(map(str, unravel(n, shape)))}"
                        if out != exp:
                            fail('wind-not-row-major', {'recipe': recipe, 'kind': kind, 'n': n},
                                            f'wind_index({n}) = {out}, row-major order over {dims} = {shape} gives {exp}')
                        try:
                            back = int(c.ravel_index(got))
                        except Exception as e:
                            back = f'ERR {e}'
                        if back != n:
                            fail('roundtrip-linear', {'recipe': recipe, 'kind': kind, 'n': n},
                                            f'ravel_index(wind_index({n})) = {back}')
                        if explicit:
                            if out in seen_native:
                                fail('wind-not-injective', {'recipe': recipe, 'kind': kind, 'n': n},
                                                f'wind_index({n}) == wind_index({seen_native[out]}) == {out}')
                            seen_native[out] = n
                elif got is not None:
                    fail('wind-out-of-range-accepted', {'recipe': recipe, 'kind': kind, 'n': n},
                                    f'wind_index({n}) = {out} on a grid of size {size}')
        # native indexes: all in range + a margin
        ranges = [range(-2, s + 2) for s in shape]
        probes = list(itertools.product(*ranges))
        inr = [p for p in probes if all(0 <= v < s for v, s in zip(p, shape))]
        if len(probes) > 400:
            outr = [p for p in probes if not all(0 <= v < s for v, s in zip(p, shape))]
            probes = inr + rng.sample(outr, min(len(outr), 60))
        # an in-range index moved by whole multiples of a dimension (what a wrapped index would hit)
        for p in (rng.sample(inr, min(len(inr), 4)) if inr else []):
            for a, s in enumerate(shape):
                for shift in (s, -s, 2 * s, -2 * s, 3 * s + 1):
                    q = tuple(v + shift if b == a else v for b, v in enumerate(p))
                    if q not in probes:
                        probes.append(q)
        # wrong rank
        probes.append(tuple([0] * (len(shape) + 1)))
        if len(shape) > 1:
            probes.append((0,))
        for comps in probes:
            native = make_native(built, c, kind, comps)
            in_range = len(comps) == len(shape) and all(0 <= v < s for v, s in zip(comps, shape))
            try:
                lin = int(c.ravel_index(native))
                out = str(lin)
            except Exception:
                lin = None
                out = 'ERR'
            line = f"ravel {spec} {built.default_kind} {kind} {','.join(map(str, comps))}"
            items.append((line, out, {'recipe': recipe, 'op': line}))
            if interesting or not in_range:
                ctx.nontrivial((conv, shape, kind, 'ravel', comps))
            if in_range:
                # row-major expectation, computed independently of the model
                exp = 0
                for v, s in zip(comps, shape):
                    exp = exp * s + v
                if lin != exp:
                    fail('not-row-major', {'recipe': recipe, 'kind': kind, 'index': comps},
                                    f'ravel_index({comps}) = {out}, row-major over {dims} = {shape} gives {exp}')
                else:
                    try:
                        back = c.wind_index(lin, grid_kind=kind_objs[kind])
                        back_s = native_str(conv, back)
                    except Exception as e:
                        back_s = f'ERR {e}'
                    if back_s != f"{kind}:{','.join(map(str, comps))}":
                        fail('roundtrip-native', {'recipe': recipe, 'kind': kind, 'index': comps},
                                        f'wind_index(ravel_index({comps})) = {back_s}')
            elif lin is not None:
                fail('ravel-out-of-range-accepted', {'recipe': recipe, 'kind': kind, 'index': comps},
                                f'ravel_index({comps}) = {lin} on shape {shape}')
    # a kind the dataset does not have (UGRID without edges; a made-up kind elsewhere)
    for kind in set(all_kind_objs) - set(built.grids):
        native = make_native(built, c, kind, (0,) * (1 if conv == 'ugrid' else 2))
        try:
            out = str(int(c.ravel_index(native)))
            fail('absent-kind-accepted', {'recipe': recipe, 'kind': kind}, f'ravel_index on absent kind {kind} = {out}')
        except Exception:
            out = 'ERR'
        line = f"ravel {spec} {built.default_kind} {kind} {'0' if conv == 'ugrid' else '0,0'}"
        items.append((line, out, {'recipe': recipe, 'op': line}))
        try:
            out = native_str(conv, c.wind_index(0, grid_kind=all_kind_objs[kind]))
            fail('absent-kind-accepted', {'recipe': recipe, 'kind': kind}, f'wind_index on absent kind {kind} = {out}')
        except Exception:
            out = 'ERR'
        line = f"wind {spec} {built.default_kind} {kind} 0"
        items.append((line, out, {'recipe': recipe, 'op': line}))
        ctx.nontrivial((conv, 'absent-kind', kind))


def with_history(rng, recipe: dict, u: int) -> dict:
    """the recipe with the history of its convention object (and depth / time coordinates for it to look at)"""
    history = X.random_history(rng, u)
    if not history:
        return recipe
    recipe = X.with_layers(rng, recipe)
    recipe['c01_history'] = history
    return recipe


def run(ctx) -> None:
    rng = ctx.rng
    n_datasets = ctx.budget(60, 300)
    items = []
    for d in range(n_datasets):
        conv = G.CONVS[d % len(G.CONVS)]
        kw = {'holes': False} if conv != 'ugrid' and conv != 'cf1d' else {}
        if conv == 'ugrid':
            # walk the layouts of the connectivity tables systematically (stored either way round, with and
            # without edge tables / a declared edge dimension) instead of leaving them to chance
            u = d // len(G.CONVS)
            kw = {'transposed': u % 2 == 1,
                  'tables': [[], ['edge_node'], ['edge_node', 'edge_face'], ['edge_face', 'face_edge']][(u // 2) % 4],
                  'edge_dim_declared': (u // 8) % 2 == 0,
                  'edge_tables_as_coords': u % 3 == 2}
        recipe = G.random_recipe(rng, conv, ctx.tier, vary=True, **kw)
        # data variables in arbitrary dimension orders: the grid's shape and index order may not follow them
        recipe = G.attach_vars(rng, recipe, n_vars=2, max_extra=1)
        # what was asked of the convention object before (walked per convention: d // 5 is the dataset's rank in it)
        recipe = with_history(rng, recipe, d // len(G.CONVS))
        ctx.guarded(lambda: exercise(ctx, items, recipe, ''), {'recipe': recipe})
    # second stream: how the convention object is obtained, a second coordinate pair, axes placed on the globe
    for k in range(ctx.budget(40, 160)):
        recipe = X.random_extra(rng, k, ctx.tier)
        recipe = G.attach_vars(rng, recipe, n_vars=2, max_extra=1)
        recipe = with_history(rng, recipe, k)
        info = recipe['c01']
        ctx.count(f"bind:{info['bind']}/{info['pair']}" + ('+2nd-pair' if info['extra'] else ''))
        ctx.count(f"lon:{info['lon_class']}")
        ctx.guarded(lambda: exercise(ctx, items, recipe, 'x-'), {'recipe': recipe})
    if ctx.searching and ctx.driver is None:
        ctx.evaluated(len(items))
        return
    ctx.check_batch(items)


def replay(ctx, data) -> int:
    return util.generic_replay(ctx, data, run_one)


def run_one(ctx, inp: dict) -> dict:
    """Re-execute one recorded input on the real code and on the model."""
    built = X.build(inp['recipe'])
    out = {}
    info = inp['recipe'].get('c01')
    if info:
        out['convention'] = (f"{built.conv_class.__name__} obtained by {info['bind']!r}, coordinates "
                             f"{built.extra['c01_names']}, grid {built.grids_spec()}")
    if inp['recipe'].get('c01_history'):
        out['history'] = ('questions put to the convention object before this one: '
                          + ', '.join(inp['recipe']['c01_history']))
    try:
        c = X.bind(built)
    except Exception as e:  # noqa: BLE001
        out['impl'] = f'ERR constructing the convention ({type(e).__name__}: {e})'
        return out
    op = inp.get('op')
    kind_objs = {getattr(k, 'value', k): k for k in c.grid_kinds}
    if op:
        w = op.split()
        try:
            if w[0] == 'wind':
                got = c.wind_index(int(w[4])) if w[3] == '-' else c.wind_index(int(w[4]), grid_kind=kind_objs[w[3]])
                out['impl'] = native_str(built.conv, got)
            elif w[0] == 'ravel':
                comps = [int(v) for v in w[4].split(',')]
                out['impl'] = str(int(c.ravel_index(make_native(built, c, w[3], comps))))
            elif w[0] == 'size':
                out['impl'] = str(int(c.grid_size[kind_objs[w[3]]]))
        except Exception as e:
            out['impl'] = f'ERR ({type(e).__name__}: {e})'
        if ctx.driver:
            out['model'] = ctx.model([op])[0]
    elif 'n' in inp:
        try:
            got = c.wind_index(inp['n'], grid_kind=kind_objs[inp['kind']])
            out['impl'] = f"wind_index({inp['n']}) = {native_str(built.conv, got)}; ravel back = {c.ravel_index(got)}"
        except Exception as e:
            out['impl'] = f'ERR ({type(e).__name__}: {e})'
    elif 'index' in inp:
        try:
            out['impl'] = f"ravel_index({inp['index']}) = {c.ravel_index(make_native(built, c, inp['kind'], inp['index']))}"
        except Exception as e:
            out['impl'] = f'ERR ({type(e).__name__}: {e})'
    elif 'kind' in inp:
        try:
            out['impl'] = f"grid_size[{inp['kind']}] = {c.grid_size[kind_objs[inp['kind']]]}"
        except Exception as e:
            out['impl'] = f'ERR ({type(e).__name__}: {e})'
    return out
