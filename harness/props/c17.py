"""C17 — saving with the EMS fixes preserves data, geometry and time instants; the rewritten time
units string has the EMS form and denotes the same instant."""
from __future__ import annotations

import datetime as dt
import os
import re
import shutil
import tempfile
import warnings

import numpy as np

from harness.gen import datasets as G
from harness.gen import timeunits as TU
from harness.gen import c17_extra6 as X6      # round 6: ranks (scalars left by a selection), histories of saves
from harness import util

warnings.simplefilter('ignore')

ID = 'C17'
MODULE = 'EmsModel.Props.C17'
DRIVER = 'C17'
REQUIRED = [
    'Ems.C17.offset_roundtrip', 'Ems.C17.offset_form', 'Ems.C17.same_instant', 'Ems.C17.same_zone',
    'Ems.C17.output_form', 'Ems.C17.format_valid', 'Ems.C17.format_some_iff', 'Ems.C17.check_redundant', 'Ems.C17.time_instants_preserved',
    'Ems.C17.parseUnits_spelled', 'Ems.C17.format_spelled', 'Ems.C17.ems_rewrite_gregorian',
    'Ems.C17.fill_decision', 'Ems.C17.no_new_fill', 'Ems.C17.autofill_covered',
    'Ems.C17.time_coordinate_first', 'Ems.C17.time_coordinate_none',
    'Ems.C17.same_instant_gregorian', 'Ems.C17.validInput_gregorian',
    # the theorems about the terms translated from the source (harness/trans_timeunits.py -> Gen/TimeUnitsSrc.lean)
    'Ems.C17.src_translated', 'Ems.C17.src_template_spec', 'Ems.C17.src_offset_roundtrip', 'Ems.C17.src_format_spec',
    'Ems.C17.src_format_primary', 'Ems.C17.src_output_form', 'Ems.C17.src_same_instant', 'Ems.C17.src_same_zone',
    'Ems.C17.src_fill_spec', 'Ems.C17.src_fill_decision', 'Ems.C17.src_time_coordinate_generic',
    'Ems.C17.src_time_coordinate_shoc', 'Ems.C17.src_time_coordinate_owners', 'Ems.C17.src_time_coordinate_first',
    'Ems.C17.src_time_coordinate_none', 'Ems.C17.src_fix_spec',
    # round 6: variables of every rank, histories of saves (Core/SaveSession.lean, Props/C17Hist.lean)
    'Ems.C17.save_history_independent', 'Ems.C17.plain_save_no_new_fill', 'Ems.C17.plain_save_after_history',
    'Ems.C17.save_rank_irrelevant', 'Ems.C17.scalar_no_new_fill',
]
EXTRA_MODULES = ['EmsModel.Props.C17Src', 'EmsModel.Props.C17Hist']
RULE = ('units strings built from (period, date, time of day, offset, calendar, spelling) tuples: every cftime '
        'unit name x epochs incl. years < 1000, leap days, month/year ends where local and UTC date differ, the '
        '1582 switch and the ends of the year range x every offset -12:00..+14:00 in 15-minute steps (all of them, '
        'with every tz spelling, on each run) plus random minute offsets in (-24h, 24h) x spellings (T / blank / other '
        'separator, with / without seconds, padded or not, +HH / +HHMM / +HH:MM / Z / none, attached or spaced, '
        'fraction, case, whitespace, trailing text); a malformed stream of fixed and randomly edited strings; '
        'real format_time_units_for_ems, cftime.num2pydate, _parse_date, _datesplit vs the model. The denoted '
        'instant of a generated case is computed from its fields with datetime, never by parsing. Dataset round '
        'trips: every convention, tagged float / int / int-with-fill variables, a time coordinate with encoding '
        'units, in memory or opened from a file. The calendar attribute / encoding of the time variable is spelled as '
        'other tools write it (lower case, UPPER, Capitalised, Title_Case, mixed; gregorian for standard) in the '
        'fix_time_units_for_ems files, the time-coordinate saves and the round trips, and the units attribute found '
        'in the file afterwards is held against the form / same-instant / same-zone clauses directly. Non-trivial: offset != 0, or local date != UTC date, or year < '
        '1000, or a non-canonical spelling; distinct = distinct (units string, calendar). '
        'Round 6 (harness/gen/c17_extra6.py, a random stream of its own): round trips of what is left of a dataset after '
        'one index was selected along a non-empty subset of its non-grid dimensions (time, k, spare; in memory or on the '
        'opened file) - the f8 / f4 / i4 level variable of a selected dimension (index coordinate, other coordinate or '
        'data variable, with or without a _FillValue of its own) stays without dimensions - plus variables that never had '
        'a dimension (float, int, datetime64, timedelta64); the fill decision of every writable dtype at rank 0 and 2 '
        'through to_netcdf_with_fixes; and the same plain round trips judged after a history of 1-3 earlier saves (of '
        'another dataset of the same or another convention through the convention object, the accessor or '
        'to_netcdf_with_fixes, or of the judged dataset itself) that were given keyword arguments of their own '
        '(encoding= packing / fill value / compression, format=, unlimited_dims=, engine=, an encoding that makes the '
        'call fail). The _FillValue attributes of every file of a history are compared with Ems.SaveSession.runSession.')
TRUSTED = [
    'cftime units grammar (_datesplit, ISO8601_REGEX / TIMEZONE_REGEX, _parse_date, num2pydate): modelled as it behaves (Ems.TimeUnits.parseDate / parseOffset / refInstant), compared with the real cftime on every generated string',
    'datetime / pytz calendar arithmetic: abstract bijection between field tuples and seconds (CalLaws); the concrete proleptic Gregorian instance used by the driver is proved lawful in Lemmas/TimeUnitsCal.lean and compared with datetime on every case',
    'netCDF4 / xarray file round trip (encode, decode, attribute rewrite in place): exercised and compared at run time, not modelled',
    'xarray maybe_promote / DefaultFillvalueCoder: decision tables promoteStable / autoFills, compared with the live functions on every run',
]
ASSUMPTIONS = [
    'ASCII units strings; a fractional second has at most ~15 digits (microsecond != 0 iff one of the first six is not 0)',
    'fill_decision / no_new_fill: the encoding does not cast a variable that is not float-like to a floating on-disk dtype (otherwise xarray adds a NaN _FillValue that disable_default_fill_value cannot prevent; witnessed by Ems.C17.no_new_fill_needs_hyp)',
]
LEVEL_NOTE = ('Partial: the netCDF file round trip (data, geometry, convention detection after reopening) is runtime '
              'behaviour of netCDF4/xarray compared by the correspondence and the oracle, not modelled in Lean.')

EMS_RE = re.compile(r'^(\S+) since (\d{4})-(\d{2})-(\d{2}) (\d{2}):(\d{2}):(\d{2}) ([+-])(\d{2}):(\d{2})$')
LOOSE_RE = re.compile(r'^(\S+) since (\d+)-(\d{2})-(\d{2}) (\d{2}):(\d{2}):(\d{2}) (\S*)$')
EPOCH = dt.datetime(1970, 1, 1)


# --------------------------------------------------------------------------
# protocol helpers

def esc(s: str) -> str:
    return ''.join(c if (32 <= ord(c) <= 126 and c not in '%;|') else f'%{ord(c):02X}' for c in s)


def unesc(s: str) -> str:
    return re.sub(r'%([0-9A-Fa-f]{2})', lambda m: chr(int(m.group(1), 16)), s)


def ascii_ok(s: str) -> bool:
    return all(ord(c) < 128 for c in s)


def secs(d: dt.datetime) -> int:
    delta = d - EPOCH
    return delta.days * 86400 + delta.seconds


class Batch:
    """All model lines of one run, sent to the driver in a single call (its start-up dominates)."""

    def __init__(self):
        self.items = []

    def add(self, line: str, impl: str, desc: dict, pick=None) -> int:
        """compare the model's output line (through `pick`, if given) with `impl`"""
        self.items.append((line, impl, desc, pick, None))
        return len(self.items) - 1

    def add_same(self, line: str, index: int, desc: dict) -> int:
        """the model's output for `line` must equal its output for the line added as `index`"""
        self.items.append((line, None, desc, None, index))
        return len(self.items) - 1

    def extend(self, triples) -> None:
        for line, impl, desc in triples:
            self.add(line, impl, desc)

    def flush(self, ctx) -> None:
        if ctx.driver is None:
            ctx.evaluated(len(self.items))
            return
        outs = ctx.model([it[0] for it in self.items])
        for (line, impl, desc, pick, same), out in zip(self.items, outs):
            ctx.evaluations += 1
            ctx.traces += 1
            got = pick(out) if pick else out
            want = impl if same is None else outs[same]
            if got != want:
                ctx.disagree(line, want, out, desc)
            elif len(ctx.samples) < 8 and ctx.rng.random() < 0.0005:
                ctx.samples.append({'op': line[:300], 'impl': want[:300], 'model': out[:300]})
        if len(ctx.samples) < 2:
            for (line, impl, desc, pick, same), out in list(zip(self.items, outs))[:2]:
                ctx.samples.append({'op': line[:300], 'impl': (impl or '')[:300], 'model': out[:300]})
        self.items = []


# --------------------------------------------------------------------------
# the real code, canonicalised

def impl_fmt(calendar: str, units: str) -> str:
    from emsarray.utils import format_time_units_for_ems
    try:
        out = format_time_units_for_ems(units, calendar)
    except Exception:
        return 'ERR'
    return esc(out)


def impl_instant(calendar: str, units: str) -> str:
    import cftime
    try:
        d = cftime.num2pydate(0, units, calendar)
    except Exception:
        return 'ERR'
    return f'{secs(d)} {1 if d.microsecond else 0}'


def local_year_in_model_domain(units: str) -> bool:
    """The model's calendar is defined for local years 1..9999 (Python datetimes); cftime itself also
    reads e.g. year 10000 +10:00, whose UTC instant is still in 9999.  Such references are refused by
    format_time_units_for_ems either way (compared through `fmt`), only `instant` is not compared."""
    import cftime
    try:
        y = cftime._parse_date(cftime._datesplit(units)[1].strip())[0]
    except Exception:
        return True
    return 1 <= y <= 9999


def impl_parse(text: str) -> str:
    import cftime
    try:
        y, mo, d, h, mi, s, us, off = cftime._parse_date(text)
    except Exception:
        return 'ERR'
    if off != int(off):
        return f'NONINT {off}'
    return f'{y},{mo},{d},{h},{mi},{s},{1 if us else 0},{int(off)}'


def impl_poff(text: str) -> str:
    """cftime's reading of an offset field: what `_parse_date` yields when `text` follows a complete
    date and time after one blank; `-` when the timezone group does not match"""
    import cftime
    from cftime import _cftime
    full = '2001-02-03 04:05:06 ' + text
    m = _cftime.ISO8601_REGEX.match(full)
    if m is None or m.groupdict()['timezone'] is None:
        return '-'
    return str(int(cftime._parse_date(full)[-1]))


def impl_split(units: str) -> str:
    import cftime
    try:
        p, r = cftime._datesplit(units)
    except Exception:
        return 'ERR'
    return f'{esc(p)}|{esc(r)}'


def impl_decode(calendar: str, n: int, units: str) -> str:
    import cftime
    try:
        d = cftime.num2pydate(n, units, calendar)
        ref = cftime.num2pydate(0, units, calendar)
    except Exception:
        return 'ERR'
    if ref.microsecond:
        return 'ERR'
    delta = d - EPOCH
    return str((delta.days * 86400 + delta.seconds) * 1_000_000 + delta.microseconds)


DTYPES = {
    'bool': ['bool'], 'int': ['i1', 'i2', 'i4', 'i8'], 'uint': ['u1', 'u2', 'u4', 'u8'],
    'float': ['f2', 'f4', 'f8'], 'complex': ['c8', 'c16'], 'datetime': ['M8[ns]', 'M8[s]'],
    'timedelta': ['m8[ns]', 'm8[s]'], 'str': ['U3'], 'bytes': ['S3'], 'object': ['O'],
}


def impl_promote(dtype: str) -> str:
    from xarray.core.dtypes import maybe_promote
    d = np.dtype(dtype)
    return '1' if maybe_promote(d)[0] == d else '0'


def impl_autofill(dtype: str) -> str:
    return '1' if np.issubdtype(np.dtype(dtype), np.floating) else '0'


def impl_slot(dtype: str, enc: str, attr: bool) -> str:
    """encoding['_FillValue'] state after the real disable_default_fill_value"""
    import xarray as xr
    from emsarray.utils import disable_default_fill_value
    d = np.dtype(dtype)
    data = np.zeros(2, dtype=d) if d.kind != 'O' else np.array(['a', 'b'], dtype=object)
    da = xr.DataArray(data, dims=['x'])
    if enc == 'none':
        da.encoding['_FillValue'] = None
    elif enc == 'value':
        da.encoding['_FillValue'] = 0
    if attr:
        da.attrs['_FillValue'] = 0
    ds = xr.Dataset({'v': da})
    disable_default_fill_value(ds)
    e = ds['v'].encoding
    if '_FillValue' not in e:
        return 'absent'
    return 'none' if e['_FillValue'] is None else 'value'


# --------------------------------------------------------------------------
# the direct oracle on one units string

def classify_output(period: str, out: str) -> str | None:
    """signature of a form violation of a returned units string, None if it has the EMS form"""
    if EMS_RE.match(out):
        return None
    m = LOOSE_RE.match(out)
    if m:
        if len(m.group(2)) != 4:
            # the year is not four digits wide; is the offset field fine?
            return 'time-units-year-format' if re.fullmatch(r'[+-]\d{2}:\d{2}', m.group(8)) else 'time-units-offset-format'
        return 'time-units-offset-format'
    return 'time-units-form'


def oracle_units(ctx, calendar: str, units: str, out: str, case: dict | None, desc: dict, fn: str | None = None) -> str | None:
    """Brute-force statement of the property for one call of the real function. Returns the
    signature it reported (None when the property holds on this input). `out` is what the real code
    produced from (`units`, `calendar`): the return value of format_time_units_for_ems, or - with `fn`
    naming the entry point - the units attribute found in the file after a save / an in-place rewrite."""
    import cftime
    call = (f'format_time_units_for_ems({units!r}, {calendar!r})' if fn is None
            else f'{fn} units {units!r}, calendar {calendar!r}')
    arrow = f'{units!r}' if fn is None else f'{fn} calendar {calendar!r}: {units!r}'
    if case is not None and TU.is_valid(case):
        want_utc = TU.utc_instant(case)
        if out == 'ERR':
            sig = 'time-units-offset-format' if TU.f5_class(case['off']) else 'time-units-valid-input-rejected'
            ctx.oracle_fail(sig, desc, f'{call} raises on a valid units string '
                                       f'(offset {case["off"]} min)')
            return sig
        text = unesc(out)
        sig = classify_output(case['period'].lower(), text)
        if sig:
            ctx.oracle_fail(sig, desc, f'{arrow} -> {text!r}: not of the form "<unit> since YYYY-MM-DD HH:MM:SS +HH:MM"')
            return sig
        try:
            got = cftime.num2pydate(0, text, calendar)
        except Exception as e:
            ctx.oracle_fail('time-units-unreadable', desc, f'{arrow} -> {text!r} which cftime rejects: {e}')
            return 'time-units-unreadable'
        if got != want_utc:
            ctx.oracle_fail('time-units-instant-changed', desc, f'{arrow} denotes {want_utc} UTC, rewritten {text!r} denotes {got}')
            return 'time-units-instant-changed'
        if text != TU.canonical(case):
            sig = 'time-units-period-changed' if text.split(' ')[0] != case['period'].lower() else 'time-units-zone-changed'
            ctx.oracle_fail(sig, desc, f'{arrow} -> {text!r}, expected {TU.canonical(case)!r} (same zone, same unit)')
            return sig
        return None
    # no ground truth (malformed stream / invalid case): whatever is returned must still have the
    # form and denote the instant cftime reads from the input; and a string that cftime reads as a
    # whole-second instant with an offset below 24 h and a four-digit local year must not be refused
    if out == 'ERR':
        try:
            ref = cftime.num2pydate(0, units, calendar)
            bits = cftime._parse_date(cftime._datesplit(units)[1].strip())
        except Exception:
            return None
        if ref.microsecond == 0 and abs(bits[-1]) < 1440 and 1 <= bits[0] <= 9999:
            sig = 'time-units-offset-format' if TU.f5_class(int(bits[-1])) else 'time-units-valid-input-rejected'
            ctx.oracle_fail(sig, desc, f'{call} raises although cftime reads the '
                                       f'string as {ref} UTC, offset {int(bits[-1])} min')
            return sig
        return None
    text = unesc(out)
    if fn is not None and text == units:
        # a file whose units were left as they were: only a string that denotes an instant is inside the quantifier
        try:
            cftime.num2pydate(0, units, calendar)
        except Exception:
            return None
    sig = classify_output('', text)
    if sig:
        ctx.oracle_fail(sig, desc, f'{arrow} -> {text!r}: not of the form "<unit> since YYYY-MM-DD HH:MM:SS +HH:MM"')
        return sig
    try:
        a = cftime.num2pydate(0, units, calendar)
        b = cftime.num2pydate(0, text, calendar)
    except Exception as e:
        ctx.oracle_fail('time-units-unreadable', desc, f'{arrow} -> {text!r}: {e}')
        return 'time-units-unreadable'
    if a != b:
        ctx.oracle_fail('time-units-instant-changed', desc, f'{arrow} denotes {a}, rewritten {text!r} denotes {b}')
        return 'time-units-instant-changed'
    return None


def nontrivial_case(case: dict | None, units: str) -> bool:
    if case is None:
        return True
    utc = TU.utc_instant(case)
    return bool(case['off'] != 0 or case['Y'] < 1000 or units != TU.canonical(case)
                or (utc is not None and utc.day != case['D']))


# --------------------------------------------------------------------------
# streams

def simple_first_cases() -> list:
    """smallest inputs of each class first, so that the first recorded failure is a minimal replay"""
    base = {'period': 'days', 'Y': 1990, 'M': 1, 'D': 1, 'h': 0, 'mi': 0, 's': 0, 'calendar': 'proleptic_gregorian',
            'sp': {'sep': ' ', 'seconds': True, 'pad': True, 'tz': 'colon', 'tzsep': ' '}}
    out = []
    for off in [600, 660, 480, -210, -600, 0, 345, -30, 840, -720, 1439, -1439]:
        out.append(dict(base, off=off))
    out.append(dict(base, Y=990, off=600))
    out.append(dict(base, Y=7, M=7, D=7, off=-600))
    for sp in [{'sep': 'T', 'tzsep': '', 'tz': 'colon'}, {'sep': ' ', 'pad': False, 'tz': 'hours', 'tzsep': ' '},
               {'sep': 'T', 'tz': 'compact', 'tzsep': '', 'seconds': False}]:
        out.append(dict(base, off=600, sp=dict(base['sp'], **sp)))
    out.append(dict(base, period='hours', Y=2021, M=11, D=16, h=12, off=660, sp=dict(base['sp'], sep='T', tzsep='')))
    out.append(dict(base, off=0, sp=dict(base['sp'], tz='Z', sep='T', tzsep='')))
    out.append(dict(base, off=0, sp=dict(base['sp'], tz='none', time=False)))
    return out


def grid_cases(ctx) -> list:
    """every offset of the -12:00..+14:00 grid x every tz spelling x periods x a few epochs"""
    rng = ctx.rng
    cases = []
    periods = TU.MAIN_PERIODS if not ctx.thorough else TU.MAIN_PERIODS + ['milliseconds', 'microseconds']
    epochs = [(1990, 1, 1, 0, 0, 0), (2000, 2, 29, 23, 59, 59), (950, 6, 15, 4, 5, 6), (1999, 12, 31, 23, 59, 59)]
    for off in TU.OFFSET_GRID:
        styles = ['colon', 'compact'] + (['hours'] if off % 60 == 0 else []) + (['Z', 'none'] if off == 0 else [])
        for style in styles:
            for sep, tzsep, seconds in [('T', '', True), (' ', ' ', True), ('T', ' ', False), (' ', '', False)]:
                if ctx.thorough:
                    chosen = [(p, e) for p in periods for e in epochs]
                else:
                    chosen = [(rng.choice(periods), rng.choice(epochs))]
                for period, ep in chosen:
                    y, m, d, h, mi, s = ep
                    if not seconds:
                        s = 0
                    cases.append({'period': period, 'Y': y, 'M': m, 'D': d, 'h': h, 'mi': mi, 's': s, 'off': off,
                                  'calendar': 'proleptic_gregorian',
                                  'sp': {'sep': sep, 'seconds': seconds, 'pad': True, 'tz': style, 'tzsep': tzsep}})
    return cases


def units_stream(ctx, batch: Batch) -> None:
    rng = ctx.rng
    work: list = []      # (calendar, units, case | None)
    for case in simple_first_cases():
        work.append((case['calendar'], TU.spell(case), case))
    for case in grid_cases(ctx):
        work.append((case['calendar'], TU.spell(case), case))
    ctx.count('units:grid', len(work))
    # every minute offset in (-24h, 24h) once
    if ctx.thorough:
        offs = list(range(-1439, 1440))
    else:
        offs = sorted(set(rng.sample(range(-1439, 1440), 240) + [-1439, 1439, -1, 1, 0]))
    for off in offs:
        case = {'period': 'minutes', 'Y': 2001, 'M': 2, 'D': 3, 'h': 4, 'mi': 5, 's': 6, 'off': off,
                'calendar': 'proleptic_gregorian', 'sp': {'sep': ' ', 'seconds': True, 'pad': True, 'tz': 'colon', 'tzsep': ' '}}
        work.append((case['calendar'], TU.spell(case), case))
    # random structured cases
    n = ctx.budget(1500, 15000)
    for _ in range(n):
        case = TU.random_case(rng)
        work.append((case['calendar'], TU.spell(case), case))
    ctx.count('units:random-valid-shaped', n)
    # edge epochs x offsets that push the UTC instant over the ends of the year range / the 1582 rule
    for ep in TU.EPOCHS_FIXED:
        for off in [0, 600, -600, 1, -1, 1439, -1439, 60, -60]:
            for cal in ['proleptic_gregorian', 'standard']:
                y, m, d, h, mi, s = ep
                case = {'period': 'hours', 'Y': y, 'M': m, 'D': d, 'h': h, 'mi': mi, 's': s, 'off': off, 'calendar': cal,
                        'sp': {'sep': ' ', 'seconds': True, 'pad': True, 'tz': 'colon', 'tzsep': ' '}}
                work.append((cal, TU.spell(case), case))
    # unsupported calendars
    for cal in TU.BAD_CALENDARS + ['Standard', 'GREGORIAN', 'proleptic_gregorian ']:
        case = TU.random_case(rng, calendar=cal)
        work.append((cal, TU.spell(case), case))
    # malformed stream
    mal = [(rng.choice(['proleptic_gregorian'] * 4 + ['standard']), t) for t in TU.MALFORMED_FIXED]
    nm = ctx.budget(800, 8000)
    for _ in range(nm):
        case = TU.random_case(rng)
        mal.append((case['calendar'], TU.mutate(rng, TU.spell(case))))
    ctx.count('units:malformed', len(mal))
    for cal, text in mal:
        if ascii_ok(text):
            work.append((cal, text, None))

    # ---- run the real code --------------------------------------------------
    lines, impls, descs = [], [], []
    side_items = []
    for cal, units, case in work:
        if not ascii_ok(cal) or cal == '':
            continue   # the protocol has no way to send an empty word; covered by 'bogus'
        calp = esc(cal).replace(' ', '%20')
        line = f'fmt {calp} {esc(units)}'
        out = impl_fmt(cal, units)
        desc = {'op': line, 'calendar': cal, 'units': units}
        if case is not None:
            desc['case'] = case
        oracle_units(ctx, cal, units, out, case, desc)
        lines.append(line)
        impls.append(out)
        descs.append(desc)
        ctx.count('fmt:' + ('ERR' if out == 'ERR' else 'ok'))
        if case is not None:
            ctx.count('valid-case' if TU.is_valid(case) else 'invalid-case')
            # the model's instant against the generator's ground truth (not against cftime)
            if TU.is_valid(case):
                side_items.append((f'instant {calp} {esc(units)}', f'{secs(TU.utc_instant(case))} 0',
                                   {'op': f'instant {calp} {esc(units)}', 'truth': 'generator'}))
        if nontrivial_case(case, units):
            ctx.nontrivial((cal, units))
        # the other cftime entry points on the same string
        iline = f'instant {calp} {esc(units)}'
        if local_year_in_model_domain(units):
            side_items.append((iline, impl_instant(cal, units), {'op': iline}))
        else:
            ctx.count('instant:local-year-outside-1..9999(not compared)')
        sline = f'split {esc(units)}'
        side_items.append((sline, impl_split(units), {'op': sline}))
        parts = units.split(None, 2)
        if len(parts) == 3:
            pline = f'parse {esc(parts[2].strip())}'
            side_items.append((pline, impl_parse(parts[2].strip()), {'op': pline}))
        k = rng.randint(-50, 5000)     # drawn for every case so that the input stream does not depend on the outputs
        if out != 'ERR' and case is not None and TU.is_valid(case) and case['period'].lower() in TU.UNIT_MICROS:
            try:   # keep the decoded instant inside year 1..9999 (cftime refuses to hand out others)
                far = TU.utc_instant(case) + dt.timedelta(microseconds=k * TU.UNIT_MICROS[case['period'].lower()])
                if not (2 <= far.year <= 9998):
                    continue
            except OverflowError:
                continue
            dline = f'decode {calp} {k} {out}'
            side_items.append((dline, impl_decode(cal, k, unesc(out)), {'op': dline}))
            # time instants are preserved: decoding the same stored number under the old and the new units
            a, b = impl_decode(cal, k, units), impl_decode(cal, k, unesc(out))
            ctx.evaluated()
            if a != b:
                ctx.oracle_fail('time-instant-shifted', desc, f'stored value {k} decodes to {a} under {units!r} but {b} under {unesc(out)!r}')
    # ---- the model: with the code's own consistency check (`fmt`) and without it (`fmtpure`); the
    # conclusions of output_form / same_instant evaluated by the model on the same inputs (`propcheck`)
    nprop = ctx.budget(600, 6000)
    for k, line in enumerate(lines):
        idx = batch.add(line, impls[k], descs[k])
        batch.add_same('fmtpure' + line[3:], idx, {'note': 'formatTimeUnits and formatTimeUnitsChecked differ', **descs[k]})
        if k < nprop:
            batch.add('propcheck ' + line, '1', {'note': 'model-side counterexample to output_form / same_instant', 'op': line})
    batch.extend(side_items)


def offset_stream(ctx, batch: Batch) -> None:
    """parseOffset against cftime's reading of an offset field; formatOffset round trip"""
    rng = ctx.rng
    texts = set()
    for off in range(-1439, 1440, 1 if ctx.thorough else 7):
        for style in ('colon', 'compact', 'hours'):
            texts.add(TU.tz_text(off, style))
        h, m = divmod(off, 60)
        texts.add(f'{h:+d}:{m:02d}')                      # what the unrepaired code writes
        a = abs(off)
        texts.add(f"{'-' if off < 0 else '+'}{a // 60}:{a % 60:02d}")
        texts.add(f"{'-' if off < 0 else '+'}{a // 60:02d}:{a % 60}")
    texts |= {'Z', 'z', '', '+', '-', '+1', '+12', '+123', '+1234', '+12345', '+12:', '+12:3', '+12:34', '+12:345',
              '12:34', '+ 12:34', '+12 :34', '+12: 34', 'ZZ', 'Z+10:00', '+1a:00', '+10:a0', '-00:00', '+00:00',
              '-0000', '+99:99', '+24:00', '-24', 'UTC', '+10:00 trailing', '+1000trailing', '+10:0', '+8:00', '-4:30'}
    for _ in range(ctx.budget(300, 3000)):
        n = rng.randint(0, 7)
        texts.add(''.join(rng.choice('+-0123456789:Z ') for _ in range(n)))
    items = []
    for t in sorted(texts):
        if '\n' in t:
            continue
        line = f'poff {esc(t)}'
        items.append((line, impl_poff(t), {'op': line}))
        ctx.nontrivial(('poff', t))
    # formatOffset: independent reference spelled out here, and the round trip through the real cftime
    for off in range(-1439, 1440):
        a = abs(off)
        ref = f"{'-' if off < 0 else '+'}{a // 60:02d}:{a % 60:02d}"
        items.append((f'foff {off}', ref, {'op': f'foff {off}'}))
        ctx.evaluated()
        if impl_poff(ref) != str(off):
            ctx.oracle_fail('cftime-offset-grammar', {'op': f'poff {ref}'}, f'cftime reads {ref!r} as {impl_poff(ref)}, not {off}')
        items.append((f'propcheck offset {off}', '1', {'op': f'propcheck offset {off}'}))
    ctx.exhaustive = True
    import cftime
    from cftime import _cftime
    live = sorted(getattr(_cftime, '_units', []))
    for u in sorted(set(TU.UNIT_NAMES) | set(live) | {'fortnights', 'months', 'years', 'Days', ''}):
        if u == '':
            continue
        items.append((f'unitok {esc(u)}', '1' if u in live else '0', {'op': f'unitok {u}'}))
    batch.extend(items)


def fill_stream(ctx, batch: Batch) -> None:
    items = []
    for kind, dts in DTYPES.items():
        for d in dts:
            items.append((f'promote {kind}', impl_promote(d), {'op': f'promote {kind}', 'dtype': d}))
            items.append((f'autofill {kind}', impl_autofill(d), {'op': f'autofill {kind}', 'dtype': d}))
            for enc in ('absent', 'none', 'value'):
                for attr in (False, True):
                    if enc == 'value' and attr:
                        continue
                    try:
                        slot = impl_slot(d, enc, attr)
                    except Exception as e:   # noqa
                        slot = f'ERR {type(e).__name__}'
                    # direct statement of the decision: `_FillValue = None` is set iff the dtype can hold its
                    # own missing value (float, complex, datetime, timedelta, object) and there is no fill
                    # value in the encoding or the attributes; everything else is left as it was
                    floatlike = np.dtype(d).kind in 'fcMmO'
                    want = 'none' if (enc == 'none' or (floatlike and enc == 'absent' and not attr)) else enc
                    ctx.evaluated()
                    if slot != want:
                        ctx.oracle_fail('fill-decision', {'op': f'fill {kind} {kind} {enc} {int(attr)}', 'dtype': d},
                                        f'disable_default_fill_value on a {d} variable (encoding slot {enc}, attribute {attr}) '
                                        f'leaves encoding[_FillValue] {slot}, expected {want}')
                    line = f'fill {kind} {kind} {enc} {int(attr)}'
                    # only the encoding slot is compared here; the file bit comes from the model and is
                    # compared in file_fill_stream
                    items.append((line, slot, {'op': line, 'dtype': d, 'compare': 'slot'}))
                    ctx.nontrivial(('fill', d, enc, attr))
    for line, impl, desc in items:
        batch.add(line, impl, desc, pick=(lambda o: o.split(' ')[0]) if desc.get('compare') == 'slot' else None)
    file_fill_stream(ctx, batch)


WRITABLE = {
    # name: (memory dtype, model kind, on-disk kind when written as is)
    'f4': ('f4', 'float', 'float'), 'f8': ('f8', 'float', 'float'), 'i2': ('i2', 'int', 'int'), 'i4': ('i4', 'int', 'int'),
    'i8': ('i8', 'int', 'int'), 'u1': ('u1', 'uint', 'uint'), 'bool': ('bool', 'bool', 'int'),
    'M8': ('M8[ns]', 'datetime', 'int'), 'm8': ('m8[ns]', 'timedelta', 'int'), 'U': ('U3', 'str', 'str'),
}


def file_fill_stream(ctx, batch: Batch) -> None:
    """one file with one variable per (dtype, encoding slot, attribute, on-disk dtype) combination,
    written through the real to_netcdf_with_fixes; `_FillValue` presence read back with netCDF4"""
    import netCDF4
    import xarray as xr
    from emsarray.utils import to_netcdf_with_fixes
    rng = ctx.rng
    tmp = tempfile.mkdtemp(prefix='c17fill')
    try:
        variables = {}
        specs = {}
        n = 0
        for key, (dtype, kind, disk) in WRITABLE.items():
            for enc in ('absent', 'none', 'value'):
                for attr in (False, True):
                    if enc == 'value' and attr:
                        continue
                    for encdtype in (None, 'f8', 'f4', 'i4'):
                        if encdtype is not None and kind in ('str', 'bool', 'timedelta'):
                            continue
                        if kind == 'datetime' and encdtype == 'f4':
                            continue
                        d = np.dtype(dtype)
                        if d.kind == 'M':
                            data = np.array(['2000-01-01', '2000-01-02', '2000-01-03'], dtype=d)
                        elif d.kind == 'm':
                            data = np.array([1, 2, 3], dtype='m8[D]').astype(d)
                        elif d.kind == 'U':
                            data = np.array(['a', 'b', 'c'], dtype=d)
                        else:
                            data = np.array([1, 0, 1], dtype=d)
                        name = f'v{n}'
                        n += 1
                        da = xr.DataArray(data, dims=['x'])
                        fillv = 'z' if d.kind == 'U' else (np.datetime64('1999-01-01', 'ns') if False else 9)
                        if enc == 'none':
                            da.encoding['_FillValue'] = None
                        elif enc == 'value':
                            da.encoding['_FillValue'] = fillv
                        if attr:
                            da.attrs['_FillValue'] = fillv if d.kind == 'U' else np.dtype(encdtype or ('i8' if d.kind in 'Mm' else 'i1' if d.kind == 'b' else dtype)).type(9)
                        if encdtype:
                            da.encoding['dtype'] = np.dtype(encdtype)
                        if d.kind == 'M':
                            da.encoding['units'] = 'days since 2000-01-01'
                        diskkind = disk if encdtype is None else ('float' if encdtype[0] == 'f' else 'int')
                        variables[name] = da
                        specs[name] = (kind, diskkind, enc, attr, dtype, encdtype)
        # write each variable on its own so that one unwritable combination does not hide the others
        items = []
        path = os.path.join(tmp, 'fill.nc')
        for name, da in variables.items():
            kind, diskkind, enc, attr, dtype, encdtype = specs[name]
            line = f'fill {kind} {diskkind} {enc} {int(attr)}'
            desc = {'op': line, 'dtype': dtype, 'encoding_dtype': encdtype, 'compare': 'file'}
            try:
                to_netcdf_with_fixes(xr.Dataset({name: da}), path)
                with netCDF4.Dataset(path) as nc:
                    has = '_FillValue' in nc.variables[name].ncattrs()
            except Exception as e:   # noqa
                ctx.count('fill-file:unwritable')
                continue
            ctx.count('fill-file:written')
            items.append((line, '1' if has else '0', desc))
            src_had = attr or enc == 'value'
            ctx.evaluated()
            if has and not src_had:
                # outside the quantifier when the encoding casts a non-float-like variable to float
                hyp = not (diskkind == 'float' and kind in ('int', 'uint', 'bool', 'str', 'bytes'))
                if hyp:
                    ctx.oracle_fail('fill-value-appeared', desc, f'{dtype} variable (encoding dtype {encdtype}, _FillValue slot {enc}) got a _FillValue attribute the source lacked')
                else:
                    ctx.count('fill-appears:int-cast-to-float(outside quantifier)')
            if src_had and not has:
                ctx.oracle_fail('fill-value-lost', desc, f'{dtype} variable lost its _FillValue')
        for line, impl, desc in items:
            batch.add(line, impl, desc, pick=lambda o: o.split(' ')[-1])
    finally:
        shutil.rmtree(tmp, ignore_errors=True)


# --------------------------------------------------------------------------
# fix_time_units_for_ems on a file

def calendar_spelling(rng, calendar: str) -> str:
    """Another spelling of the same calendar: CF calendar names are not case sensitive (cftime, xarray and
    udunits fold them), `gregorian` is a synonym of `standard`, and files written by other tools carry
    `Gregorian`, `GREGORIAN`, `Standard`, `Proleptic_Gregorian`, ...; xarray keeps the source's spelling in
    the encoding and writes it back verbatim."""
    base = calendar.lower()
    if base in ('standard', 'gregorian') and rng.random() < 0.5:
        base = 'gregorian' if base == 'standard' else 'standard'
    style = rng.choice(['upper', 'capital', 'title', 'mixed'])
    if style == 'upper':
        return base.upper()
    if style == 'capital':
        return base.capitalize()
    if style == 'title':
        return '_'.join(w.capitalize() for w in base.split('_'))
    out = ''.join(ch.upper() if rng.random() < 0.5 else ch for ch in base)
    return out if out != base else base.upper()


def impl_fixattrs(tmp: str, units: str | None, cal: str | None) -> tuple:
    """A file as another tool writes it (netCDF4 directly): a time variable with / without `units` and
    `calendar`, and a second variable with time-like units. Runs the real fix_time_units_for_ems on it.
    Returns (units attribute afterwards, escaped | 'ERR', did everything else stay as it was | None)."""
    import netCDF4
    from emsarray.utils import fix_time_units_for_ems
    path = os.path.join(tmp, 'fx.nc')
    if os.path.exists(path):
        os.unlink(path)
    with netCDF4.Dataset(path, 'w') as nc:
        nc.createDimension('record', 3)
        v = nc.createVariable('t', 'f8', ('record',))
        v[:] = [0.0, 1.5, 2.0]
        v.long_name = 'Time'
        if units is not None:
            v.units = units
        if cal is not None:
            v.calendar = cal
        w = nc.createVariable('other', 'i4', ('record',))
        w[:] = [7, 8, 9]
        w.units = 'days since 2000-01-01'
    try:
        fix_time_units_for_ems(path, 't')
        with netCDF4.Dataset(path) as nc:
            v = nc.variables['t']
            got = v.getncattr('units')
            got = esc(got) if isinstance(got, str) else 'ERR'
            same = (list(v[:]) == [0.0, 1.5, 2.0] and v.long_name == 'Time'
                    and (cal is None or v.calendar == cal)
                    and sorted(v.ncattrs()) == sorted(['long_name', 'units'] + (['calendar'] if cal is not None else []))
                    and nc.variables['other'].units == 'days since 2000-01-01' and list(nc.variables['other'][:]) == [7, 8, 9])
    except Exception:
        got, same = 'ERR', None
    finally:
        try:
            os.unlink(path)
        except OSError:
            pass
    return got, same


def fixattrs_first_cases() -> list:
    """smallest inputs first: one plain reference under every spelling of the calendars of the real world"""
    base = {'period': 'days', 'Y': 1990, 'M': 1, 'D': 1, 'h': 0, 'mi': 0, 's': 0, 'off': 600,
            'sp': {'sep': 'T', 'seconds': True, 'pad': True, 'tz': 'colon', 'tzsep': ''}}
    return [dict(base, calendar=cal) for cal in
            ['proleptic_gregorian', 'gregorian', 'standard', 'Gregorian', 'GREGORIAN', 'Standard', 'STANDARD',
             'Proleptic_Gregorian', 'PROLEPTIC_GREGORIAN']]


def fixattrs_stream(ctx, batch: Batch) -> None:
    """files written with netCDF4 directly: the time variable with / without `units` and `calendar` (the
    calendar in any spelling); the real fix_time_units_for_ems against the model; nothing but the units
    attribute may change; and the units attribute LEFT IN THE FILE is held against the property directly
    (form, same instant, same zone) - a rewrite that is silently skipped leaves the old string there"""
    rng = ctx.rng
    tmp = tempfile.mkdtemp(prefix='c17fx')
    items = []
    try:
        todo = [(case, TU.spell(case), case['calendar']) for case in fixattrs_first_cases()]
        for k in range(ctx.budget(40, 300)):
            case = TU.random_case(rng)
            if rng.random() < 0.3:
                case['calendar'] = calendar_spelling(rng, case['calendar'])
            units = TU.spell(case) if rng.random() < 0.85 else None
            cal = case['calendar'] if rng.random() < 0.85 else None
            todo.append((case, units, cal))
        for case, units, cal in todo:
            if units is not None and not ascii_ok(units):
                continue
            if units is not None and ('\n' in units or ' ; ' in units):
                continue
            line = f"fixattrs {'!' if units is None else esc(units)} ; {'!' if cal is None else esc(cal)}"
            desc = {'op': line, 'units': units, 'calendar': cal}
            got, same = impl_fixattrs(tmp, units, cal)
            ctx.evaluated()
            if same is False:
                ctx.oracle_fail('time-values-recalculated', desc,
                                'fix_time_units_for_ems changed something other than the units attribute of the time variable')
            if units is not None and cal is not None:
                # the file had both attributes: what is in the file now is "the rewritten time units string"
                ctx.count('fixattrs:calendar-' + ('lower-case' if cal == cal.lower() else 'other-spelling'))
                oracle_units(ctx, cal, units, got, case, dict(desc, case=case), fn='fix_time_units_for_ems on a file with')
                if cal != cal.lower():
                    ctx.nontrivial(('fixattrs', units, cal))
            items.append((line, got, desc))
            ctx.count('fixattrs:' + ('ERR' if got == 'ERR' else 'ok'))
    finally:
        shutil.rmtree(tmp, ignore_errors=True)
    batch.extend(items)


# --------------------------------------------------------------------------
# time coordinate discovery

CONV_KIND = {'cf1d': 'generic', 'cf2d': 'generic', 'ugrid': 'generic',
             'shoc_standard': 'shoc_standard', 'shoc_simple': 'shoc_simple'}


def add_time_candidates(ds, cands: list, nt: int, tdim: str = 'time'):
    """cands: [(name, encoding-units | None, is_datetime, as_coord[, scalar[, calendar spelling]])] appended in order"""
    import xarray as xr
    for name, units, is_dt, as_coord, *more in cands:
        scalar = bool(more and more[0])      # a snapshot: the time variable has no dimension at all
        calendar = more[1] if len(more) > 1 and more[1] else 'proleptic_gregorian'
        if is_dt:
            data = np.array([np.datetime64('2000-01-01T00:00:00', 's') + np.timedelta64(k, 'D') for k in range(nt)])
        else:
            data = np.arange(nt, dtype='f8')
        da = xr.DataArray(data[0], dims=[]) if scalar else xr.DataArray(data, dims=[tdim])
        if units is not None:
            da.encoding['units'] = units
            if is_dt:
                da.encoding['calendar'] = calendar
        if as_coord:
            ds = ds.assign_coords({name: da})
        else:
            ds[name] = da
    return ds


def timecoord_case(recipe: dict, cands: list, tdim: str, tmp: str) -> dict:
    """Build the dataset, ask the real convention for its time coordinate and save it."""
    import netCDF4
    import xarray as xr
    from emsarray.exceptions import NoSuchCoordinateError
    conv = recipe['conv']
    built = G.build(recipe)
    ds = add_time_candidates(built.ds, [tuple(cd) for cd in cands], 2, tdim)
    if not cands:
        ds['temp'] = xr.DataArray(np.arange(2.0), dims=[tdim])
    built.ds = ds
    c = G.bind(built)
    try:
        got = str(c.time_coordinate.name)
    except NoSuchCoordinateError:
        got = '-'
    except Exception as e:   # noqa
        got = f'ERR {type(e).__name__}'
    order = list(ds.variables.keys())
    vs = []
    for name in order:
        spec = next((cd for cd in cands if cd[0] == name), None)
        if spec is None:
            vs.append(f'{name}|!|0')
        else:
            vs.append(f"{name}|{'!' if spec[1] is None else esc(spec[1])}|{int(spec[2])}")
    dims = ','.join(str(d) for d in ds.sizes) or '-'
    res = {'tail': f"{CONV_KIND[conv]} {dims} {';'.join(vs)}", 'got': got, 'saved': None, 'error': None,
           'dims': dims, 'order': order, 'class': type(c).__name__}
    # the save itself: which variable has its units rewritten
    raw, out = os.path.join(tmp, 'raw.nc'), os.path.join(tmp, 'out.nc')
    try:
        ds.to_netcdf(raw)
    except Exception:
        return res
    try:
        c.to_netcdf(out)
        with netCDF4.Dataset(raw) as a, netCDF4.Dataset(out) as b:
            changed = [n for n in a.variables if getattr(a.variables[n], 'units', None) != getattr(b.variables[n], 'units', None)]
            res['out_units'] = {n: getattr(b.variables[n], 'units', None) for n in b.variables}
        res['saved'] = changed[0] if len(changed) == 1 else ('-' if not changed else 'MANY ' + ','.join(changed))
    except Exception as e:
        res['saved'] = 'ERR'
        res['error'] = f'{type(e).__name__}: {str(e)[:160]}'
    return res


def timecoord_stream(ctx, batch: Batch) -> None:
    rng = ctx.rng
    pending = []     # (line tail, impl discovery, impl save outcome, desc)
    tmp = tempfile.mkdtemp(prefix='c17tc')
    try:
        for k in range(ctx.budget(100, 400)):
            conv = G.CONVS[k % len(G.CONVS)]
            recipe = G.random_recipe(rng, conv, 'quick', **({'holes': False} if conv not in ('ugrid', 'cf1d') else {}))
            names = rng.sample(['time', 't', 'record', 'Time', 'date', 'ocean_time', 'tt'], rng.choice([0, 1, 1, 1, 2, 3, 4]))
            cands = []
            for name in names:
                units = rng.choice([None, 'days since 1990-01-01', 'days since 1990-01-01 00:00:00 +10:00', 'days',
                                    'hours since 2000-01-01 12:00:00', 'since', 'hours Since 2000-01-01', 'sincerely'])
                is_dt = rng.random() < 0.7
                cands.append([name, units, is_dt, rng.random() < 0.5 and name == 'time', rng.random() < 0.4])
                # the calendar as the source file spelled it (xarray keeps the spelling and writes it back)
                cands[-1].append(calendar_spelling(rng, rng.choice(['proleptic_gregorian', 'standard']))
                                 if rng.random() < 0.35 else 'proleptic_gregorian')
            tdim = rng.choice(['time', 'time', 'record', 't'])
            for cd in cands:
                if cd[0] in (tdim, 'time', 't', 'record') or cd[3]:
                    cd[4] = False       # xarray: a dimension name cannot also be a scalar variable
            if k < len(G.CONVS):
                # smallest case first: a `time` dimension carried by one data variable, no time variable
                cands, tdim = [], 'time'
            def one(conv=conv, recipe=recipe, cands=cands, tdim=tdim):
                res = timecoord_case(recipe, cands, tdim, tmp)
                desc = {'op': f"timecoord {res['tail']}", 'recipe': recipe, 'cands': cands, 'tdim': tdim}
                if res['saved'] == 'ERR':
                    ctx.evaluated()
                    sig = 'save-raises-time-dimension-only' if 'does not have a data array named' in res['error'] else 'save-raises'
                    named = {'shoc_standard': 't', 'shoc_simple': 'time'}.get(conv)
                    spec = next((cd for cd in cands if cd[0] == named), None)
                    if spec is not None and not spec[2]:
                        # a SHOC dataset whose `t` / `time` variable is not a time variable: outside the quantifier
                        ctx.count('timecoord:shoc-named-variable-is-not-a-time(outside quantifier)')
                    else:
                        ctx.oracle_fail(sig, desc, f"{res['class']}.to_netcdf raised {res['error']} on a dataset with dimensions "
                                                   f"{res['dims']} and variables {res['order']} that plain xarray writes fine")
                # direct statement for the unambiguous case: the dataset's only time variable (decoded datetimes, CF
                # time units), of whatever shape, leaves the save with units EMS reads
                clear = [cd for cd in cands if cd[2] and cd[1] and re.match(r'^\w+ since \d', cd[1])]
                if len(clear) == 1 and sum(1 for cd in cands if cd[2]) == 1 and res.get('out_units') \
                        and {'shoc_standard': 't', 'shoc_simple': 'time'}.get(conv, clear[0][0]) == clear[0][0]:
                    ctx.evaluated()
                    u = res['out_units'].get(clear[0][0]) or ''
                    if not re.fullmatch(r'\w+ since \d{4}-\d\d-\d\d \d\d:\d\d:\d\d [+-]\d\d:\d\d', u):
                        ctx.oracle_fail('time-units-not-ems-form', desc,
                                        f"the only time variable {clear[0][0]!r} ({'scalar' if clear[0][4] else 'along ' + tdim}, "
                                        f"calendar {clear[0][5] if len(clear[0]) > 5 else 'proleptic_gregorian'!r}) "
                                        f"was saved with units {u!r}")
                pending.append((res['tail'], res['got'], res['saved'], desc))
                ctx.nontrivial(('timecoord', conv, tdim, tuple(map(tuple, cands))))
                ctx.count(f'timecoord:{conv}:' + ('found' if res['got'] != '-' else 'none'))
            # (guarded: whatever a changed implementation raises or leaves in the file is a verdict, never a crash)
            ctx.guarded(one, {'op': 'timecoord', 'recipe': recipe, 'cands': cands, 'tdim': tdim})
    finally:
        shutil.rmtree(tmp, ignore_errors=True)
    for tail, got, saved, desc in pending:
        batch.add(f'timecoord {tail}', got, desc)
        if saved is not None:
            batch.add(f'savetime {tail}', saved, desc)


# --------------------------------------------------------------------------
# whole-dataset round trip

def time_name_for(conv: str, rng) -> str:
    if conv == 'shoc_standard':
        return 't'
    if conv == 'shoc_simple':
        return 'time'
    return rng.choice(['time', 'time', 't', 'ocean_time'])


def expected_values(info) -> np.ndarray:
    n = int(np.prod(info.shape)) if info.shape else 1
    if info.dtype == 'f8':
        data = (np.arange(n, dtype='f8') + info.base)
    else:
        data = (np.arange(n, dtype='f8') + info.base)
    if info.nan:
        data[list(info.nan)] = np.nan
    return data.reshape(info.shape)


def roundtrip_recipe(ctx, conv: str) -> dict:
    rng = ctx.rng
    recipe = G.random_recipe(rng, conv, 'quick')
    recipe = G.attach_vars(rng, recipe, n_vars=4, dtypes=('f8', 'f8', 'f4', 'i4', 'i8', 'i4fill', 'i4missing'), with_nan=True)
    if conv == 'shoc_simple':
        # ShocSimple.topology reads attrs['standard_name'] of every (j, i) variable it meets before
        # the latitude (KeyError otherwise; recorded in DESIGN.md as outside the properties)
        for vr in recipe['vars']:
            vr['attrs'] = {'standard_name': 'tag_' + vr['name']}
    periods = ['seconds', 'minutes', 'hours', 'days']
    while True:
        case = TU.random_case(rng, periods=periods, calendar=rng.choice(['proleptic_gregorian'] * 4 + ['standard']))
        if not TU.is_valid(case):
            continue
        if case['calendar'] == 'standard' and case['Y'] < 1600:
            continue
        # keep to spellings xarray itself (pandas) reads the same way
        sp = case['sp']
        sp.update({'ws': None, 'case': None, 'tail': '', 'frac': '', 'yearpad': True, 'pad': True, 'time': True})
        if sp['sep'] not in ('T', ' '):
            sp['sep'] = ' '
        break
    # the calendar as another tool spelled it in the source (`Gregorian`, `STANDARD`, ...): xarray folds the
    # case when it decodes, keeps the spelling in the encoding and writes it back verbatim
    if rng.random() < 0.4:
        case['calendar'] = calendar_spelling(rng, case['calendar'])
    rt = {'recipe': recipe, 'case': case, 'tname': time_name_for(conv, rng),
          'mode': rng.choice(['memory', 'file']), 'step': rng.randint(1, 5), 'as_coord': rng.random() < 0.6}
    # in-memory encodings that xarray itself normalises when it writes the file (what ends up in the file is the
    # input of the rewrite): an offset whose hour field is not padded; an integer storage type too coarse for the
    # time steps, for which xarray switches to a finer unit
    c = rng.random()
    if c < 0.25 and sp['tz'] == 'colon' and case['off'] != 0 and abs(case['off']) < 600:
        sp['tz'] = 'colon1'
        sp['tzsep'] = ' '
    elif c < 0.5 and case['period'] in ('days', 'hours', 'minutes'):
        rt['enc_dtype'] = rng.choice(['int32', 'int64'])
        rt['fine'] = True
    return rt


def poly_key(p):
    return None if p is None else p.wkb_hex


def run_roundtrip(ctx, rt: dict, tmp: str) -> list:
    """returns the model items of this round trip; oracle failures are reported directly"""
    import cftime
    import netCDF4
    import xarray as xr
    import emsarray
    recipe, case = rt['recipe'], rt['case']
    conv = recipe['conv']
    desc = {'roundtrip': rt}
    built = G.build(recipe)
    ds = built.ds
    nt = int(ds.sizes.get('time', recipe.get('sizes_extra', {}).get('time', 2)))
    utc0 = TU.utc_instant(case)
    step = dt.timedelta(seconds=TU.UNIT_SECONDS[case['period']] * rt['step'])
    if rt.get('fine'):
        step = step / 4 if case['period'] == 'days' else step / 60
    try:
        instants = [utc0 + k * step for k in range(nt)]
    except OverflowError:
        return []
    if any(i.year < 2 or i.year > 9998 for i in instants):
        return []
    data = np.array([np.datetime64(i.isoformat(), 's') for i in instants])
    da = xr.DataArray(data, dims=['time'], attrs={'long_name': 'Time'})
    units_in = TU.spell(case)
    da.encoding.update({'units': units_in, 'calendar': case['calendar']})
    if rt.get('enc_dtype'):
        da.encoding['dtype'] = np.dtype(rt['enc_dtype'])
    tname = rt['tname']
    if rt['as_coord'] and tname == 'time':
        ds = ds.assign_coords({tname: da})
    else:
        ds[tname] = da
    # >>> round 6 (ranks): the level variables / scalars of the recipe; the selection when it is made in memory
    sel, full_sizes, hist_seen = rt.get('selection'), {}, []
    if sel:
        ds = X6.apply_levels(ds, sel, recipe.get('sizes_extra', {}))
        full_sizes = {str(k): int(v) for k, v in ds.sizes.items()}
        if sel['when'] == 'before':
            ds = X6.apply_select(ds, sel)
        if 'time' in sel['select']:
            instants = [instants[int(sel['select']['time'])]]
    # <<< round 6
    src_fill = {}
    if rt['mode'] == 'file':
        # the source is a file: written by plain xarray with explicit "no fill" encodings where the
        # recipe gives none, then opened through emsarray
        ds0 = ds.copy(deep=False)
        for name, var in ds0.variables.items():
            if '_FillValue' not in var.attrs and '_FillValue' not in var.encoding:
                var.encoding['_FillValue'] = None
        src_path = os.path.join(tmp, 'source.nc')
        try:
            ds0.to_netcdf(src_path)
        except Exception as e:   # noqa
            ctx.count('roundtrip:xarray-cannot-write-source')
            return []
        with netCDF4.Dataset(src_path) as nc:
            src_fill = {k: ('_FillValue' in v.ncattrs()) for k, v in nc.variables.items()}
        source = emsarray.open_dataset(src_path)
        if sel and sel['when'] == 'after':      # round 6 (ranks): the selection is made on the opened file
            source = X6.apply_select(source, sel)
        try:
            c = source.ems
        except Exception as e:   # noqa
            ctx.count('roundtrip:source-not-detected')
            return []
        if type(c) is not built.conv_class:
            ctx.count('roundtrip:source-detected-as-other-convention')
            return []
    else:
        source = ds
        built.ds = ds
        c = G.bind(built)
        for k, v in ds.variables.items():
            src_fill[k] = ('_FillValue' in v.attrs) or (v.encoding.get('_FillValue') is not None)
    src_polys = [poly_key(p) for p in c.polygons]
    # what plain xarray writes for the time variable (the input of the rewrite)
    raw_path = os.path.join(tmp, 'raw.nc')
    try:
        source[[tname]].to_netcdf(raw_path) if tname in source.data_vars else source[[]].assign_coords({tname: source[tname]}).to_netcdf(raw_path)
        with netCDF4.Dataset(raw_path) as nc:
            raw_units = nc.variables[tname].getncattr('units')
            raw_cal = nc.variables[tname].getncattr('calendar')
            raw_vals = np.array(nc.variables[tname][:]).tolist()
    except Exception as e:   # noqa
        ctx.count('roundtrip:xarray-cannot-write-time')
        return []
    if conv in ('shoc_standard', 'shoc_simple'):
        expect_found = tname == {'shoc_standard': 't', 'shoc_simple': 'time'}[conv]
    else:
        # generic rule: datetime64 dtype (a reference too far from 1970 for nanoseconds comes back from
        # a file as cftime objects - xarray's decision - and is then not a time coordinate)
        expect_found = source[tname].dtype.kind == 'M'
        if not expect_found:
            ctx.count('roundtrip:time-not-datetime64(no rewrite expected)')
    out_path = os.path.join(tmp, 'out.nc')
    ctx.count(f'roundtrip:{conv}:{rt["mode"]}')
    ctx.evaluated()
    if rt.get('history'):       # round 6 (histories): earlier saves of this process, with their own keyword arguments
        hist_seen = X6.play_history(rt['history'], tmp, same=c)
    try:
        c.to_netcdf(out_path)
        saved = True
    except Exception as e:
        saved = False
        err = e
    items = []
    line = f"fmt {esc(raw_cal)} {esc(raw_units)}"
    if not saved:
        sig = 'time-units-offset-format' if (isinstance(err, ValueError) and 'same reference time' in str(err)
                                               and TU.f5_class(case['off'])) else 'save-raises'
        ctx.oracle_fail(sig, desc, f'{type(c).__name__}.to_netcdf raised {type(err).__name__}: {str(err)[:200]} '
                                   f'(time units {units_in!r}, written by xarray as {raw_units!r})')
        return []
    with netCDF4.Dataset(out_path) as nc:
        out_units = nc.variables[tname].getncattr('units')
        out_cal = nc.variables[tname].getncattr('calendar')
        out_vals = np.array(nc.variables[tname][:]).tolist()
        out_fill = {k: ('_FillValue' in v.ncattrs()) for k, v in nc.variables.items()}
    # -- the rewritten units: model and oracle
    if expect_found:
        rcase = dict(case, sp={'sep': 'T', 'tzsep': '', 'tz': 'colon', 'seconds': True, 'pad': True})
        # (with an integer storage type xarray may have switched to a finer unit and a UTC reference: the file's
        # units, not the in-memory ones, are then what the rewrite has to preserve)
        oracle_units(ctx, raw_cal, raw_units, esc(out_units),
                     case if TU.utc_instant(case) == TU.utc_instant(rcase) and not rt.get('enc_dtype') else None,
                     {'op': line, **desc}, fn=f'{type(c).__name__}.to_netcdf of a dataset whose time variable xarray writes with')
        items.append((line, esc(out_units), {'op': line, **desc}))
    else:
        # no time coordinate by this convention's rule: units stay as xarray wrote them
        ctx.evaluated()
        if out_units != raw_units:
            ctx.oracle_fail('time-units-rewritten-unexpectedly', desc, f'{raw_units!r} -> {out_units!r} although {tname!r} is not the time coordinate of {conv}')
    if out_vals != raw_vals or out_cal != raw_cal:
        ctx.oracle_fail('time-values-recalculated', desc, f'stored time values / calendar changed: {raw_vals[:3]} -> {out_vals[:3]}')
    # -- reopen
    ds2 = emsarray.open_dataset(out_path)
    try:
        c2 = ds2.ems
    except Exception as e:
        ctx.oracle_fail('convention-lost', desc, f'reopened file: {type(e).__name__}: {e}')
        return items
    if type(c2) is not type(c):
        ctx.oracle_fail('convention-changed', desc, f'{type(c).__name__} saved, {type(c2).__name__} detected after reopening')
        return items
    try:
        polys2 = [poly_key(p) for p in c2.polygons]
    except Exception as e:
        ctx.oracle_fail('polygons-unreadable-after-roundtrip', desc,
                        f'{type(c2).__name__}.polygons of the reopened file raised {type(e).__name__}: {str(e)[:200]}')
        return items
    if polys2 != src_polys:
        bad = next((k for k, (a, b) in enumerate(zip(src_polys, polys2)) if a != b), None)
        ctx.oracle_fail('polygons-changed', desc, f'polygon {bad} differs after the round trip ({len(src_polys)} -> {len(polys2)} cells)')
    # (whether the polygons are the *right* ones for the coordinates is property C06; here the source's
    # polygons, computed before saving, are the reference)
    for name, info in built.vars.items():
        want_dims, want = X6.select_truth(info.dims, expected_values(info), sel)      # round 6: after the selection, if any
        if name not in ds2.variables:
            ctx.oracle_fail('variable-lost', desc, f'{name} missing after the round trip')
            continue
        v2 = ds2[name]
        if tuple(v2.dims) != tuple(want_dims):
            ctx.oracle_fail('values-changed', desc, f'{name}: dims {want_dims} -> {v2.dims}')
            continue
        vals = np.asarray(v2.values, dtype='f8')
        same = (vals.shape == want.shape) and bool(np.all((vals == want) | (np.isnan(vals) & np.isnan(want))))
        if not same:
            ctx.oracle_fail('values-changed', desc, f'{name} ({info.dtype}) differs after the round trip')
    # time instants
    tv = np.atleast_1d(ds2[tname].values)      # (a snapshot's time variable has no dimension)
    if tv.dtype.kind == 'M':
        got_inst = [x.astype('datetime64[us]').astype(object) for x in tv]
        got_t = [(g.year, g.month, g.day, g.hour, g.minute, g.second, g.microsecond) for g in got_inst]
    else:
        got_t = [(g.year, g.month, g.day, g.hour, g.minute, g.second, g.microsecond) for g in tv]
    want_t = [(i.year, i.month, i.day, i.hour, i.minute, i.second, 0) for i in instants]
    if got_t != want_t:
        ctx.oracle_fail('time-instant-shifted', desc, f'time instants {want_t[:2]} -> {got_t[:2]} (units {units_in!r} -> {out_units!r})')
    # fill values
    for name, has in sorted(out_fill.items()):
        if has and not src_fill.get(name, False):
            ctx.oracle_fail('fill-value-appeared', desc, f'{name} has a _FillValue attribute in the saved file, the source had none')
        if src_fill.get(name, False) and not has:
            ctx.oracle_fail('fill-value-lost', desc, f'{name} lost its _FillValue attribute')
    if sel:      # round 6 (ranks): the level variables and scalars of the recipe
        items.extend(judge_extras(ctx, rt, sel, full_sizes, ds2, out_fill, desc))
    if sel or rt.get('history'):      # round 6: the fill attributes of the whole history of files, through the model
        items.extend(savehist_items(ctx, rt, built, sel, full_sizes, hist_seen, out_fill, desc))
    ctx.nontrivial(('roundtrip', conv, rt['mode'], units_in, tname))
    return items


def roundtrip_stream(ctx, batch: Batch) -> None:
    tmp = tempfile.mkdtemp(prefix='c17rt')
    items = []
    try:
        n = ctx.budget(15, 120)
        for k in range(n):
            conv = G.CONVS[k % len(G.CONVS)]
            rt = roundtrip_recipe(ctx, conv)
            if k < len(G.CONVS):
                # one plain case per convention first: +10:00, in memory
                rt['case'].update({'off': 600, 'Y': 1990, 'M': 1, 'D': 1, 'h': 0, 'mi': 0, 's': 0, 'period': 'days',
                                   'calendar': 'proleptic_gregorian'})
                rt['case']['sp'].update({'tz': 'colon'})
                rt['tname'] = {'shoc_standard': 't'}.get(conv, 'time')
            try:
                # (guarded: whatever a changed implementation raises or leaves in the file is a verdict, never a crash)
                ctx.guarded(lambda: items.extend(run_roundtrip(ctx, rt, tmp)), {'roundtrip': rt})
            finally:
                for f in os.listdir(tmp):
                    try:
                        os.unlink(os.path.join(tmp, f))
                    except OSError:
                        pass
    finally:
        shutil.rmtree(tmp, ignore_errors=True)
    batch.extend(items)


# --------------------------------------------------------------------------
# >>> round 6 (harness/gen/c17_extra6.py): variables of every rank, rank 0 included; histories of saves
# Two classes of "a dataset saved through the convention's save method" that the round trips above did not contain:
# (1) what is left of a dataset after one layer / one snapshot was selected - the coordinates of the selected
#     dimensions stay as variables WITHOUT dimensions - and variables that never had one; every clause of the property
#     is judged on them through run_roundtrip (rt['selection']), plus the values and fill attributes of the level
#     variables and scalars themselves (judge_extras); the fill decision of every dtype at rank 0 and 2 is also put
#     through to_netcdf_with_fixes directly (fillrank_stream);
# (2) the same plain save, judged after a history of earlier saves of the process that were given keyword arguments of
#     their own (rt['history']): what one save was asked to do must not reach the next.
# Randomness: a stream of its own (rng6), so that the streams above see the numbers they always saw.

def judge_extras(ctx, rt: dict, sel: dict, full_sizes: dict, ds2, out_fill: dict, desc: dict) -> list:
    """values and fill attributes of the level variables / scalars of the recipe in the reopened file, against the
    recipe; returns the model lines (the fill decision of the model has no rank: it is the same at every rank)"""
    items = []
    for name, dims, want, had_fill, kind, fill in X6.extras_truth(sel, full_sizes):
        shape = 'without dimensions' if not dims else f'along {dims}'
        if name not in out_fill or name not in ds2.variables:
            ctx.oracle_fail('variable-lost', desc, f'{name} ({shape}) missing after the round trip')
            continue
        if out_fill[name] and not had_fill:
            ctx.oracle_fail('fill-value-appeared', desc, f'{name} ({kind}, {shape}) has a _FillValue attribute in the saved file, the source had none')
        if had_fill and not out_fill[name]:
            ctx.oracle_fail('fill-value-lost', desc, f'{name} ({kind}, {shape}) lost its _FillValue attribute')
        v2 = ds2[name]
        if tuple(v2.dims) != tuple(dims):
            ctx.oracle_fail('values-changed', desc, f'{name}: dims {dims} -> {v2.dims}')
            continue
        got = np.asarray(v2.values)
        if kind == 'timedelta' and got.dtype.kind != 'm':
            ctx.count('ranks:timedelta-not-decoded-by-xarray(values not compared)')
        elif got.shape != want.shape or not bool(np.all(X6.as_number(got) == X6.as_number(want))):
            ctx.oracle_fail('values-changed', desc, f'{name} ({kind}, {shape}) differs after the round trip: {want.tolist()!r} -> {got.tolist()!r}')
        ctx.count(f"ranks:extra:{kind}:rank{len(dims)}")
        if kind in ('float', 'int'):
            if rt['mode'] == 'file':
                enc, attr = ('value' if had_fill else 'absent'), 0
            else:
                enc, attr = ('value' if fill == 'enc' else 'absent'), int(fill == 'attr')
            line = f'fill {kind} {kind} {enc} {attr}'
            items.append((line, '1' if out_fill[name] else '0', {'op': line, 'variable': name, 'rank': len(dims), 'compare': 'file', **desc}))
    return items


def savehist_items(ctx, rt: dict, built, sel, full_sizes: dict, hist_seen: list, out_fill: dict, desc: dict) -> list:
    """one `savehist` line: the earlier calls of the history (their `encoding=` and the tagged variables of their
    datasets) and the judged plain save (tagged variables, level variables, scalars - each with its rank), all from
    the recipes; against the `_FillValue` attributes found in the files. An earlier call that failed for a reason the
    model does not describe is left out of the line."""
    mode = rt['mode']
    judged = X6.tagged_descs(built.vars, sel)
    if sel:
        judged += [(name, len(dims), kind, fill) for name, dims, _w, _h, kind, fill in X6.extras_truth(sel, full_sizes)
                   if kind in ('float', 'int')]
    if any(name not in out_fill for name, *_ in judged):
        return []       # (a lost variable was reported by the oracle)
    calls, want = [], []
    for call, seen in zip(rt.get('history') or [], hist_seen):
        vars_ = judged if call.get('same') else seen['vars']
        vmode = mode if call.get('same') else 'memory'
        if vars_ is None:
            return []
        kinds = {name: kind for name, _r, kind, _f in vars_}
        if seen['outcome'] == 'ok' and all(name in seen['fills'] for name, *_ in vars_):
            want.append(','.join(f"{name}={int(seen['fills'][name])}" for name, *_ in vars_) or '-')
        elif call['cls'] == 'bad' and seen['outcome'] != 'ok':
            want.append('ERR')
        else:
            ctx.count('history:earlier-call-not-compared:' + str(seen['outcome']))
            continue
        calls.append(f"{X6.enc_token(call, kinds)} " + (','.join(X6.var_token(*v, vmode) for v in vars_) or '-'))
    calls.append('- ' + (','.join(X6.var_token(*v, mode) for v in judged) or '-'))
    want.append(','.join(f'{name}={int(out_fill[name])}' for name, *_ in judged) or '-')
    line = 'savehist ' + ' ; '.join(calls)
    return [(line, ' ; '.join(want), {'op': line, **desc})]


def _rng6(ctx, what: str):
    import random
    return random.Random(f'C17:{ctx.seed}:{int(ctx.searching)}:c17-extra6:{what}')


class _Sub:
    """the part of ctx that roundtrip_recipe uses, on a stream of its own"""
    def __init__(self, rng):
        self.rng = rng


def _run_rts(ctx, batch: Batch, rts: list, prefix: str) -> None:
    tmp = tempfile.mkdtemp(prefix=prefix)
    items = []
    try:
        for rt in rts:
            try:
                # (guarded: whatever a changed implementation raises or leaves in the file is a verdict, never a crash)
                ctx.guarded(lambda: items.extend(run_roundtrip(ctx, rt, tmp)), {'roundtrip': rt})
            finally:
                for f in os.listdir(tmp):
                    try:
                        os.unlink(os.path.join(tmp, f))
                    except OSError:
                        pass
    finally:
        shutil.rmtree(tmp, ignore_errors=True)
    for line, impl, desc in items:
        batch.add(line, impl, desc, pick=(lambda o: o.split(' ')[-1]) if desc.get('compare') == 'file' else None)


def _plain_case(rt: dict, conv: str) -> None:
    """the plainest time variable: +10:00, in memory (as the first round trips of roundtrip_stream)"""
    rt['case'].update({'off': 600, 'Y': 1990, 'M': 1, 'D': 1, 'h': 0, 'mi': 0, 's': 0, 'period': 'days',
                       'calendar': 'proleptic_gregorian'})
    rt['case']['sp'].update({'tz': 'colon'})
    rt['tname'] = {'shoc_standard': 't'}.get(conv, 'time')
    rt['mode'] = 'memory'
    rt.pop('enc_dtype', None)
    rt.pop('fine', None)


def ranks_stream(ctx, batch: Batch) -> None:
    rng = _rng6(ctx, 'ranks')
    sub = _Sub(rng)
    rts = []
    for k in range(ctx.budget(15, 100)):
        conv = G.CONVS[k % len(G.CONVS)]
        rt = roundtrip_recipe(sub, conv)
        first = k < len(G.CONVS)
        if first:
            # smallest case first: the surface layer (index 0 of `k`, an f8 index coordinate) of a dataset in memory
            _plain_case(rt, conv)
        rt['selection'] = X6.random_selection(rng, rt['recipe'].get('sizes_extra', {}), rt['mode'], first=first)
        ctx.count('ranks:select:' + '+'.join(sorted(rt['selection']['select'])) + ':' + rt['selection']['when'])
        rts.append(rt)
    _run_rts(ctx, batch, rts, 'c17rk')


def history_stream(ctx, batch: Batch) -> None:
    rng = _rng6(ctx, 'history')
    sub = _Sub(rng)

    def make_recipe(conv):
        conv = conv or rng.choice(G.CONVS)
        r = G.random_recipe(rng, conv, 'quick')
        r = G.attach_vars(rng, r, n_vars=3, dtypes=('f8', 'f8', 'f4', 'i4'), with_nan=False)
        if conv == 'shoc_simple':
            for vr in r['vars']:
                vr['attrs'] = {'standard_name': 'tag_' + vr['name']}
        return r
    rts = []
    for k in range(ctx.budget(10, 60)):
        conv = G.CONVS[k % len(G.CONVS)]
        rt = roundtrip_recipe(sub, conv)
        first = k < 2
        if first:
            # smallest history first: ONE earlier save, of another dataset of the same convention, that packs a variable
            _plain_case(rt, conv)
        rt['history'] = X6.random_history(rng, rt['recipe'], make_recipe, first=first)
        for call in rt['history']:
            ctx.count(f"history:{call['cls']}:{'same-dataset' if call['same'] else call['via']}")
        ctx.count(f"history:length-{len(rt['history'])}")
        rts.append(rt)
    _run_rts(ctx, batch, rts, 'c17hi')


def fillrank_stream(ctx, batch: Batch) -> None:
    """the fill decision of every writable dtype on a variable without dimensions and on one with two, written through
    the real to_netcdf_with_fixes; `_FillValue` presence read back with netCDF4 (file_fill_stream does rank 1)"""
    import netCDF4
    import xarray as xr
    from emsarray.utils import to_netcdf_with_fixes
    tmp = tempfile.mkdtemp(prefix='c17fr')
    path = os.path.join(tmp, 'fr.nc')
    items = []
    try:
        for key, (dtype, kind, disk) in WRITABLE.items():
            d = np.dtype(dtype)
            for rank in (0, 2):
                for enc in ('absent', 'none', 'value'):
                    for attr in (False, True):
                        if (enc == 'value' and attr) or (kind in ('datetime', 'timedelta', 'str', 'bool') and (attr or enc == 'value')):
                            continue
                        shape = (2, 3)[:rank]
                        n = int(np.prod(shape)) if shape else 1
                        if d.kind == 'M':
                            data = (np.datetime64('2000-01-01', 'ns') + np.arange(n).astype('m8[D]')).astype(d)
                        elif d.kind == 'm':
                            data = (np.arange(n) + 1).astype('m8[D]').astype(d)
                        elif d.kind == 'U':
                            data = np.array(['a', 'b', 'c', 'd', 'e', 'f'][:n], dtype=d)
                        else:
                            data = (np.arange(n) % 2).astype(d)
                        da = xr.DataArray(data.reshape(shape), dims=['y', 'x'][:rank])
                        if enc == 'none':
                            da.encoding['_FillValue'] = None
                        elif enc == 'value':
                            da.encoding['_FillValue'] = d.type(9)
                        if attr:
                            da.attrs['_FillValue'] = d.type(9)
                        line = f'fill {kind} {disk} {enc} {int(attr)}'
                        desc = {'op': line, 'dtype': dtype, 'rank': rank, 'compare': 'file'}

                        def one(da=da, line=line, desc=desc, enc=enc, attr=attr, dtype=dtype, rank=rank):
                            try:
                                to_netcdf_with_fixes(xr.Dataset({'v': da}), path)
                            except (TypeError, ValueError):
                                ctx.count('fill-rank:unwritable')
                                return
                            with netCDF4.Dataset(path) as nc:
                                has = '_FillValue' in nc.variables['v'].ncattrs()
                            ctx.count(f'fill-rank:rank{rank}:written')
                            ctx.evaluated()
                            src_had = attr or enc == 'value'
                            if has and not src_had:
                                ctx.oracle_fail('fill-value-appeared', desc, f'{dtype} variable with {rank} dimensions (_FillValue slot {enc}) '
                                                                             'got a _FillValue attribute the source lacked')
                            if src_had and not has:
                                ctx.oracle_fail('fill-value-lost', desc, f'{dtype} variable with {rank} dimensions lost its _FillValue')
                            items.append((line, '1' if has else '0', desc))
                            ctx.nontrivial(('fill-rank', dtype, rank, enc, attr))
                        ctx.guarded(one, desc)
    finally:
        shutil.rmtree(tmp, ignore_errors=True)
    for line, impl, desc in items:
        batch.add(line, impl, desc, pick=lambda o: o.split(' ')[-1])


def round6_streams(ctx, batch: Batch) -> None:
    fillrank_stream(ctx, batch)
    ranks_stream(ctx, batch)
    history_stream(ctx, batch)
# <<< round 6


# --------------------------------------------------------------------------
# ---- BEGIN cross-check of the source translator (harness/trans_timeunits.py) -------------------------------------
# The terms of Gen/TimeUnitsSrc.lean (format_time_units_for_ems, disable_default_fill_value, time_coordinate,
# fix_time_units_for_ems as translated from the source text) are evaluated by the driver on inputs of the streams
# above and held against what the real functions returned there; the meaning the interpreter gives to Python's
# integer format specs and strftime directives is held against Python itself.

def src_crosscheck(ctx, batch: Batch) -> None:
    rng = ctx.rng
    items = list(batch.items)
    fmt = [it for it in items if it[0].startswith('fmt ') and it[1] is not None]
    chosen = fmt[:60] + (rng.sample(fmt[60:], min(len(fmt) - 60, ctx.budget(140, 1400))) if len(fmt) > 60 else [])
    for line, impl, desc, _pick, _same in chosen:
        batch.add('src' + line, impl, dict(desc, op='src' + line, note='generated program (Gen.tuFormatProg) vs the real function'))
    for line, impl, desc, _pick, _same in items:
        if line.startswith('fill ') and desc.get('compare') == 'slot':
            w = line.split(' ')
            sline = f'srcfill {w[1]} {w[3]} {w[4]}'
            batch.add(sline, impl, dict(desc, op=sline, note='generated decision (Gen.tuFillProg) vs the real function'))
        elif line.startswith('timecoord '):
            batch.add('src' + line, impl, dict(desc, op='src' + line, note='generated search (Gen.tuTimeCoord*) vs the real property'))
        elif line.startswith('fixattrs ') and not line.endswith(' ; '):
            batch.add('src' + line, impl, dict(desc, op='src' + line, note='generated file rewrite (Gen.tuFixSteps) vs the real function'))
    for sg, z, w in [('', 1, 2), ('', 1, 4), ('', 0, 2), ('', 0, 0), ('', 1, 3), ('+', 1, 3), ('+', 0, 0), (' ', 0, 4), (' ', 1, 4)]:
        spec = f"{sg}{'0' if z else ''}{w if w else ''}d"
        for n in [-1439, -210, -10, -4, -1, 0, 1, 5, 9, 10, 59, 60, 99, 100, 123, 990, 999, 1000, 1990, 9999, 10000, 123456]:
            sline = 'srcspec ' + {'': 'm', '+': 'p', ' ': 's'}[sg] + f' {z} {w} {n}'
            batch.add(sline, esc(format(n, spec)), {'op': sline, 'spec': spec})
    for y, mo, d, h, mi, s in [(1, 1, 1, 0, 0, 0), (7, 7, 7, 7, 7, 7), (99, 12, 31, 23, 59, 59), (990, 1, 2, 3, 4, 5),
                               (1000, 10, 10, 10, 10, 10), (1990, 1, 1, 0, 0, 0), (9999, 12, 31, 23, 59, 59)]:
        for dv in 'YmdHMS':
            sline = f'srcstrf {dv} {y} {mo} {d} {h} {mi} {s}'
            batch.add(sline, esc(dt.datetime(y, mo, d, h, mi, s).strftime('%' + dv)), {'op': sline})
# ---- END cross-check of the source translator -----------------------------------------------------------------------


# --------------------------------------------------------------------------

def run(ctx) -> None:
    if ctx.driver is not None:
        # the driver imports Core/Proto.lean, which no theorem module does: make sure it is compiled
        from harness import lean
        lean.build(['EmsModel.Core.Proto'])
    batch = Batch()
    units_stream(ctx, batch)
    offset_stream(ctx, batch)
    fill_stream(ctx, batch)
    fixattrs_stream(ctx, batch)
    timecoord_stream(ctx, batch)
    roundtrip_stream(ctx, batch)
    src_crosscheck(ctx, batch)      # cross-check of the source translator (block above)
    round6_streams(ctx, batch)      # round 6: ranks and histories (block above; after everything else, on its own random stream)
    batch.flush(ctx)


def replay(ctx, data) -> int:
    return util.generic_replay(ctx, data, run_one)


def impl_of_line(line: str) -> str | None:
    op, _, rest = line.partition(' ')
    if op == 'srcfmt':
        op = 'fmt'
    if op in ('fmt', 'fmtpure', 'instant'):
        cal, _, u = rest.partition(' ')
        cal, u = unesc(cal), unesc(u)
        return impl_fmt(cal, u) if op != 'instant' else impl_instant(cal, u)
    if op == 'parse':
        return impl_parse(unesc(rest))
    if op == 'poff':
        return impl_poff(unesc(rest))
    if op == 'split':
        return impl_split(unesc(rest))
    if op == 'decode':
        cal, _, r1 = rest.partition(' ')
        n, _, u = r1.partition(' ')
        return impl_decode(unesc(cal), int(n), unesc(u))
    return None


def run_one(ctx, inp: dict) -> dict:
    """Re-execute one recorded input on the real code and on the model."""
    out = {}
    if 'roundtrip' in inp:
        tmp = tempfile.mkdtemp(prefix='c17rp')
        try:
            class _C:   # collects oracle verdicts of the replayed round trip
                def __init__(self):
                    self.fails = []
                    self.rng = ctx.rng

                def oracle_fail(self, sig, desc, msg):
                    self.fails.append(f'{sig}: {msg}')

                def count(self, *a, **k): pass
                def evaluated(self, *a, **k): pass
                def nontrivial(self, *a, **k): pass
            cc = _C()
            items = run_roundtrip(cc, inp['roundtrip'], tmp)
            out['oracle'] = cc.fails or 'property holds on this round trip'
            if items and ctx.driver:
                out['impl'] = items[0][1]
                out['model'] = ctx.model([items[0][0]])[0]
        finally:
            shutil.rmtree(tmp, ignore_errors=True)
        return out
    if 'cands' in inp:
        tmp = tempfile.mkdtemp(prefix='c17rp')
        try:
            res = timecoord_case(inp['recipe'], inp['cands'], inp.get('tdim', 'time'), tmp)
        finally:
            shutil.rmtree(tmp, ignore_errors=True)
        out['impl'] = f"time_coordinate={res['got']} save={res['saved']}" + (f" ({res['error']})" if res['error'] else '')
        if ctx.driver:
            a, b = ctx.model([f"timecoord {res['tail']}", f"savetime {res['tail']}"])
            out['model'] = f'time_coordinate={a} save={b}'
        return out
    op = inp.get('op')
    if op and op.startswith('fixattrs ') and 'units' in inp and 'calendar' in inp:
        tmp = tempfile.mkdtemp(prefix='c17rp')
        try:
            got, same = impl_fixattrs(tmp, inp['units'], inp['calendar'])
        finally:
            shutil.rmtree(tmp, ignore_errors=True)
        out['impl'] = got
        if same is False:
            out['other-attributes-or-values'] = 'changed'
        if ctx.driver:
            out['model'] = ctx.model([op])[0]
        case = inp.get('case')
        if case:
            out['expected'] = TU.canonical(case) if TU.is_valid(case) else '(outside the quantifier)'
        return out
    if op:
        impl = impl_of_line(op)
        if impl is not None:
            out['impl'] = impl
        if ctx.driver:
            out['model'] = ctx.model([op])[0]
        if op.startswith('fmt') and 'units' in inp:
            case = inp.get('case')
            if case:
                out['expected'] = TU.canonical(case) if TU.is_valid(case) else '(outside the quantifier)'
    return out
