"""C05 — index and point selection return the stored values, complete and in order."""
from __future__ import annotations

import random
from fractions import Fraction

import numpy as np
import pandas
import shapely

from harness import util
from harness.gen import c05_extra as H
from harness.gen import c05_extra6 as X6          # [strengthen-6] structured request lists; datasets sharing a source file
from harness.gen import datasets as G
from harness.gen import geomspec as S
from harness.props.c02 import arr_str, grids_spec, native

ID = 'C05'
MODULE = 'EmsModel.Props.C05'
DRIVER = 'C05'
REQUIRED = ['Ems.C05.select_vars', 'Ems.C05.select_vars_order', 'Ems.C05.select_values', 'Ems.C05.empty_refused',
            'Ems.C05.mixed_kinds_refused', 'Ems.C05.out_of_range_refused', 'Ems.C05.select_result',
            'Ems.C05.policy_error', 'Ems.C05.policy_drop', 'Ems.C05.policy_fill',
            'Ems.C05.lookupPoints_spec', 'Ems.C05.points_error_end_to_end', 'Ems.C05.points_drop_end_to_end']
EXTRA_MODULES = globals().get('EXTRA_MODULES', []) + ['EmsModel.Props.C05More']   # B6
REQUIRED += ['Ems.C05.select_points_compose', 'Ems.C05.policies_agree', 'Ems.C05.select_points_all_hit',
             'Ems.C05.points_select_end_to_end', 'Ems.C05.drop_then_fill_consistent', 'Ems.C05.drop_labels_fit']
EXTRA_MODULES = globals().get('EXTRA_MODULES', []) + ['EmsModel.Props.C05Src']   # B8: harness/trans_selectsrc.py
REQUIRED += ['Ems.C05.selector_src_spec', 'Ems.C05.selector_src_columns', 'Ems.C05.select_indexes_src_spec',
             'Ems.C05.select_indexes_src_keep_geometry', 'Ems.C05.drop_geometry_src_spec', 'Ems.C05.select_index_src_spec',
             'Ems.C05.select_point_src_spec', 'Ems.C05.select_src_no_complaints']
RULE = ('datasets of every convention with tagged variables (floats with missing values, ints without fill, ints with '
        '_FillValue / missing_value) on every grid kind and on no grid, 0-2 extra dimensions, random dimension order. '
        '(a) select_indexes with index lists of length 1-5 with repeats and arbitrary order, mixed kinds, empty list, '
        'custom index dimension names; (b) extract_points with policies error / drop over point lists mixing interior '
        'hits, boundary hits (shared edges and vertices) and misses; (c) extract_dataframe with error / drop / fill. '
        'The hit of every point given to the model is the brute-force lowest-index intersecting cell (GEOS), not '
        'emsarray\'s own lookup. Non-trivial: a request list with a repeat or non-monotone order, or a point list with '
        'at least one miss and one hit; distinct by (recipe, request). (d) 40% of the datasets carry a history: one '
        'selection through a random API, then 1-3 in-place edits of the dataset object (a variable re-assigned with new '
        'values, a variable added on a grid, a variable deleted), made before (a) or between (a) and (b); every '
        'selection after the edit is compared with the model and with the oracle on the dataset as it is at the time of '
        'the call, and with a convention made afresh for the same content. The list of points goes through '
        'extract_points or Convention.select_points. (e) 60% of the datasets (chosen by the content of the recipe, '
        'independent of (d)) are asked 2-5 read-only questions through the same long-lived convention before the index '
        'selections, between index and point selections, or both: wind_index / unravel_index of one, two or all '
        'positions of ANY grid of the dataset (named, or left out for the default grid), ravel_index, grid_shape / '
        'grid_size, get_grid_kind, ravel + wind of a variable, select_index / selector_for_index on any grid. The '
        'answers are not judged; every selection after them is judged as on a dataset nobody asked anything of: '
        'select_point, extract_points / select_points and extract_dataframe return exactly the face variables with the '
        'stored values of the brute-force cell of each point, row by row.')
# ---- [strengthen-6] -------------------------------------------------------------------------------------------------
EXTRA_MODULES = globals().get('EXTRA_MODULES', []) + ['EmsModel.Props.C05Runs']
REQUIRED += ['Ems.C05.select_entry_local', 'Ems.C05.repeated_request_same_entry', 'Ems.C05.entry_eq_single_request']
RULE += (' (f) every grid kind of every dataset is also asked for 3 structured index lists, and the face grid for 2 tracks '
         'of points through select_points / extract_points / extract_dataframe (gen/c05_extra6.py; a function of the recipe '
         'alone, no draw from the random stream): a run of consecutive cells, the run backwards, a stride, a track that '
         'lingers in a cell and skips the next one (either way round), a run with one entry copied from its neighbour / '
         'swapped / dropped / doubled, one cell n times, a walk that turns round; tracks carry a point inside each '
         'visited cell and sometimes a miss.  A few more datasets are long in one direction (meshes of up to ~40 faces, '
         'axes of up to 9 cells).  (g) file histories: a dataset is written to a netCDF file and opened from it '
         '(encoding[source] set; loaded or left lazy), asked something (a point selection, polygons, strtree, or the '
         'whole examination); then the dataset under test is made: the opened one with one or both grid axes reversed by '
         'isel (same source, same size, other arrangement; ground truth = the polygons permuted the same way), or the '
         'same path written again with a dataset of the same convention and size elsewhere / in another arrangement '
         '(axis reversed, shifted, lat and lon exchanged, lattice origin moved or shear negated, faces renumbered, nodes '
         'moved) and opened again, or the same file opened twice, or the rearranged dataset from another file (controls); '
         'it is examined in full (a)-(c), (f) against its OWN ground truth, and the earlier dataset once more after it.')
# ---- [/strengthen-6] ------------------------------------------------------------------------------------------------
TRUSTED = ['xarray vectorised isel, Dataset.merge(join=inner/outer), pandas DataFrame.to_xarray']
ASSUMPTIONS = ['only data variables are compared; coordinate variables of the result are xarray bookkeeping',
               'a drop/fill request in which no point hits is refused by the code (nothing to select); modelled as an error']


def ds_args(built, var_names=None) -> tuple[str, str]:
    """(`geometry,` list, `name=arr …`) for the data variables of the dataset"""
    parts = []
    for name, da in built.ds.data_vars.items():
        if name in built.vars:
            parts.append(f'{name}={arr_str(da)}')
        else:
            dims = ','.join(f'{d}:{s}' for d, s in zip(da.dims, da.shape)) or '-'
            n = int(np.prod(da.shape)) if da.shape else 1
            parts.append(f"{name}={dims}|{','.join(['0'] * n)}")
    geom = [str(n) for n in built.extra.get('geom_names', [])]
    if built.conv == 'ugrid':
        geom = [n for n in built.ds.variables if str(n).startswith('Mesh2')]
    return ','.join(geom) or '-', ' '.join(parts)


def result_str(res, idim, labels=True) -> str:
    parts = []
    for name, da in res.data_vars.items():
        if idim in da.dims:
            da = da.transpose(idim, ...)
        parts.append(f'{name}={arr_str(da)}')
    body = ' '.join(parts) if parts else '(none)'
    if labels:
        lab = ','.join(str(int(v)) for v in res[idim].values) if idim in res.coords else '?'
        return f'labels={lab or "-"} {body}'
    return body


def truth_hits(built, kept, pts):
    polys = [None if q is None else shapely.Polygon([(float(a), float(b)) for a, b in q]) for q in kept]
    out = []
    gshape = built.grids['face'][1]
    for (x, y) in pts:
        p = shapely.Point(float(x), float(y))
        hit = [k for k, poly in enumerate(polys) if poly is not None and poly.intersects(p)]
        if hit:
            comps = [int(v) for v in np.unravel_index(min(hit), gshape)]
            out.append('face:' + ','.join(map(str, comps)))
        else:
            out.append('-')
    return out


def examine(ctx, recipe, items) -> None:
    """One dataset object, one bound convention, and the whole sequence of calls of the check made on it.
    With a `history` in the recipe the dataset is edited in place part-way through (gen/c05_extra.py): every
    selection after the edit is judged against the dataset as it is when the call is made."""
    if recipe.get('file_history'):          # [strengthen-6] several datasets that share a source file
        return examine_file_history(ctx, recipe, items)
    built = G.build(recipe)
    c = G.bind(built)
    hist = recipe.get('history')
    if hist:
        warmed = H.warm_up(built, c, hist['warm'], native)
        ops = '+'.join(e['op'] for e in hist['edits'])
        ctx.count(f"history:{hist['at']}:warm={'no' if hist['warm'] == 'none' else 'yes'}:{ops}")
        if warmed == 'done' or hist['at'] == 'mid':
            ctx.nontrivial((str(recipe), 'history'))
        if hist['at'] == 'start':
            H.apply_edits(built, hist)
            same_as_fresh(ctx, recipe, built, c)
    asks = recipe.get('queries')
    if asks:
        ctx.count(f"questions:{asks['at']}")
        ctx.nontrivial((str(recipe), 'questions'))
        if asks['at'] in ('start', 'both'):
            built.extra.setdefault('asked', []).extend(H.ask(built, c, asks, 'start'))
    examine_indexes(ctx, recipe, built, c, items)
    if hist and hist['at'] == 'mid':
        H.apply_edits(built, hist)
        same_as_fresh(ctx, recipe, built, c)
    if asks and asks['at'] in ('mid', 'both'):
        built.extra.setdefault('asked', []).extend(H.ask(built, c, asks, 'mid'))
    examine_points(ctx, recipe, built, c, items)


# ---- [strengthen-6] -------------------------------------------------------------------------------------------------
def examine_file_history(ctx, recipe, items) -> None:
    """Datasets that share a source file, in one process (gen/c05_extra6.py): the earlier dataset is opened from the
    file and used; the dataset under test - derived from it, or opened from the same path after the file was written
    again - is then examined in full against its own ground truth; the earlier one once more after it.
    The requests are drawn from a stream that is a function of the recipe (the stream of the check is left alone,
    and a replay plays the same calls)."""
    fh = recipe['file_history']
    keep = ctx.rng
    ctx.rng = X6.recipe_rng(recipe, 'c05-file:')
    try:
        with X6.Workdir() as wd:
            path = wd.path('model.nc')
            first = wd.write_and_open(recipe, path, fh['lazy'])
            c0 = G.bind(first)
            ctx.count(f"file-history:{fh['kind']}:{fh['how']}")
            ctx.count(f"file-history:first-asked:{fh['touch']}")
            if fh['touch'] == 'examine':
                examine_points(ctx, recipe, first, c0, items)
            else:
                first.extra['asked'] = [f"{fh['touch']} on the dataset first opened from the file: "
                                        + X6.touch(first, c0, fh['touch'])]
            second = X6.later_stage(wd, recipe, first, path)
            second.extra['asked'] = [f"an earlier dataset of the same source file was asked {fh['touch']}; this one is "
                                     f"{fh['kind']} ({fh['how']})"]
            c1 = G.bind(second)
            examine_indexes(ctx, recipe, second, c1, items)
            examine_points(ctx, recipe, second, c1, items)
            ctx.nontrivial((str(recipe), 'file-history'))
            if fh['back']:
                first.extra['asked'] = [f"a later dataset of the same source file ({fh['kind']}, {fh['how']}) was examined in between"]
                examine_points(ctx, recipe, first, c0, items)
    finally:
        ctx.rng = keep
# ---- [/strengthen-6] ------------------------------------------------------------------------------------------------


def after(built) -> str:
    """for messages: the questions the convention was asked before this selection"""
    asked = built.extra.get('asked')
    return f' (asked before, on the same convention: {"; ".join(asked)[:400]})' if asked else ''


def judge_rows(ctx, built, res, pdim, rows, hits, desc, api) -> None:
    """Direct oracle for a list / table of points: `res` has one entry along `pdim` per original position in `rows`
    (in that order); it holds exactly the variables of the face grid, and entry k of each is the stored slice of the
    brute-force cell of point rows[k], every other dimension intact.  Rows that miss (policy fill) are judged by the
    caller."""
    ds = built.ds
    gd = built.grids['face'][0]
    face_vars = [nm for nm, info in built.vars.items() if info.kind == 'face']
    got_vars = [str(v) for v in res.data_vars]
    ctx.evaluated()
    if sorted(got_vars) != sorted(face_vars):
        ctx.oracle_fail('extract-wrong-variables', {**desc, 'api': api},
                        f'{api} returned variables {got_vars}, expected exactly those on the face grid: {face_vars}' + after(built))
        return
    for nm in face_vars:
        da = ds[nm]
        got_da = res[nm]
        if pdim not in got_da.dims or got_da.sizes[pdim] != len(rows):
            ctx.oracle_fail('extract-wrong-rows', {**desc, 'api': api, 'var': nm},
                            f'{api}: {nm} has dims {dict(got_da.sizes)}, expected {len(rows)} entries along {pdim}' + after(built))
            continue
        other = [d for d in da.dims if d not in gd]
        for k, r in enumerate(rows):
            if hits[r] == '-':
                continue
            cc = [int(v) for v in hits[r].split(':')[1].split(',')]
            want = da.isel(dict(zip(gd, cc)))
            got = got_da.isel({pdim: k})
            if set(got.dims) != set(other):
                ctx.oracle_fail('extract-other-dimensions-changed', {**desc, 'api': api, 'var': nm},
                                f'{api}: row {k} of {nm} has dims {got.dims}, the stored slice has {want.dims}' + after(built))
                break
            w, g = util.as_num(want.values), util.as_num(got.transpose(*other).values)
            if w.shape != g.shape or not np.array_equal(w, g, equal_nan=True):
                ctx.oracle_fail('extract-wrong-values', {**desc, 'api': api, 'var': nm, 'row': k},
                                f'{api}: row {k} (point {r}) of {nm} is {g.tolist()}, cell {cc} stores {w.tolist()}' + after(built))
                break


def same_as_fresh(ctx, recipe, built, c) -> None:
    """Direct oracle for histories: "the values stored" are those of the dataset at the time of the call, so a
    selection made through the long-lived convention of an edited dataset is the selection a convention made
    just now for the same content gives (same variables, same order, same values, same types)."""
    fresh = built.conv_class(built.ds.copy())
    for kind, (_gdims, gshape) in built.grids.items():
        if any(s == 0 for s in gshape):
            continue
        comps = [[s - 1 for s in gshape], [0] * len(gshape)]
        outcome = []
        for conv in (c, fresh):
            try:
                outcome.append(conv.select_indexes([native(built, conv, kind, cc) for cc in comps]))
            except Exception as e:  # noqa: BLE001
                outcome.append(type(e).__name__)
        ctx.evaluated()
        mine, ref = outcome
        if isinstance(mine, str) or isinstance(ref, str):
            same = isinstance(mine, str) and isinstance(ref, str)
        else:
            same = list(mine.data_vars) == list(ref.data_vars) and mine.identical(ref)
        if not same:
            def show(o):
                return o if isinstance(o, str) else result_str(o, 'index', labels=False)[:300]
            ctx.oracle_fail('selection-ignores-in-place-edit',
                            {'recipe': recipe, 'kind': kind, 'indexes': comps},
                            f'after the in-place edits {[e["op"] + ":" + (e.get("name") or e["var"]["name"]) for e in recipe["history"]["edits"]]} '
                            f'select_indexes({kind}, {comps}) gives {show(mine)}; a convention made now for the same '
                            f'dataset gives {show(ref)}')


def unused_name(ds, prefix: str) -> str:
    """the default name of a new dimension: `prefix`, or the first free `prefix_k`"""
    if prefix not in ds.dims:
        return prefix
    k = 0
    while f'{prefix}_{k}' in ds.dims:
        k += 1
    return f'{prefix}_{k}'


def examine_indexes(ctx, recipe, built, c, items) -> None:
    rng = ctx.rng
    ds = built.ds
    gs = grids_spec(built)
    geom, dsvars = ds_args(built)
    # ---- (a) select_indexes ----------------------------------------------------
    for kind, (gdims, gshape) in built.grids.items():
        size = int(np.prod(gshape))
        if size == 0:
            continue
        # [strengthen-6] rounds 2.. are the structured lists of the recipe (gen/c05_extra6.py), handled exactly like the
        # random ones; whatever they draw comes from their own stream
        walk_rng, walks = X6.walks_for(recipe, kind, size)
        for round_ in range(2 + len(walks)):
            rng = ctx.rng if round_ < 2 else walk_rng
            n = rng.randint(1, 5)
            lin = [rng.randrange(size) for _ in range(n)]
            if rng.random() < 0.4 and n > 1:
                lin[rng.randrange(n)] = lin[0]           # a repeat
            if round_ >= 2:
                shape, lin = walks[round_ - 2]
                n = len(lin)
                ctx.count(f'select:structured:{shape}')
            comps = [[int(v) for v in np.unravel_index(k, gshape)] for k in lin]
            idim = rng.choice(['index', 'index', 'pt', 'sample'])
            idx_s = ';'.join(f"{kind}:{','.join(map(str, cc))}" for cc in comps)
            line = f'select {gs} {geom} {idim} {idx_s} {dsvars}'
            # every other request for the usual name leaves the argument out: the new dimension is then the first
            # of index, index_0, index_1 ... the dataset does not use (chosen without touching the random stream)
            default_arg = idim == 'index' and (n + lin[0]) % 2 == 0
            if default_arg:
                idim = unused_name(ds, 'index')
                line = f'select {gs} {geom} {idim} {idx_s} {dsvars}'
                ctx.count('select:index-dimension-left-out')
            try:
                if default_arg:
                    res = c.select_indexes([native(built, c, kind, cc) for cc in comps])
                else:
                    res = c.select_indexes([native(built, c, kind, cc) for cc in comps], index_dimension=idim)
                out = result_str(res, idim, labels=False)
            except Exception as e:
                res, out = None, 'ERR'
            items.append((line, out, {'recipe': recipe, 'op': line}))
            if len(set(lin)) < len(lin) or lin != sorted(lin):
                ctx.nontrivial((str(recipe), kind, tuple(lin)))
            ctx.count(f'select:{built.conv}:{kind}')
            # oracle: every kept variable holds, at entry k, the stored slice at request k
            expected_vars = [nm for nm, info in built.vars.items() if info.kind == kind]
            if res is None:
                # xarray refuses to index a dimension no remaining variable has: only an error
                # when some variable IS defined on this grid
                if expected_vars:
                    ctx.oracle_fail('select-indexes-raised', {'recipe': recipe, 'kind': kind, 'indexes': comps}, 'select_indexes raised on valid indexes')
                continue
            got_vars = [str(v) for v in res.data_vars]
            if sorted(got_vars) != sorted(expected_vars):
                ctx.oracle_fail('select-wrong-variables', {'recipe': recipe, 'kind': kind},
                                f'variables {got_vars}, expected those on grid {kind}: {expected_vars}')
            for nm in expected_vars:
                if nm not in res:
                    continue
                da = ds[nm]
                # bit-for-bit: the selected values are the stored ones, in their stored type
                if res[nm].dtype != da.dtype:
                    ctx.oracle_fail('select-storage-type-changed', {'recipe': recipe, 'kind': kind, 'indexes': comps, 'var': nm},
                                    f'{nm} is stored as {da.dtype}, the selection holds {res[nm].dtype}')
                for k, cc in enumerate(comps):
                    want = util.as_num(da.isel(dict(zip(gdims, cc))).values)
                    got = util.as_num(res[nm].isel({idim: k}).transpose(*[d for d in da.dims if d not in gdims]).values)
                    if want.shape != got.shape or not np.array_equal(want, got, equal_nan=True):
                        ctx.oracle_fail('select-wrong-values', {'recipe': recipe, 'kind': kind, 'indexes': comps, 'var': nm, 'entry': k},
                                        f'entry {k} of {nm} is {got.tolist()}, stored value at {cc} is {want.tolist()}')
                        break
    rng = ctx.rng          # [strengthen-6] (back to the stream of the check)
    # ---- single index / single point: only the index dimension goes away ----------------------------
    for kind, (gdims, gshape) in built.grids.items():
        size = int(np.prod(gshape))
        kvars = [nm for nm, info in built.vars.items() if info.kind == kind]
        if size == 0 or not kvars:
            continue
        n = rng.randrange(size)
        cc = [int(v) for v in np.unravel_index(n, gshape)]
        sel = ','.join(f'{d}={i}' for d, i in zip(gdims, cc))
        try:
            one = c.select_index(native(built, c, kind, cc))
        except Exception:
            one = None
        for nm in kvars:
            line = f'isel {arr_str(ds[nm])} {sel}'
            out = 'ERR' if one is None else ('ABSENT' if nm not in one else arr_str(one[nm]))
            items.append((line, out, {'recipe': recipe, 'op': line, 'var': nm}))
            if one is not None and nm in one:
                want = ds[nm].isel(dict(zip(gdims, cc)))
                if one[nm].dtype != want.dtype:
                    ctx.oracle_fail('select-storage-type-changed', {'recipe': recipe, 'kind': kind, 'index': cc, 'var': nm},
                                    f'{nm} is stored as {want.dtype}, select_index gives {one[nm].dtype}')
                if tuple(one[nm].dims) != tuple(want.dims) or not np.array_equal(
                        util.as_num(one[nm].values), util.as_num(want.values), equal_nan=True):
                    ctx.oracle_fail('select-index-other-dimensions-changed', {'recipe': recipe, 'kind': kind, 'index': cc, 'var': nm},
                                    f'select_index({cc})[{nm}] has dims {one[nm].dims}, the stored slice has {want.dims}')
        ctx.nontrivial((str(recipe), kind, 'single', n))
    # refusals: empty list, mixed kinds
    line = f'select {gs} {geom} index - {dsvars}'
    try:
        c.select_indexes([])
        out = 'accepted'
        ctx.oracle_fail('select-empty-accepted', {'recipe': recipe}, 'select_indexes([]) did not raise')
    except Exception:
        out = 'ERR'
    items.append((line, out, {'recipe': recipe, 'op': line}))
    if len(built.grids) > 1:
        ks = list(built.grids)[:2]
        idx = [(k, [0] * len(built.grids[k][1])) for k in ks]
        idx_s = ';'.join(f"{k}:{','.join(map(str, cc))}" for k, cc in idx)
        line = f'select {gs} {geom} index {idx_s} {dsvars}'
        try:
            c.select_indexes([native(built, c, k, cc) for k, cc in idx])
            out = 'accepted'
            ctx.oracle_fail('select-mixed-kinds-accepted', {'recipe': recipe}, 'select_indexes accepted indexes of two grid kinds')
        except Exception:
            out = 'ERR'
        items.append((line, out, {'recipe': recipe, 'op': line}))


def examine_points(ctx, recipe, built, c, items) -> None:
    from emsarray.operations import point_extraction
    rng = ctx.rng
    ds = built.ds
    gs = grids_spec(built)
    geom, dsvars = ds_args(built)
    # ---- (b), (c) points ----------------------------------------------------------
    raw = built.polys
    vbits = S.geos_valid_bits(raw)
    kept = [q if (q is not None and vbits[n] == '1') else None for n, q in enumerate(raw)]
    cells = [q for q in kept if q is not None]
    if not cells:
        return
    xs = [p[0] for q in cells for p in q]
    ys = [p[1] for q in cells for p in q]
    # [strengthen-6] rounds 2.. are the tracks of the recipe (gen/c05_extra6.py: a point inside each cell of a structured
    # walk over the cells), handled exactly like the random lists; whatever they draw comes from their own stream
    track_rng, tracks = X6.tracks_for(recipe, kept)
    for round_ in range(2 + len(tracks)):
        rng = ctx.rng if round_ < 2 else track_rng
        pts = []
        for _ in range(rng.randint(2, 6) if round_ < 2 else 0):
            r = rng.random()
            q = rng.choice(cells)
            if r < 0.35 and len(q) == 4:
                pts.append((sum(p[0] for p in q) / 4, sum(p[1] for p in q) / 4))           # interior
            elif r < 0.5:
                pts.append(q[rng.randrange(len(q))])                                       # vertex
            elif r < 0.65:
                i = rng.randrange(len(q))
                a, b = q[i], q[(i + 1) % len(q)]
                pts.append(((a[0] + b[0]) / 2, (a[1] + b[1]) / 2))                         # edge midpoint
            else:
                pts.append((max(xs) + rng.randint(1, 50), max(ys) + rng.randint(1, 50)))   # miss
        pts = [(Fraction(x), Fraction(y)) for x, y in pts]
        # near-duplicates: a second point a hair (2^-30) away from a previous one, possibly on the other
        # side of a cell edge or of the model boundary — two different points are two requests
        eps = Fraction(1, 2 ** 30)
        more = []
        for (x, y) in pts:
            more.append((x, y))
            if rng.random() < 0.35:
                more.append((x + rng.choice([-1, 1]) * eps, y + rng.choice([-1, 0, 1]) * eps))
        pts = more
        if round_ >= 2:
            pts = tracks[round_ - 2]
            ctx.count('extract:track')
        pts = [p for p in pts if Fraction(float(p[0])) == p[0] and Fraction(float(p[1])) == p[1]]
        if not pts:
            continue
        hits = truth_hits(built, kept, pts)
        n_hit = sum(h != '-' for h in hits)
        spts = [shapely.Point(float(x), float(y)) for x, y in pts]
        pdim = rng.choice(['point', 'point', 'station'])
        hit_s = ';'.join(hits)
        desc = {'recipe': recipe, 'points': [[str(x), str(y)] for x, y in pts], 'hits': hits}
        if 0 < n_hit < len(hits):
            ctx.nontrivial((str(recipe), hit_s))
        # select_point = select_index of the lowest-index intersecting cell; a miss is refused
        for (x, y), h in list(zip(pts, hits))[:2]:
            ctx.evaluated()
            try:
                sp = c.select_point(shapely.Point(float(x), float(y)))
            except ValueError:
                sp = None
            except Exception as e:
                sp = e
            if h == '-':
                if sp is not None:
                    ctx.oracle_fail('select-point-accepts-miss', {**desc, 'point': [str(x), str(y)]}, 'select_point returned data for a point outside every cell')
            elif sp is None or isinstance(sp, Exception):
                if any(info.kind == 'face' for info in built.vars.values()):
                    ctx.oracle_fail('select-point-raised', {**desc, 'point': [str(x), str(y)]}, f'select_point raised for a point inside cell {h}' + after(built))
            else:
                cc = [int(v) for v in h.split(':')[1].split(',')]
                gd = built.grids['face'][0]
                face_vars = sorted(nm for nm, info in built.vars.items() if info.kind == 'face')
                if sorted(str(v) for v in sp.data_vars) != face_vars:
                    ctx.oracle_fail('select-point-wrong-variables', {**desc, 'point': [str(x), str(y)]},
                                    f'select_point in cell {h} returned variables {sorted(str(v) for v in sp.data_vars)}, '
                                    f'expected exactly those on the face grid: {face_vars}' + after(built))
                for nm, info in built.vars.items():
                    if info.kind == 'face' and nm in sp:
                        want = ds[nm].isel(dict(zip(gd, cc)))
                        if tuple(sp[nm].dims) != tuple(want.dims) or not np.array_equal(
                                util.as_num(sp[nm].values), util.as_num(want.values), equal_nan=True):
                            ctx.oracle_fail('select-point-wrong-values', {**desc, 'point': [str(x), str(y)], 'var': nm},
                                            f'select_point gives {np.asarray(sp[nm].values).tolist()} (dims {sp[nm].dims}), cell {cc} stores {np.asarray(want.values).tolist()} (dims {want.dims})' + after(built))
        via_convention = rng.random() < 0.4          # the list of points through Convention.select_points
        # the point dimension left to its default (the first unused of point, point_0, ...) on every other such case
        default_pdim = pdim == 'point' and (len(spts) + n_hit) % 2 == 0
        if default_pdim:
            pdim = unused_name(ds, 'point')
            ctx.count('extract:point-dimension-left-out')
        api = 'Convention.select_points' if via_convention else 'extract_points'
        for policy in ('error', 'drop'):
            line = f'extract {gs} {geom} {pdim} {policy} {hit_s} {dsvars}'
            try:
                if via_convention and default_pdim:
                    res = c.select_points(spts, missing_points=policy)
                elif via_convention:
                    res = c.select_points(spts, point_dimension=pdim, missing_points=policy)
                elif default_pdim:
                    res = point_extraction.extract_points(ds, spts, missing_points=policy)
                else:
                    res = point_extraction.extract_points(ds, spts, point_dimension=pdim, missing_points=policy)
                out = result_str(res, pdim)
            except point_extraction.NonIntersectingPoints as e:
                res = e
                out = f"ERR:missing[{','.join(str(int(i)) for i in e.indexes) or '-'}]"
            except Exception as e:
                res, out = None, 'ERR'
            items.append((line, out, {**desc, 'op': line, 'policy': policy}))
            ctx.count(f'extract:{policy}:hits={min(n_hit, 2)}:misses={min(len(hits) - n_hit, 2)}')
            # oracle
            missing = [i for i, h in enumerate(hits) if h == '-']
            if policy == 'error':
                if missing:
                    if not isinstance(res, point_extraction.NonIntersectingPoints) or [int(i) for i in res.indexes] != missing:
                        ctx.oracle_fail('policy-error-wrong-points', {**desc, 'policy': policy}, f'points {missing} miss the model; outcome was {out[:80]}')
                elif not hasattr(res, 'data_vars'):
                    if any(info.kind == 'face' for info in built.vars.values()):
                        ctx.oracle_fail('policy-error-raised-without-miss', {**desc, 'policy': policy}, f'every point hits but outcome was {out[:80]}' + after(built))
                else:
                    judge_rows(ctx, built, res, pdim, list(range(len(hits))), hits, {**desc, 'policy': policy}, api)
            elif n_hit > 0 and any(info.kind == 'face' for info in built.vars.values()):
                if not hasattr(res, 'data_vars'):
                    ctx.oracle_fail('policy-drop-raised', {**desc, 'policy': policy}, f'drop policy raised: {out[:80]}' + after(built))
                else:
                    want = [i for i, h in enumerate(hits) if h != '-']
                    try:
                        labels = [int(v) for v in res[pdim].values]
                    except Exception:  # noqa: BLE001
                        labels = None
                    if labels != want:
                        ctx.oracle_fail('policy-drop-wrong-labels', {**desc, 'policy': policy}, f'labels {labels}, expected original positions {want}')
                    judge_rows(ctx, built, res, pdim, want, hits, {**desc, 'policy': policy}, api)
        # dataframe
        df = pandas.DataFrame({'name': [f'p{i}' for i in range(len(pts))],
                               'lon': [float(x) for x, _ in pts], 'lat': [float(y) for _, y in pts]})
        for policy in ('drop', 'fill', 'error'):
            if policy == 'fill':
                line = f'extractfill {gs} {geom} point {hit_s} {dsvars}'
            else:
                line = f'extract {gs} {geom} point {policy} {hit_s} {dsvars}'
            try:
                res = point_extraction.extract_dataframe(ds, df, ('lon', 'lat'), missing_points=policy)
                names_col = [str(v) for v in res['name'].values]
                res2 = res.drop_vars([v for v in ('name', 'lon', 'lat') if v in res.variables])
                out = result_str(res2, 'point')
            except point_extraction.NonIntersectingPoints as e:
                res = e
                out = f"ERR:missing[{','.join(str(int(i)) for i in e.indexes) or '-'}]"
            except Exception as e:
                res, out = None, 'ERR'
            items.append((line, out, {**desc, 'op': line, 'policy': 'df-' + policy}))
            if res is None and policy == 'fill' and n_hit > 0 and any(info.kind == 'face' for info in built.vars.values()):
                # 'fill' keeps every row whatever the storage types of the variables; it has nothing to refuse
                ctx.oracle_fail('policy-fill-raised', {**desc, 'policy': policy},
                                f'extract_dataframe(missing_points="fill") raised with {n_hit} of {len(pts)} points inside the model')
            if hasattr(res, 'data_vars'):
                want = list(range(len(pts))) if policy == 'fill' else [i for i, h in enumerate(hits) if h != '-']
                if names_col != [f'p{i}' for i in want]:
                    ctx.oracle_fail('dataframe-columns-not-carried', {**desc, 'policy': policy}, f'name column {names_col}, expected rows {want}')
                if any(info.kind == 'face' for info in built.vars.values()):
                    judge_rows(ctx, built, res2, 'point', want, hits, {**desc, 'policy': 'df-' + policy}, 'extract_dataframe')
                if policy == 'fill':
                    for nm in res2.data_vars:
                        for i, h in enumerate(hits):
                            if h == '-':
                                vals = util.as_num(res2[nm].isel(point=i).values)
                                if not np.all(np.isnan(vals)):
                                    ctx.oracle_fail('policy-fill-miss-has-data', {**desc, 'policy': policy, 'var': str(nm)}, f'row {i} is a miss but holds {vals.tolist()}')
                                    break


def make_recipe(ctx, k):
    rng = ctx.rng
    conv = G.CONVS[k % len(G.CONVS)]
    kw = {'max_w': 2, 'max_h': 2, 'coords_as': 'vars'} if conv == 'ugrid' else {'max_n': 4}
    recipe = G.random_recipe(rng, conv, ctx.tier, vary=True, **kw)
    if rng.random() < 0.25:
        recipe['vary'] = {'chunk': rng.choice([1, 2])}     # lazily evaluated (dask-backed) data
    recipe = G.attach_vars(rng, recipe, n_vars=3, max_extra=2, with_nan=True,
                           dtypes=('f8', 'f8', 'f4', 'i4', 'i8', 'u4', 'i4fill', 'i4missing', 'M8', 'm8'))
    if rng.random() < 0.4:
        # a history of calls on the one dataset object: select, edit the dataset in place, select again
        recipe['history'] = H.random_history(rng, recipe)
    # read-only questions asked of the long-lived convention between the selections (no draw from the random stream)
    asks = H.derive_queries(recipe)
    if asks:
        recipe['queries'] = asks
    return recipe


def run(ctx) -> None:
    items: list = []
    for k in range(ctx.budget(25, 200)):
        recipe = make_recipe(ctx, k)
        ctx.guarded(lambda: examine(ctx, recipe, items), {'recipe': recipe})
    # ---- [strengthen-6] file histories and grids that are long in one direction, from a stream of their own -----------
    rng6 = random.Random(f'{ctx.seed}:{int(ctx.searching)}:c05-extra6')
    for k in range(ctx.budget(10, 60)):
        recipe = X6.random_file_recipe(rng6, k, ctx.tier)
        ctx.guarded(lambda: examine(ctx, recipe, items), {'recipe': recipe})
    for k in range(ctx.budget(8, 48)):
        recipe = X6.random_long_recipe(rng6, k, ctx.tier)
        ctx.count(f"long-grid:{recipe['conv']}")
        keep, ctx.rng = ctx.rng, X6.recipe_rng(recipe, 'c05-long:')
        try:
            ctx.guarded(lambda: examine(ctx, recipe, items), {'recipe': recipe})
        finally:
            ctx.rng = keep
    # ---- [/strengthen-6] -----------------------------------------------------------------------------------------------
    # ---- [B8 selectsrc] the programs generated from the source text (harness/trans_selectsrc.py -> Gen/SelectSrc.lean), run by
    # the driver op `selectsrc` on the requests of the first 150 `select` lines, must answer as emsarray did ----------------
    items += [('selectsrc' + line[len('select'):], out, {**meta, 'op': 'selectsrc' + line[len('select'):]})
              for line, out, meta in items if line.startswith('select ')][:150]
    # ---- [/B8 selectsrc] -----------------------------------------------------------------------------------------------
    if ctx.searching and ctx.driver is None:
        ctx.evaluated(len(items))
        return
    ctx.check_batch(items)


def run_one(ctx, inp):
    out = {}
    if inp.get('op') and ctx.driver:
        out['model'] = ctx.model([inp['op']])[0]
    if inp.get('recipe'):
        # the whole sequence of calls of the check on this dataset (its history included), a few request streams
        found: dict = {}
        for k in range(4):
            sub = type(ctx)(ctx.prop, ctx.tier, ctx.seed + k)
            sub.known = []
            items: list = []
            sub.guarded(lambda: examine(sub, inp['recipe'], items), {'recipe': inp['recipe']})
            for f in sub.oracle_failures:
                found.setdefault(f['signature'], f['message'][:300])
            for d in sub.disagreements:
                found.setdefault('harness-case', d['impl'][:300])
        out['oracle on the current code'] = found or 'no failure'
    return out


def replay(ctx, data) -> int:
    return util.generic_replay(ctx, data, run_one)
