"""C07 — clip masks = intersecting cells + buffer rings (+ their edges and nodes, renumbered in order)."""
from __future__ import annotations

import concurrent.futures
import itertools
import warnings

import numpy as np
import shapely

from harness import util
from harness.gen import c07_extra as X
from harness.gen import clipgeoms as CG
from harness.gen import datasets as G

warnings.simplefilter('ignore')

ID = 'C07'
MODULE = 'EmsModel.Props.C07'
DRIVER = 'C07'
EXTRA_MODULES = ['EmsModel.Props.C07Src']   # theorems about the terms generated from the source text of conventions/ugrid.py (harness/trans_ugridsrc.py)
REQUIRED = [
    'Ems.C07.blur_shape', 'Ems.C07.blur_spec', 'Ems.C07.blur_extensive', 'Ems.C07.blur_mono_size',
    'Ems.C07.blur_mono_input', 'Ems.C07.smear_shape', 'Ems.C07.smear_spec',
    'Ems.C07.cmask_left', 'Ems.C07.cmask_back', 'Ems.C07.cmask_node',
    'Ems.C07.grid_mask_spec', 'Ems.C07.grid_mask_order_irrelevant',
    'Ems.C07.buffer_faces_spec', 'Ems.C07.buffer_iter', 'Ems.C07.mesh_mask_spec',
    'Ems.C07.renumber_spec', 'Ems.C07.mask_monotone_grid', 'Ems.C07.mask_monotone_mesh',
    'Ems.C07.blur_zero', 'Ems.C07.blur_blur', 'Ems.C07.blur_refusals', 'Ems.C07.cmask_shapes',
    'Ems.C07.grid_mask_eq_blur', 'Ems.C07.arakawa_mask_spec', 'Ems.C07.mask_monotone_arakawa',
    'Ems.C07.buffer_faces_sorted', 'Ems.C07.kept_faces_spec', 'Ems.C07.kept_faces_sorted',
    'Ems.C07.renumber_contiguous', 'Ems.C07.clip_mask_contiguous', 'Ems.C07.renumber_order_irrelevant',
    'Ems.C07.hit_order_numbering_violates',
    # c_mask_from_centres / smear_mask as the source has them (Gen/Pipelines.lean, translated by harness/pipelines.py on every run)
    'Ems.C07.cmask_pipelines_translated', 'Ems.C07.maskArr_shape_spec', 'Ems.C07.maskArr_get_spec',
    'Ems.C07.cmask_left_pipeline_spec', 'Ems.C07.cmask_back_pipeline_spec', 'Ems.C07.cmask_node_pipeline_spec',
    'Ems.C07.blur_pipeline_translated', 'Ems.C07.blur_pipeline_spec',
    # buffer_faces / mask_from_face_indexes / UGrid.make_clip_mask as the source has them (Gen/UgridSrc.lean, harness/trans_ugridsrc.py)
    'Ems.C07Src.ugridsrc_translated', 'Ems.C07Src.buffer_faces_src', 'Ems.C07Src.buffer_faces_src_spec',
    'Ems.C07Src.mask_from_face_indexes_src', 'Ems.C07Src.mask_from_face_indexes_src_renumber',
    'Ems.C07Src.make_clip_mask_src_kept', 'Ems.C07Src.make_clip_mask_src', 'Ems.C07Src.make_clip_mask_src_order_irrelevant',
    'Ems.C07Src.make_clip_mask_src_params',
]
# --- strengthening round 6 (loose rows): rows of the node / edge table that no face uses, selections by extent (Props/C07Loose.lean)
REQUIRED += ['Ems.C07.loose_node_never_kept', 'Ems.C07.loose_edge_never_kept', 'Ems.C07.whole_mesh_kept_faces',
             'Ems.C07.whole_mesh_mask_spec', 'Ems.C07.whole_mesh_node_numbering']
EXTRA_MODULES = list(globals().get('EXTRA_MODULES', [])) + ['EmsModel.Props.C07Loose']   # appended, other entries kept
# --- end round 6
RULE = ('primitives: boolean arrays (thorough: every array of every shape 1..4 x 1..4; quick: a seeded sample of '
        'them plus random arrays up to 7x9) through blur_mask for size 0..3 and smear_mask for all four pad_axes '
        'choices, c_mask_from_centres; dataset level: make_clip_mask of cf1d, cf2d, shoc_simple, shoc_standard, '
        'ugrid without / with an edge dimension x 14 geometry classes (box, polygon, line, point, multi-part, '
        'touching at an edge / corner / whole cell / from outside, covering everything, hugging the border, '
        'outside, empty) x buffer -1..3, plus buffer_faces / mask_from_face_indexes on arbitrary face lists; '
        'ring counts comparable to and beyond the array size: sparse arrays up to 12x14 with the marked cells in '
        'a corner / on the border / 1..3 cells from it / in the middle x blur_mask size 4..longer side + 2, and '
        'make_clip_mask of grids up to 10x10 (and meshes) with a geometry strictly inside one cell chosen by the '
        'same position classes (or a border strip / corner / box) x 5 ascending buffers from 3..longer side + 2, '
        'each judged against the brute-force ring dilation and for buffer monotonicity. '
        'The GEOS truth table (ground-truth polygon .intersects(geometry), cell by cell) is the model\'s '
        '`intersects` oracle; the model gets the hits in a shuffled order. Non-trivial = the hit set is a '
        'proper non-empty subset of the cells, or buffer > 0 reaches the array border, or the hit order '
        'is not ascending; distinct = distinct (convention, shape / mesh, truth table, buffer). '
        'Pipelines: the source text of arakawa_c.c_mask_from_centres with its three calls of masking.smear_mask inlined, and of '
        'masking.blur_mask, is translated on every run into terms of the numpy expression language (harness/pipelines.py -> Gen.cMaskLeft / '
        'cMaskBack / cMaskNode / blurMask); for every array c_mask_from_centres / blur_mask is run on, the generated terms are evaluated in '
        'the driver on the same mask (and size) (`pipe cmask`, `pipe blurall`, `pipe blur`) and compared with what the running code returns.')
TRUSTED = [
    'GEOS `intersects` (the truth table handed to the model) and STRtree.query(predicate="intersects") == brute force over the cells (checked on every case)',
    'numpy.pad / basic slicing / numpy.any / fancy assignment on a flat view / numpy.sort(numpy.unique(.)) as modelled in Core/Mask.lean and Core/MeshMask.lean',
    'the source translator harness/pipelines.py (Python ast -> NpExpr: inlined calls of smear_mask, unrolled generator expressions over '
    'itertools.product, functools.reduce(operator.or_, .); for blur_mask the nditer / fromiter idiom recognised as a whole, assuming nditer '
    'visits a C-contiguous array in C order) and the semantics of numpy.pad / | / the window constructor windowAny in Core/NpExpr.lean; what '
    'the translator cannot render becomes NpExpr.unsupported and breaks Ems.C07.cmask_pipelines_translated / blur_pipeline_translated; its '
    'output is validated against the running code by the `pipe cmask` / `pipe blurall` / `pipe blur` operations on every run',
]
ASSUMPTIONS = [
    'clip masks are 2-D (grids) as produced by emsarray; blur_mask / smear_mask on other ranks are outside the property',
    'edge numbering of a mesh without a stored edge_node table is emsarray\'s own; it is read back and validated against the generator\'s face-node lists before use',
]
LEVEL_NOTE = ('GEOS predicates enter as an oracle (truth table); everything downstream of the hit list is proved. '
              'cmask_left/back/node_pipeline_spec are about terms regenerated from the source text of c_mask_from_centres / smear_mask on '
              'every run, for every shape: they compute the arrays of the hand model cMaskFromCentres; blur_pipeline_spec does the same for '
              'blur_mask (every mask, every size >= 0: the generated term computes Mask.blur).')

# minimised past failures, run first on every run (finding F1: two quads sharing an edge, a line
# along that edge; the spatial index returns the hits as [1, 0])
CORPUS = [
    {'recipe': {'conv': 'ugrid',
                'enc': {'edge_dim_declared': False, 'fill': 'nan', 'start_index': 0, 'tables': [], 'transposed': False},
                'faces': [[3, 0, 2, 5], [1, 4, 0, 3]],
                'nodes': [[4, 4], [2, 2], [4, 6], [2, 4], [4, 2], [2, 6]]},
     'wkt': 'LINESTRING (4 4, 4 6)', 'buffers': [0, 1], 'class': 'corpus:F1-minimal'},
    {'recipe': {'conv': 'ugrid',
                'enc': {'edge_dim_declared': True, 'fill': 'attr', 'start_index': 1, 'tables': ['edge_node'], 'transposed': False},
                'faces': [[3, 0, 2, 5], [1, 4, 0, 3], [5, 2, 6, 7]],
                'nodes': [[4, 4], [2, 2], [4, 6], [2, 4], [4, 2], [2, 6], [4, 8], [2, 8]]},
     'wkt': 'POLYGON ((0 0, 10 0, 10 10, 0 10, 0 0))', 'buffers': [0, 1, 2], 'class': 'corpus:F1-cover-all'},
]

CONV_VARIANTS = ['cf1d', 'cf2d', 'shoc_simple', 'shoc_standard', 'ugrid', 'ugrid+edge']
BUFFERS = [0, 1, 2, 3]


# ----------------------------------------------------------------------------
# canonical forms

def bits(a) -> str:
    f = np.asarray(a).astype(bool).ravel()
    return ''.join('1' if v else '0' for v in f) or '-'


def show_arr(a) -> str:
    a = np.asarray(a)
    return f'{a.shape[0]}x{a.shape[1]}:{bits(a)}'


def show_table(values) -> str:
    """new_*_index values (float with NaN, or masked) -> `0,_,1`"""
    vals = np.ma.masked_invalid(np.ma.asarray(values, dtype='f8'))
    out = []
    for v, m in zip(vals.data.tolist(), np.ma.getmaskarray(vals).tolist()):
        out.append('_' if m else str(int(v)))
    return ','.join(out) or '-'


def table_list(values) -> list:
    vals = np.ma.masked_invalid(np.ma.asarray(values, dtype='f8'))
    return [None if m else int(v) for v, m in zip(vals.data.tolist(), np.ma.getmaskarray(vals).tolist())]


def nat_list(xs) -> str:
    xs = list(xs)
    return ','.join(str(int(x)) for x in xs) if xs else '-'


def mesh_str(nnodes: int, faces: list, edge_info) -> str:
    f = '/'.join('.'.join(map(str, row)) for row in faces)
    if edge_info is None:
        e = '-'
    else:
        ne, fe = edge_info
        e = f'{ne}:' + '/'.join('.'.join(map(str, row)) for row in fe)
    return f'n={nnodes};f={f};e={e}'


# --- B5 (ugridsrc): the mesh as the SOURCE sees it — masked tables of the width the generator wrote (ground truth: the recipe's
# rows padded with masked entries up to `maxn`), for the driver ops that evaluate the terms generated from the source
def src_mesh_str(case, edge_info) -> str:
    width = max([int(case.built.extra.get('maxn', 0))] + [len(r) for r in case.faces])

    def rows(rs):
        return '/'.join('.'.join([str(v) for v in r] + ['_'] * (width - len(r))) for r in rs)
    e = '-' if edge_info is None else f'{edge_info[0]}:{rows(edge_info[1])}'
    return f'n={case.nnodes};f={rows(case.faces)};e={e}'
# --- end B5


# ----------------------------------------------------------------------------
# brute-force statements of the property (independent of the Lean model)

def dilate(t: np.ndarray, b: int) -> np.ndarray:
    """every cell within b steps (Chebyshev) of a marked cell, seeing only in-array cells"""
    ny, nx = t.shape
    out = np.zeros_like(t, dtype=bool)
    for j in range(ny):
        for i in range(nx):
            hit = False
            for jj in range(ny):
                for ii in range(nx):
                    if t[jj, ii] and abs(jj - j) <= b and abs(ii - i) <= b:
                        hit = True
            out[j, i] = hit
    return out


def dilate_sparse(t: np.ndarray, b: int) -> np.ndarray:
    """the same statement as `dilate`, evaluated per cell over the list of marked cells (for the
    larger arrays): cell (j, i) is marked iff some marked cell is within b steps of it"""
    ny, nx = t.shape
    marked = [(int(j), int(i)) for j, i in zip(*np.nonzero(t))]
    out = np.zeros((ny, nx), dtype=bool)
    for j in range(ny):
        for i in range(nx):
            out[j, i] = any(max(abs(jj - j), abs(ii - i)) <= b for jj, ii in marked)
    return out


def smear_expected(t: np.ndarray, py: bool, px: bool) -> np.ndarray:
    """an edge / node is marked iff at least one of the faces it belongs to is marked"""
    ny, nx = t.shape
    out = np.zeros((ny + int(py), nx + int(px)), dtype=bool)
    for j in range(ny):
        for i in range(nx):
            if t[j, i]:
                for dj in ((0, 1) if py else (0,)):
                    for di in ((0, 1) if px else (0,)):
                        out[j + dj, i + di] = True
    return out


def mesh_expected(faces: list, face_edges, hits: set, b: int):
    kept = set(hits)
    for _ in range(max(b, 0)):
        nodes = set()
        for f in kept:
            nodes.update(faces[f])
        kept = {f for f in range(len(faces)) if f in kept or nodes.intersection(faces[f])}
    knodes = set()
    kedges = set()
    for f in kept:
        knodes.update(faces[f])
        if face_edges is not None:
            kedges.update(face_edges[f])
    return kept, kedges, knodes


def rank_table(size: int, kept: set) -> list:
    order = {e: k for k, e in enumerate(sorted(kept))}
    return [order.get(e) for e in range(size)]


# ----------------------------------------------------------------------------
# model access in parallel driver processes (the exhaustive tier sends ~150k lines)

def install_parallel_model(ctx, workers: int = 12, chunk: int = 4000):
    if ctx.driver is None:
        return
    drv = ctx.driver

    def model(lines):
        if len(lines) <= chunk:
            return drv.run(lines)
        parts = [lines[k:k + chunk] for k in range(0, len(lines), chunk)]
        with concurrent.futures.ThreadPoolExecutor(max_workers=workers) as ex:
            outs = list(ex.map(drv.run, parts))
        return [o for part in outs for o in part]
    ctx.model = model


# ----------------------------------------------------------------------------
# primitives

def prim_case(ctx, arr: np.ndarray, items: list, fails: list, kind: str) -> None:
    """blur_mask size 0..3, smear_mask x 4 axis choices, c_mask_from_centres on one array"""
    from emsarray import masking
    ny, nx = arr.shape
    sh = f'{ny}x{nx}'
    b = bits(arr)
    desc = {'prim': {'shape': [ny, nx], 'bits': b}}
    outs = []
    for s in range(4):
        try:
            got = masking.blur_mask(arr.copy(), size=s)
            outs.append(show_arr(got))
            exp = dilate(arr, s)
            if got.shape != arr.shape or not np.array_equal(got.astype(bool), exp):
                fails.append((arr.size, 'blur-not-ring-dilation', {**desc, 'size': s},
                              f'blur_mask({sh} {b}, size={s}) = {show_arr(got)}, the {s}-ring dilation is {show_arr(exp)}'))
        except Exception as e:
            outs.append('ERR')
    items.append((f'blurall {sh} {b} 3', '|'.join(outs), {**desc, 'op': f'blurall {sh} {b} 3'}))
    # the same four arrays from the term translated from the source of blur_mask on this run (Gen.blurMask); of the
    # exhaustive enumeration every eighth array (by its bit pattern), of everything else every array
    if kind != 'exhaustive<=4x4' or (b != '-' and int(b, 2) % 8 == 1):
        items.append((f'pipe blurall {sh} {b} 3', '|'.join(outs), {**desc, 'op': f'pipe blurall {sh} {b} 3'}))
        ctx.count('pipeline:blurall')
    outs = []
    for py, px in [(False, False), (False, True), (True, False), (True, True)]:
        try:
            got = masking.smear_mask(arr.copy(), [py, px])
            outs.append(show_arr(got))
            exp = smear_expected(arr, py, px)
            if got.shape != exp.shape or not np.array_equal(got.astype(bool), exp):
                fails.append((arr.size, 'smear-not-incident-faces', {**desc, 'pad_axes': [py, px]},
                              f'smear_mask({sh} {b}, {[py, px]}) = {show_arr(got)}, expected {show_arr(exp)}'))
        except Exception as e:
            outs.append('ERR')
    items.append((f'smearall {sh} {b}', '|'.join(outs), {**desc, 'op': f'smearall {sh} {b}'}))
    ctx.count(f'prim:{kind}')
    if 0 < int(arr.sum()) < arr.size:
        ctx.nontrivial(('prim', sh, b))


def blur_one(ctx, arr: np.ndarray, s: int, items: list, fails: list) -> None:
    """one blur_mask call with an arbitrary size: op line for the model + the ring-dilation oracle
    (any size >= 0; the property is silent about negative sizes, the model says numpy.pad refuses)"""
    from emsarray import masking
    ny, nx = arr.shape
    sh, b = f'{ny}x{nx}', bits(arr)
    line = f'blur {sh} {b} {s}'
    desc = {'prim': {'shape': [ny, nx], 'bits': b}, 'size': s, 'op': line}
    # the term translated from the source of blur_mask (Gen.blurMask) on the same input; its evaluator reads the padded
    # array element by element through list indexing, so the very large windows are left to the hand model's line
    pipe = f'pipe {line}'
    piped = (2 * abs(s) + 1) ** 2 * arr.size * (ny + 2 * abs(s)) * (nx + 2 * abs(s)) <= 4_000_000
    try:
        got = np.asarray(masking.blur_mask(arr.copy(), size=s))
    except Exception as e:
        items.append((line, 'ERR', desc))
        if piped:
            items.append((pipe, 'ERR', {**desc, 'op': pipe}))
        if s >= 0:
            fails.append((arr.size, 'blur-raises', desc, f'blur_mask({sh} {b}, size={s}) raised {type(e).__name__}: {e}'))
        return
    if got.ndim != 2:
        items.append((line, f'RANK{got.ndim}', desc))
        fails.append((arr.size, 'blur-not-ring-dilation', desc, f'blur_mask({sh} {b}, size={s}) has shape {got.shape}'))
        return
    items.append((line, show_arr(got), desc))
    if piped:
        items.append((pipe, show_arr(got), {**desc, 'op': pipe}))
        ctx.count('pipeline:blur')
    if s >= 0:
        exp = dilate_sparse(arr, s)
        if got.shape != arr.shape or not np.array_equal(got.astype(bool), exp):
            fails.append((arr.size, 'blur-not-ring-dilation', desc,
                          f'blur_mask({sh} {b}, size={s}) = {show_arr(got)}, the {s}-ring dilation is {show_arr(exp)}'))


def cmask_case(ctx, arr: np.ndarray, items: list, fails: list) -> None:
    from emsarray.conventions import arakawa_c
    K = arakawa_c.ArakawaCGridKind
    dims = {K.face: ('jf', 'if'), K.back: ('jb', 'ib'), K.left: ('jl', 'il'), K.node: ('jn', 'in')}
    ny, nx = arr.shape
    sh, b = f'{ny}x{nx}', bits(arr)
    desc = {'prim': {'shape': [ny, nx], 'bits': b}, 'op': f'cmask {sh} {b}'}
    try:
        ds = arakawa_c.c_mask_from_centres(arr.copy(), dims)
        out = ';'.join(f'{k}={show_arr(ds[k + "_mask"].values)}' for k in ('face', 'back', 'left', 'node'))
        for k, kind in (('face', K.face), ('back', K.back), ('left', K.left), ('node', K.node)):
            if tuple(ds[k + '_mask'].dims) != dims[kind]:
                fails.append((arr.size, 'mask-layout', desc, f'{k}_mask has dims {ds[k + "_mask"].dims}'))
    except Exception as e:
        out = f'ERR:{type(e).__name__}'
    items.append((desc['op'], out, desc))
    # the same masks from the terms translated from the source of c_mask_from_centres / smear_mask on this run
    # (harness/pipelines.py -> Gen.cMaskBack / cMaskLeft / cMaskNode), evaluated on the same face mask
    pl = f'pipe cmask {sh} {b}'
    items.append((pl, out, {**desc, 'op': pl}))
    ctx.count('pipeline:cmask')


def run_primitives(ctx, items: list, fails: list) -> None:
    rng = ctx.rng
    if ctx.thorough and not ctx.searching:
        n = 0
        for ny in range(1, 5):
            for nx in range(1, 5):
                for code in range(2 ** (ny * nx)):
                    arr = np.array([(code >> k) & 1 for k in range(ny * nx)], dtype=bool).reshape(ny, nx)
                    prim_case(ctx, arr, items, fails, 'exhaustive<=4x4')
                    n += 1
        ctx.exhaustive = True
        ctx.notes.append(f'primitives: all {n} boolean arrays of shape 1..4 x 1..4 enumerated')
        extra = 1500
    else:
        # a seeded sample of the exhaustive space: all arrays up to 2x3 / 3x2, then random ones up to 4x4
        for ny in range(1, 4):
            for nx in range(1, 4):
                if ny * nx <= 6:
                    for code in range(2 ** (ny * nx)):
                        arr = np.array([(code >> k) & 1 for k in range(ny * nx)], dtype=bool).reshape(ny, nx)
                        prim_case(ctx, arr, items, fails, 'all<=6cells')
        for _ in range(ctx.budget(2000, 3000)):
            ny, nx = rng.randint(1, 4), rng.randint(1, 4)
            dens = rng.choice([0.1, 0.3, 0.5, 0.8])
            arr = np.array([rng.random() < dens for _ in range(ny * nx)], dtype=bool).reshape(ny, nx)
            prim_case(ctx, arr, items, fails, 'sample<=4x4')
        extra = ctx.budget(600, 1500)
    for k in range(extra):
        ny, nx = rng.randint(1, 7), rng.randint(1, 9)
        dens = rng.choice([0.03, 0.1, 0.3, 0.6])
        arr = np.array([rng.random() < dens for _ in range(ny * nx)], dtype=bool).reshape(ny, nx)
        prim_case(ctx, arr, items, fails, 'random<=7x9')
        if k % 3 == 0:
            cmask_case(ctx, arr, items, fails)
    # malformed stream: negative size (numpy.pad refuses), single blur ops with larger sizes
    for _ in range(ctx.budget(40, 200)):
        ny, nx = rng.randint(1, 5), rng.randint(1, 5)
        arr = np.array([rng.random() < 0.3 for _ in range(ny * nx)], dtype=bool).reshape(ny, nx)
        s = rng.choice([-2, -1, 4, 5, 7])
        blur_one(ctx, arr, s, items, fails)
        ctx.count('prim:malformed-or-large-size')


# ----------------------------------------------------------------------------
# dataset level

def recipe_for(rng, variant: str, tier: str) -> dict:
    if variant == 'ugrid':
        return G.random_recipe(rng, 'ugrid', tier, tables=[], edge_dim_declared=False)
    if variant == 'ugrid+edge':
        tables = [t for t in ['edge_node', 'face_edge', 'edge_face', 'face_face'] if rng.random() < 0.4]
        declared = not ({'edge_node', 'edge_face'} & set(tables)) or rng.random() < 0.5
        return G.random_recipe(rng, 'ugrid', tier, tables=tables, edge_dim_declared=declared)
    return G.random_recipe(rng, variant, tier)


class Case:
    """one dataset bound to its convention, with the ground truth the model needs"""

    def __init__(self, recipe: dict):
        self.recipe = recipe
        self.built = G.build(recipe)
        self.c = G.bind(self.built)
        self.conv = self.built.conv
        self.polys = CG.ground_polygons(self.built)
        self.ncell = len(self.polys)
        self.edge_info = None
        self.edge_problem = None
        if self.conv == 'ugrid':
            self.faces = [list(f) for f in recipe['faces']]
            self.nnodes = len(recipe['nodes'])
            if self.built.extra['has_edge']:
                self._edges()
                # round 6 (loose rows): where the FILE defines the edge numbering (a stored edge_node table) and the recipe
                # is of the loose-row class, the model and the oracle get the generator's numbering, not the one read back
                if recipe.get('loose') and self.edge_info is not None and X.truth_edges(self.built) is not None:
                    self.edge_info = X.truth_edges(self.built)
        else:
            self.ny, self.nx = self.built.grids['face'][1]

    def _edges(self):
        """emsarray's edge numbering (its own when no edge_node table is stored), validated
        against the generator's face-node lists before it is given to the model"""
        topo = self.c.topology
        try:
            fe = [[int(v) for v in np.ma.asarray(row).compressed()] for row in np.ma.asarray(topo.face_edge_array)]
            ne = int(topo.edge_count)
        except Exception as e:
            self.edge_problem = f'{type(e).__name__}: {e}'
            return
        # face_edge column k of face f must be the edge between nodes f[k] and f[k+1]; that has to
        # define a bijection between the edge ids used and the node pairs of the mesh
        pair_of: dict = {}
        id_of: dict = {}
        ok = len(fe) == len(self.faces)
        for f, row in zip(self.faces, fe):
            if len(row) != len(f):
                ok = False
                break
            for k, e in enumerate(row):
                pair = frozenset((f[k], f[(k + 1) % len(f)]))
                if not (0 <= e < ne) or pair_of.setdefault(e, pair) != pair or id_of.setdefault(pair, e) != e:
                    ok = False
        if ok:
            self.edge_info = (ne, fe)
        else:
            self.edge_problem = 'face_edge_array is not a consistent numbering of the faces\' node pairs'

    def truth(self, geom) -> list:
        return [bool(p is not None and p.intersects(geom)) for p in self.polys]


def canon_grid_mask(case: Case, ds, fails: list, desc: dict) -> str:
    """canonical output of a grid make_clip_mask result + layout checks"""
    built = case.built
    if case.conv == 'shoc_standard':
        parts = []
        for k in ('face', 'back', 'left', 'node'):
            da = ds[k + '_mask']
            if tuple(da.dims) != tuple(built.grids[k][0]):
                fails.append((case.ncell, 'mask-layout', desc, f'{k}_mask dims {da.dims} != {built.grids[k][0]}'))
            parts.append(f'{k}={show_arr(da.values)}')
        return ';'.join(parts)
    da = ds['cell_mask']
    if tuple(da.dims) != tuple(built.grids['face'][0]):
        fails.append((case.ncell, 'mask-layout', desc, f'cell_mask dims {da.dims} != {built.grids["face"][0]}'))
    if list(ds.data_vars) != ['cell_mask']:
        fails.append((case.ncell, 'mask-layout', desc, f'data_vars {list(ds.data_vars)}'))
    return show_arr(da.values)


def clip_case(ctx, case: Case, geom, gclass: str, buffer: int, items: list, fails: list,
              f1_lines: list, masks_out: dict | None = None) -> None:
    """one make_clip_mask call: canonical impl output, op line for the model, direct oracle"""
    rng = ctx.rng
    c, built = case.c, case.built
    try:
        truth = case.truth(geom)
    except shapely.errors.GEOSException as e:
        # GEOS refuses the geometry itself (zero-length segment ...): not an input of the property
        ctx.count('geos-refuses-geometry')
        return
    tbits = ''.join('1' if t else '0' for t in truth) or '-'
    true_cells = [n for n, t in enumerate(truth) if t]
    desc = {'recipe': case.recipe, 'geom': CG.to_hex(geom), 'wkt': geom.wkt[:300], 'class': gclass, 'buffer': buffer}
    cost = case.ncell
    # stated assumption about the spatial index: query == brute force over the cells
    try:
        tree_hits = [int(v) for v in c.strtree.query(geom, predicate='intersects')]
    except Exception as e:
        tree_hits = None
        ctx.count('strtree-raises:' + type(e).__name__)
    if tree_hits is not None and sorted(tree_hits) != true_cells:
        # tell a polygon problem (C06) from an index problem
        own = [n for n, p in enumerate(c.polygons) if p is not None and p.intersects(geom)]
        sig = 'assumption-strtree-query' if own == true_cells else 'polygons-differ-from-ground-truth'
        fails.append((cost, sig, desc, f'strtree.query -> {sorted(tree_hits)}, brute force over ground-truth polygons -> {true_cells}, over c.polygons -> {own}'))
        return
    shuffled = list(true_cells)
    rng.shuffle(shuffled)
    unsorted_hits = tree_hits is not None and tree_hits != sorted(tree_hits)
    # "the requested number of neighbour rings": when none is requested there is none - every other call for
    # zero rings leaves the argument out (chosen without touching the random stream)
    by_default = buffer == 0 and (len(desc['geom']) + case.ncell) % 2 == 0
    if by_default:
        desc['buffer_argument'] = 'left out'
        ctx.count('buffer:left-out')
    try:
        ds = c.make_clip_mask(geom) if by_default else c.make_clip_mask(geom, buffer=buffer)
        err = None
    except Exception as e:
        ds, err = None, f'ERR:{type(e).__name__}'
    ctx.count(f'conv:{case.conv}' + ('+edge' if case.conv == 'ugrid' and built.extra['has_edge'] else ''))
    ctx.count(f'geom:{gclass}')
    ctx.count(f'buffer:{buffer}')
    nontrivial = 0 < len(true_cells) < case.ncell or unsorted_hits
    if case.conv != 'ugrid':
        ny, nx = case.ny, case.nx
        op = 'arakawamask' if case.conv == 'shoc_standard' else 'gridmask'
        line = f'{op} {ny}x{nx} {tbits} {nat_list(shuffled)} {buffer}'
        d = {**desc, 'op': line}
        out = err if ds is None else canon_grid_mask(case, ds, fails, d)
        items.append((line, out, d))
        if ds is None:
            fails.append((cost, 'make-clip-mask-raises', d, f'make_clip_mask raised {err}'))
            return
        t = np.array(truth, dtype=bool).reshape(ny, nx)
        exp = dilate(t, max(buffer, 0))
        face = np.asarray(ds['face_mask' if case.conv == 'shoc_standard' else 'cell_mask'].values).astype(bool)
        if face.shape != (ny, nx):
            fails.append((cost, 'mask-shape', d, f'face mask shape {face.shape} != {(ny, nx)}'))
            return
        if (exp & ~face).any():
            fails.append((cost, 'grid-mask-missing-cells', d, f'cells within {buffer} rings of an intersecting cell are unmarked: got {show_arr(face)}, want {show_arr(exp)} (truth {tbits})'))
        elif (face & ~exp).any():
            fails.append((cost, 'grid-mask-extra-cells', d, f'cells beyond {buffer} rings are marked: got {show_arr(face)}, want {show_arr(exp)} (truth {tbits})'))
        if case.conv == 'shoc_standard':
            for k, (py, px) in (('left', (False, True)), ('back', (True, False)), ('node', (True, True))):
                got = np.asarray(ds[k + '_mask'].values).astype(bool)
                want = smear_expected(face, py, px)   # relative to the faces this very mask marks
                if got.shape != want.shape or not np.array_equal(got, want):
                    fails.append((cost, f'arakawa-{k}-mask', d, f'{k}_mask {show_arr(got)} != those of the marked faces {show_arr(want)}'))
        if buffer > 0 and exp.any() and (exp[0].any() or exp[-1].any() or exp[:, 0].any() or exp[:, -1].any()):
            nontrivial = True
        if masks_out is not None:
            masks_out[buffer] = face
    else:
        mesh = mesh_str(case.nnodes, case.faces, case.edge_info if case.edge_problem is None else None)
        has_edge = built.extra['has_edge']
        line = f'ugridmask {mesh} {tbits} {nat_list(shuffled)} {buffer}'
        d = {**desc, 'op': line}
        if ds is None:
            items.append((line, err, d))
            fails.append((cost, 'make-clip-mask-raises', d, f'make_clip_mask raised {err}'))
            return
        skip_edges = has_edge and case.edge_info is None
        if skip_edges:
            ctx.count('ugrid:edge-table-unvalidated')

        def canon(ds_):
            e = 'absent'
            if 'new_edge_index' in ds_.data_vars:
                e = 'skipped' if skip_edges else show_table(ds_['new_edge_index'].values)
            return f"face={show_table(ds_['new_face_index'].values)};edge={e};node={show_table(ds_['new_node_index'].values)}"
        out = canon(ds)
        if skip_edges:
            # the model was given no edge table; compare faces and nodes only
            out = out.replace('edge=skipped', 'edge=absent')
        kept, kedges, knodes = mesh_expected(case.faces, case.edge_info[1] if case.edge_info else None, set(true_cells), buffer)
        nf = table_list(ds['new_face_index'].values)
        nn = table_list(ds['new_node_index'].values)
        f1 = False
        got_kept = {f for f, v in enumerate(nf) if v is not None}
        if len(nf) != len(case.faces) or got_kept != kept:
            fails.append((cost, 'ugrid-kept-faces', d, f'kept faces {sorted(got_kept)} != intersecting faces + {buffer} node-sharing rings {sorted(kept)}'))
        elif nf != rank_table(len(case.faces), kept):
            vals = sorted(v for v in nf if v is not None)
            if vals == list(range(len(kept))):
                f1 = True
                fails.append((cost, 'ugrid-renumber-hit-order', d,
                              f'new_face_index {show_table(ds["new_face_index"].values)} is not order preserving '
                              f'(kept faces {sorted(kept)} must become 0..{len(kept) - 1} in their original order); '
                              f'STRtree hit order was {tree_hits}'))
            else:
                fails.append((cost, 'ugrid-renumber-not-contiguous', d, f'new_face_index {show_table(ds["new_face_index"].values)}'))
        # edges / nodes are judged against the faces this very mask keeps
        _, kedges, knodes = mesh_expected(case.faces, case.edge_info[1] if case.edge_info else None, got_kept & set(range(len(case.faces))), 0)
        got_nodes = {n for n, v in enumerate(nn) if v is not None}
        if len(nn) != case.nnodes or got_nodes != knodes:
            fails.append((cost, 'ugrid-kept-nodes', d, f'kept nodes {sorted(got_nodes)} != nodes of the kept faces {sorted(knodes)}'))
        elif nn != rank_table(case.nnodes, knodes):
            fails.append((cost, 'ugrid-renumber-nodes', d, f'new_node_index {show_table(ds["new_node_index"].values)}'))
        if ('new_edge_index' in ds.data_vars) != bool(has_edge):
            fails.append((cost, 'ugrid-edge-table-presence', d, f'has edge dimension: {has_edge}, new_edge_index present: {"new_edge_index" in ds.data_vars}'))
        elif has_edge and case.edge_info is not None:
            ne_ = table_list(ds['new_edge_index'].values)
            got_edges = {e for e, v in enumerate(ne_) if v is not None}
            if len(ne_) != case.edge_info[0] or got_edges != kedges:
                fails.append((cost, 'ugrid-kept-edges', d, f'kept edges {sorted(got_edges)} != edges of the kept faces {sorted(kedges)}'))
            elif ne_ != rank_table(case.edge_info[0], kedges):
                fails.append((cost, 'ugrid-renumber-edges', d, f'new_edge_index {show_table(ds["new_edge_index"].values)}'))
        if f1 and buffer <= 0 and unsorted_hits:
            # the input class of finding F1: the rest of the output must still be exactly what the
            # hit-order numbering of the pinned tree gives (checked against the quirk definition)
            f1_lines.append((f'ugridmask-current {mesh} {tbits} {nat_list(tree_hits)} {buffer}', out, d))
        else:
            items.append((line, out, d))
            # --- B5 (ugridsrc): the same call through the program GENERATED FROM THE SOURCE of UGrid.make_clip_mask
            sline = (f'ugridmask-src {src_mesh_str(case, case.edge_info if case.edge_problem is None else None)} '
                     f'{tbits} {nat_list(shuffled)} {buffer}')
            items.append((sline, out, {**desc, 'op': sline}))
            # --- end B5
        if buffer > 0 and len(kept) > len(true_cells):
            nontrivial = True
        if masks_out is not None:
            masks_out[buffer] = got_kept
    if nontrivial:
        ctx.nontrivial((case.conv, str(case.recipe.get('faces', (case.recipe.get('ny'), case.recipe.get('nx'), case.recipe.get('lat'), case.recipe.get('lon')))), tbits, buffer))


def subset(a, b) -> bool:
    if isinstance(a, set):
        return a <= b
    return not (a & ~b).any()


def run_corpus(ctx, items: list, fails: list, f1_lines: list) -> None:
    for entry in CORPUS:
        case = Case(entry['recipe'])
        geom = shapely.from_wkt(entry['wkt'])
        for b in entry['buffers']:
            clip_case(ctx, case, geom, entry['class'], b, items, fails, f1_lines, None)


def run_datasets(ctx, items: list, fails: list, f1_lines: list) -> None:
    rng = ctx.rng
    per_variant = ctx.budget(30, 150)
    for variant in CONV_VARIANTS:
        for d in range(per_variant):
            recipe = recipe_for(rng, variant, ctx.tier)
            try:
                case = Case(recipe)
            except Exception as e:  # generator / binding trouble is not a verdict
                ctx.count(f'build-failed:{variant}:{type(e).__name__}')
                continue
            if case.edge_problem:
                ctx.notes.append(f'{variant}: edge tables not usable for the model ({case.edge_problem}); edges skipped for this mesh')
            classes = list(CG.CLASSES)
            if not ctx.thorough:
                # every dataset sees the touching / covering / border classes; the rest rotates
                core = ['touch-edge', 'touch-corner', 'cover-all', 'hug-border', 'box']
                rest = [c for c in classes if c not in core]
                rng.shuffle(rest)
                classes = core + rest[:4]
            for gclass in classes:
                try:
                    geom = CG.make(rng, case.built, gclass)
                except Exception as e:
                    ctx.count(f'geom-failed:{gclass}:{type(e).__name__}')
                    continue
                masks: dict = {}
                buffers = BUFFERS + ([-1] if rng.random() < 0.15 else [])
                for b in buffers:
                    clip_case(ctx, case, geom, gclass, b, items, fails, f1_lines, masks)
                # enlarging the buffer never unmarks
                monotone_buffers(case, recipe, geom, BUFFERS, masks, fails)
                # enlarging the geometry never unmarks
                if rng.random() < 0.5 and not geom.is_empty:
                    big = CG.enlarge(rng, case.built, geom)
                    b = rng.choice(BUFFERS)
                    m2: dict = {}
                    clip_case(ctx, case, big, 'enlarged:' + gclass, b, items, fails, f1_lines, m2)
                    if b in masks and b in m2 and not subset(masks[b], m2[b]):
                        fails.append((case.ncell, 'mask-not-monotone-geometry',
                                      {'recipe': recipe, 'geom': CG.to_hex(geom), 'geom2': CG.to_hex(big), 'buffer': b},
                                      'a larger geometry unmarks a cell'))
            if case.conv == 'ugrid':
                mesh_function_cases(ctx, case, items, fails)


def run_large_rings(ctx, items: list, fails: list, f1_lines: list) -> None:
    """Ring counts comparable to / beyond the array size ("the requested number of neighbour rings" has
    no upper bound), with the marked cells / the clipped cell placed by position class: in a corner, on
    the border, 1..3 cells from it, in the middle.  Primitive level and dataset level."""
    rng = ctx.rng
    for _ in range(ctx.budget(400, 2500)):
        arr, where = X.sparse_mask(rng)
        ny, nx = arr.shape
        for s in X.ring_counts(rng, ny, nx, 3):
            blur_one(ctx, arr, s, items, fails)
            ctx.count('prim:large-size:' + where)
            ctx.count('prim:size>=longer-side' if s >= max(ny, nx) else 'prim:size<longer-side')
            if s < max(ny, nx) - 1:
                ctx.nontrivial(('blur-large', f'{ny}x{nx}', bits(arr), s))
    per_variant = ctx.budget(10, 60)
    for variant in CONV_VARIANTS:
        for _ in range(per_variant):
            if variant.startswith('ugrid'):
                recipe = recipe_for(rng, variant, ctx.tier)
            else:
                recipe = G.random_recipe(rng, variant, ctx.tier, max_n=rng.choice([6, 8, 10]))
            try:
                case = Case(recipe)
            except Exception as e:  # generator / binding trouble is not a verdict
                ctx.count(f'build-failed:{variant}:{type(e).__name__}')
                continue
            if case.conv == 'ugrid':
                side = len(case.faces)
            else:
                side = max(case.ny, case.nx)
            geoms = []
            for where in rng.sample(X.POSITIONS, 2):
                n = X.pick_cell(rng, case.built, where)
                if n is not None:
                    geoms.append(('inside-cell:' + where, X.inside_cell(rng, case.built, n)))
            for gclass in rng.sample(['hug-strip', 'touch-corner', 'touch-outside', 'box', 'line'], 1):
                try:
                    geoms.append((gclass, CG.make(rng, case.built, gclass)))
                except Exception as e:
                    ctx.count(f'geom-failed:{gclass}:{type(e).__name__}')
            for gclass, geom in geoms:
                buffers = [3] + X.ring_counts(rng, side, side, 4)
                masks: dict = {}
                for b in buffers:
                    clip_case(ctx, case, geom, 'rings:' + gclass, b, items, fails, f1_lines, masks)
                monotone_buffers(case, recipe, geom, buffers, masks, fails)


def monotone_buffers(case, recipe: dict, geom, buffers: list, masks: dict, fails: list) -> None:
    """enlarging the buffer never unmarks (successive buffers of an ascending list)"""
    for b0, b1 in zip(buffers, buffers[1:]):
        if b0 in masks and b1 in masks and not subset(masks[b0], masks[b1]):
            fails.append((case.ncell, 'mask-not-monotone-buffer',
                          {'recipe': recipe, 'geom': CG.to_hex(geom), 'wkt': geom.wkt[:300], 'buffer': b0, 'buffer2': b1},
                          f'buffer {b0} marks a cell that buffer {b1} does not'))


def mesh_function_cases(ctx, case: Case, items: list, fails: list) -> None:
    """buffer_faces / mask_from_face_indexes called directly with arbitrary face lists"""
    from emsarray.conventions import ugrid
    rng = ctx.rng
    topo = case.c.topology
    nf = len(case.faces)
    mesh = mesh_str(case.nnodes, case.faces, case.edge_info)
    skip_edges = case.built.extra['has_edge'] and case.edge_info is None
    for _ in range(3):
        k = rng.randint(0, min(nf, 4))
        F = rng.sample(range(nf), k)           # unsorted on purpose
        line = f'bufferfaces {mesh} {nat_list(F)}'
        d = {'recipe': case.recipe, 'faces_arg': F, 'op': line}
        try:
            got = [int(v) for v in ugrid.buffer_faces(np.array(F, dtype=topo.sensible_dtype), topo)]
            out = nat_list(got)
            nodes = {n for f in F for n in case.faces[f]}
            want = [f for f in range(nf) if f in F or nodes.intersection(case.faces[f])]
            if got != want:
                fails.append((nf, 'buffer-faces-not-node-ring', d, f'buffer_faces({F}) = {got}, faces sharing a node: {want}'))
        except Exception as e:
            out = f'ERR:{type(e).__name__}'
        items.append((line, out, d))
        # --- B5 (ugridsrc): the term GENERATED FROM THE SOURCE of buffer_faces on the same masked table
        sline = f'bufferfaces-src {src_mesh_str(case, case.edge_info)} {nat_list(F)}'
        items.append((sline, out, {'recipe': case.recipe, 'faces_arg': F, 'op': sline}))
        # --- end B5
        if skip_edges:
            continue
        Fs = sorted(F)
        line = f'maskfrom {mesh} {nat_list(Fs)}'
        d = {'recipe': case.recipe, 'faces_arg': Fs, 'op': line}
        try:
            ds = ugrid.mask_from_face_indexes(np.array(Fs, dtype=topo.sensible_dtype), topo)
            e = show_table(ds['new_edge_index'].values) if 'new_edge_index' in ds.data_vars else 'absent'
            out = f"face={show_table(ds['new_face_index'].values)};edge={e};node={show_table(ds['new_node_index'].values)}"
        except Exception as e:
            out = f'ERR:{type(e).__name__}'
        items.append((line, out, d))
        # --- B5 (ugridsrc): the program GENERATED FROM THE SOURCE of mask_from_face_indexes, here also on an UNSORTED list
        sline = f'maskfrom-src {src_mesh_str(case, case.edge_info)} {nat_list(Fs)}'
        items.append((sline, out, {'recipe': case.recipe, 'faces_arg': Fs, 'op': sline}))
        if F != Fs:
            sline = f'maskfrom-src {src_mesh_str(case, case.edge_info)} {nat_list(F)}'
            du = {'recipe': case.recipe, 'faces_arg': F, 'op': sline}
            try:
                ds = ugrid.mask_from_face_indexes(np.array(F, dtype=topo.sensible_dtype), topo)
                e = show_table(ds['new_edge_index'].values) if 'new_edge_index' in ds.data_vars else 'absent'
                outu = f"face={show_table(ds['new_face_index'].values)};edge={e};node={show_table(ds['new_node_index'].values)}"
            except Exception as e:
                outu = f'ERR:{type(e).__name__}'
            items.append((sline, outu, du))
        # --- end B5
        ctx.count('ugrid:direct-function-calls')


# ----------------------------------------------------------------------------
# --- strengthening round 6 (loose rows): meshes whose node table / stored edge table have rows that no face uses
# (harness/gen/c07_extra.py: add_loose_elements), clipped by selections of every extent - no face, one, some, all but one,
# all faces - reached directly (a covering geometry, an explicit face list) or through the buffer rings

def direct_mask_oracle(case: Case, F: list, ds, d: dict, fails: list) -> None:
    """mask_from_face_indexes(F) for an ascending face list F: the faces of F, the nodes and edges of exactly those faces,
    each numbered 0..k-1 in their original order; every other row masked.  Ground truth: the recipe's tables."""
    nf = len(case.faces)
    kept = set(F)
    tables = [('face', 'new_face_index', nf, kept),
              ('node', 'new_node_index', case.nnodes, {n for f in F for n in case.faces[f]})]
    has_edge = bool(case.built.extra['has_edge'])
    if ('new_edge_index' in ds.data_vars) != has_edge:
        fails.append((nf, 'ugrid-edge-table-presence', d, f'has edge dimension: {has_edge}, new_edge_index present: {"new_edge_index" in ds.data_vars}'))
    elif has_edge and case.edge_info is not None:
        tables.append(('edge', 'new_edge_index', case.edge_info[0], {e for f in F for e in case.edge_info[1][f]}))
    for kind, name, size, want in tables:
        got = table_list(ds[name].values)
        got_kept = {e for e, v in enumerate(got) if v is not None}
        if len(got) != size or got_kept != want:
            fails.append((nf, f'mask-from-faces-kept-{kind}s', d,
                          f'mask_from_face_indexes({F}): kept {kind}s {sorted(got_kept)} != the {kind}s of the listed faces {sorted(want)} '
                          f'({name} = {show_table(ds[name].values)}, {size} rows)'))
        elif got != rank_table(size, want):
            fails.append((nf, f'mask-from-faces-renumber-{kind}s', d,
                          f'mask_from_face_indexes({F}): {name} = {show_table(ds[name].values)} does not number the kept {kind}s '
                          f'{sorted(want)} as 0..{len(want) - 1} in their original order'))


def mask_from_case(ctx, case: Case, ext: str, F: list, items: list, fails: list) -> None:
    """one direct call of mask_from_face_indexes with a face list of extent class `ext`: model line + direct oracle"""
    from emsarray.conventions import ugrid
    topo = case.c.topology
    skip_edges = case.built.extra['has_edge'] and case.edge_info is None
    line = f'maskfrom {mesh_str(case.nnodes, case.faces, case.edge_info)} {nat_list(F)}'
    d = {'recipe': case.recipe, 'faces_arg': F, 'extent': ext, 'op': line}
    try:
        ds = ugrid.mask_from_face_indexes(np.array(F, dtype=topo.sensible_dtype), topo)
    except Exception as e:
        if not skip_edges:
            items.append((line, f'ERR:{type(e).__name__}', d))
        fails.append((len(case.faces), 'mask-from-faces-raises', d, f'mask_from_face_indexes({F}) raised {type(e).__name__}: {e}'))
        return
    if not skip_edges:
        e = show_table(ds['new_edge_index'].values) if 'new_edge_index' in ds.data_vars else 'absent'
        items.append((line, f"face={show_table(ds['new_face_index'].values)};edge={e};node={show_table(ds['new_node_index'].values)}", d))
    direct_mask_oracle(case, F, ds, d, fails)
    ctx.count('loose:direct:' + ext)


def run_loose_meshes(ctx, items: list, fails: list, f1_lines: list) -> None:
    import random
    rng = random.Random(f'{ctx.seed}:{int(ctx.searching)}:c07-extra6')     # a stream of its own
    for k in range(ctx.budget(24, 150)):
        variant = 'ugrid' if k % 3 == 0 else 'ugrid+edge'
        recipe = recipe_for(rng, variant, ctx.tier)
        if k % 3 == 1 and 'edge_node' not in recipe['enc']['tables']:
            # a third of the meshes store their own edge table for certain (only then can an edge belong to no face)
            recipe = dict(recipe, enc=dict(recipe['enc'], tables=['edge_node'] + list(recipe['enc']['tables'])))
        recipe = X.add_loose_elements(rng, recipe)
        try:
            case = Case(recipe)
        except Exception as e:  # generator / binding trouble is not a verdict
            ctx.count(f'build-failed:loose:{type(e).__name__}')
            continue
        nf = len(case.faces)
        loose = recipe['loose']
        ctx.count(f'loose:nodes={len(loose["nodes"])},edges={len(loose["edges"])}')
        cells = [n for n, p in enumerate(case.polys) if p is not None]
        geoms = [('cover-all', CG.make(rng, case.built, 'cover-all'), [0, 1])]
        if cells:
            # from inside one face outwards, ring by ring, until the rings have reached whatever they can reach
            geoms.append(('inside-cell', X.inside_cell(rng, case.built, rng.choice(cells)), [0, 1, 2, 3, nf + 1]))
        other = rng.choice(['box', 'polygon', 'touch-corner', 'hug-border', 'line'])
        try:
            geoms.append((other, CG.make(rng, case.built, other), [0, 2]))
        except Exception as e:
            ctx.count(f'geom-failed:{other}:{type(e).__name__}')
        for gclass, geom, buffers in geoms:
            masks: dict = {}
            for b in buffers:
                clip_case(ctx, case, geom, 'loose:' + gclass, b, items, fails, f1_lines, masks)
            monotone_buffers(case, recipe, geom, buffers, masks, fails)
            if masks and max(len(m) for m in masks.values()) == nf:
                ctx.count('loose:selection-reaches-every-face')
                ctx.nontrivial(('loose', str(case.faces), str(loose), gclass))
            # model side: the rows no face uses - counted by the model from the mesh it was given, by the generator from how
            # it built the tables - are all masked in the demanded mask (decidable form of C07.loose_*_never_kept)
            try:
                truth = case.truth(geom)
            except shapely.errors.GEOSException:
                continue
            hits = [n for n, t in enumerate(truth) if t]
            tb = ''.join('1' if t else '0' for t in truth) or '-'
            info = case.edge_info if case.edge_problem is None else None
            n_loose_edges = 0 if info is None else len(loose['edges'])
            line = f'propcheck-loose {mesh_str(case.nnodes, case.faces, info)} {tb} {nat_list(hits)} {buffers[-1]}'
            items.append((line, f'OK loose-nodes={len(loose["nodes"])} loose-edges={n_loose_edges}',
                          {'recipe': recipe, 'geom': CG.to_hex(geom), 'wkt': geom.wkt[:300], 'buffer': buffers[-1], 'op': line}))
        for ext, F in X.selection_extents(rng, nf):
            ctx.guarded(lambda ext=ext, F=F: mask_from_case(ctx, case, ext, F, items, fails),
                        {'recipe': recipe, 'faces_arg': F, 'extent': ext,
                         'op': f'maskfrom {mesh_str(case.nnodes, case.faces, case.edge_info)} {nat_list(F)}'})


RULE += (' Loose rows (round 6): meshes of every encoding with 1..3 nodes that are a corner of no face (at the front / in the middle / at the '
         'end of the node table) and, where the file stores its own edge_node table, 0..2 edges that are a side of no face (between loose '
         'and / or mesh nodes, placed likewise) x selections of every extent - a covering geometry, the inside of one face with the buffers '
         '0, 1, 2, 3 and faces + 1 (rings until nothing more is reached), one other geometry class, and mask_from_face_indexes called with '
         'no face, one, some, all but one and all faces: the nodes / edges kept must be exactly those of the kept faces, numbered in order '
         '(ground truth: the recipe; the stored edge table is the edge numbering); `propcheck-loose` has the model count the loose rows of '
         'the mesh it is given and confirm they are masked.')
# --- end round 6


# ----------------------------------------------------------------------------
# shrinking of a failing mesh case (fewer faces, plain encoding)

def shrink_ugrid(desc: dict, signature: str):
    """greedy: plain encoding, then drop faces one at a time, then unused nodes, as long as the
    same oracle signature still fires; returns (smaller description, its oracle message)"""
    import random
    recipe = dict(desc['recipe'])
    geom = CG.from_hex(desc['geom'])
    buffer = desc['buffer']
    last = {}

    def still_fails(r) -> bool:
        try:
            case = Case(r)
            fl: list = []
            clip_case(_Dummy(random.Random(0)), case, geom, desc.get('class', 'shrunk'), buffer, [], fl, [], None)
            for _, sig, d, m in fl:
                if sig == signature:
                    last['msg'] = m
                    last['recipe'] = r
                    return True
            return False
        except Exception:
            return False

    plain = dict(recipe)
    plain['enc'] = {'start_index': 0, 'fill': 'nan', 'transposed': False, 'tables': [], 'edge_dim_declared': False}
    if not signature.endswith('edges') and still_fails(plain):
        recipe = plain
    faces = list(recipe['faces'])
    k = 0
    while k < len(faces) and len(faces) > 1:
        trial = faces[:k] + faces[k + 1:]
        r = dict(recipe)
        r['faces'] = trial
        r.pop('edges', None)
        if still_fails(r):
            faces = trial
            recipe = r
        else:
            k += 1
    used = sorted({n for f in faces for n in f})
    remap = {n: k for k, n in enumerate(used)}
    r = dict(recipe)
    r['nodes'] = [recipe['nodes'][n] for n in used]
    r['faces'] = [[remap[n] for n in f] for f in faces]
    if still_fails(r):
        recipe = r
    if not still_fails(recipe):
        return desc, None
    out = dict(desc)
    out['recipe'] = recipe
    out.pop('op', None)
    return out, last['msg'] + f' [shrunk from {len(desc["recipe"]["faces"])} faces]'


class _Dummy:
    """a ctx stand-in for re-running one case while shrinking"""

    def __init__(self, rng):
        self.rng = rng

    def count(self, *a, **k):
        pass

    def nontrivial(self, *a, **k):
        pass


# ----------------------------------------------------------------------------

def run(ctx) -> None:
    items: list = []
    fails: list = []       # (cost, signature, desc, message); reported smallest first
    f1_lines: list = []
    install_parallel_model(ctx)
    run_corpus(ctx, items, fails, f1_lines)
    run_primitives(ctx, items, fails)
    run_datasets(ctx, items, fails, f1_lines)
    run_large_rings(ctx, items, fails, f1_lines)
    run_loose_meshes(ctx, items, fails, f1_lines)      # round 6; last, so that the earlier streams are what they were
    # report oracle failures smallest input first, so that the replay written is a minimal one
    def priority(sig: str) -> int:
        if sig.startswith(('blur-', 'smear-', 'buffer-faces-')):
            return 0          # a primitive is wrong: the root cause
        if sig in ('grid-mask-missing-cells', 'grid-mask-extra-cells', 'ugrid-kept-faces',
                   'ugrid-renumber-hit-order', 'ugrid-renumber-not-contiguous', 'make-clip-mask-raises'):
            return 1
        return 2
    fails.sort(key=lambda f: (priority(f[1]), f[0], f[1]))
    shrunk: set = set()
    for cost, sig, desc, msg in fails:
        if sig.startswith('ugrid-') and sig not in shrunk and 'geom' in desc:
            shrunk.add(sig)
            try:
                small, small_msg = shrink_ugrid(desc, sig)
                if small_msg:
                    desc, msg = small, small_msg
            except Exception:
                pass
        ctx.oracle_fail(sig, desc, msg)
    if ctx.driver is None:
        ctx.evaluated(len(items) + len(f1_lines))
        return
    ctx.check_batch(items)
    if f1_lines:
        outs = ctx.model([l for l, _, _ in f1_lines])
        for (line, impl_out, desc), model_out in zip(f1_lines, outs):
            ctx.evaluations += 1
            ctx.traces += 1
            if model_out != impl_out:
                ctx.disagree(line, impl_out, model_out, desc)
        ctx.count('ugrid:compared-with-hit-order-quirk', len(f1_lines))
        # model side of the same finding: the quirk definition fails the decidable form of
        # renumber_spec on exactly these inputs, the demanded definition passes it
        pc = [l.replace('ugridmask-current', 'propcheck-renumber-current', 1) for l, _, _ in f1_lines[:50]]
        pd = [l.replace('ugridmask-current', 'propcheck-renumber', 1) for l, _, _ in f1_lines[:50]]
        for line, got, want in zip(pc + pd, ctx.model(pc + pd), ['FAIL'] * len(pc) + ['OK'] * len(pd)):
            ctx.evaluations += 1
            if got != want:
                ctx.disagree(line, want, got, {'op': line})


def replay(ctx, data) -> int:
    return util.generic_replay(ctx, data, run_one)


def run_one(ctx, inp: dict) -> dict:
    """Re-execute one recorded input on the real code, the model and the direct oracle."""
    import random
    out: dict = {}
    if 'prim' in inp:
        from emsarray import masking
        ny, nx = inp['prim']['shape']
        b = inp['prim']['bits']
        arr = np.array([ch == '1' for ch in (b if b != '-' else '')], dtype=bool).reshape(ny, nx)
        items: list = []
        fails: list = []
        dummy = _Dummy(random.Random(0))
        if 'size' in inp and 'pad_axes' not in inp and not 0 <= inp['size'] <= 3 or inp.get('op', '').startswith(('blur ', 'pipe blur ')):
            blur_one(dummy, arr, inp['size'], items, fails)
        elif inp.get('op', '').startswith(('cmask ', 'pipe cmask ')):
            cmask_case(dummy, arr, items, fails)
        else:
            prim_case(dummy, arr, items, fails, 'replay')
        op = inp.get('op')
        chosen = [it for it in items if it[0] == op] or items
        out['impl'] = ' || '.join(it[1] for it in chosen)
        if ctx.driver:
            out['model'] = ' || '.join(ctx.model([it[0] for it in chosen]))
        out['oracle'] = '; '.join(f'{s}: {m}' for _, s, _, m in fails) or 'property holds on this input'
        return out
    case = Case(inp['recipe'])
    if 'faces_arg' in inp:
        items, fails = [], []
        from emsarray.conventions import ugrid
        topo = case.c.topology
        F = inp['faces_arg']
        op = inp['op']
        try:
            if op.startswith('bufferfaces'):
                impl = nat_list(int(v) for v in ugrid.buffer_faces(np.array(F, dtype=topo.sensible_dtype), topo))
            else:
                ds = ugrid.mask_from_face_indexes(np.array(F, dtype=topo.sensible_dtype), topo)
                e = show_table(ds['new_edge_index'].values) if 'new_edge_index' in ds.data_vars else 'absent'
                impl = f"face={show_table(ds['new_face_index'].values)};edge={e};node={show_table(ds['new_node_index'].values)}"
        except Exception as e:
            impl = f'ERR:{type(e).__name__}'
        out['impl'] = impl
        if ctx.driver:
            out['model'] = ctx.model([op])[0]
        if 'extent' in inp and op.startswith('maskfrom ') and not impl.startswith('ERR'):    # round 6: the direct oracle of these calls
            direct_mask_oracle(case, F, ds, inp, fails)
            out['oracle'] = '; '.join(f'{s}: {m}' for _, s, _, m in fails) or 'property holds on this input'
        return out
    geom = CG.from_hex(inp['geom'])
    items, fails, f1 = [], [], []
    dummy = _Dummy(random.Random(0))
    clip_case(dummy, case, geom, inp.get('class', 'replay'), inp['buffer'], items, fails, f1, None)
    if 'geom2' in inp or 'buffer2' in inp:
        g2 = CG.from_hex(inp['geom2']) if 'geom2' in inp else geom
        clip_case(dummy, case, g2, 'replay2', inp.get('buffer2', inp['buffer']), items, fails, f1, None)
    allitems = items + f1
    out['impl'] = ' || '.join(it[1] for it in allitems)
    if ctx.driver and allitems:
        # always show the model the property demands (never the quirk) next to the real output
        lines = [it[0].replace('ugridmask-current', 'ugridmask') for it in allitems]
        fixed = []
        for l in lines:
            w = l.split()
            if w[0] == 'ugridmask':
                w[3] = nat_list(sorted(int(v) for v in w[3].split(',') if v != '-'))
            fixed.append(' '.join(w))
        out['model'] = ' || '.join(ctx.model(fixed))
    out['oracle'] = '; '.join(f'{s}: {m}' for _, s, _, m in fails) or 'property holds on this input'
    return out
