"""C15 — geometry export round-trips every cell with its indexes."""
from __future__ import annotations

import json
import os
from fractions import Fraction

import shapefile
import shapely

from harness import util
from harness.gen import clipgen as CG
from harness.gen import datasets as G
from harness.gen import geomspec as S

ID = 'C15'
MODULE = 'EmsModel.Props.C15'
DRIVER = 'C15'
REQUIRED = ['Ems.C15.index_json_roundtrip', 'Ems.C15.features_spec', 'Ems.C15.features_sorted',
            'Ems.C15.feature_index_identifies', 'Ems.C15.recorded_index_roundtrip', 'Ems.C15.multipolygon_spec',
            'Ems.C15.dbf_record_spec', 'Ems.C15.dbf_count']
RULE = ('datasets of every convention (holes, invalid cells, multi-kind native indexes, sheared and concave cells) x the four '
        'formats: written with the real writer (library functions and the export-geometry command), read back with an '
        'independent reader (json, pyshp Reader, shapely.from_wkt / from_wkb) and compared with the model\'s feature list; '
        'oracle: the cells with polygons, in linear order, identical coordinates, linear_index and native index identify '
        'the same cell (ravel_index(index) == linear_index). Non-trivial: a dataset with at least one cell without polygon '
        'or a kinded native index; distinct by (recipe, format).')
TRUSTED = ['json, pyshp, shapely WKT/WKB readers and writers (byte formats are the libraries\' business)']
ASSUMPTIONS = ['shapefile rings are compared up to rotation and direction (the format prescribes ring orientation); other formats exactly']

STYLE = {'cf1d': 'bare', 'cf2d': 'bare', 'shoc_simple': 'bare', 'shoc_standard': 'kinded', 'ugrid': 'kinded'}


def ring_of_coords(coords) -> list:
    pts = [(Fraction(float(x)), Fraction(float(y))) for x, y in coords]
    if len(pts) > 1 and pts[0] == pts[-1]:
        pts = pts[:-1]
    return pts


def cyc_canon(pts) -> tuple:
    """a ring up to rotation and direction"""
    pts = list(pts)
    n = len(pts)
    cands = []
    for seq in (pts, pts[::-1]):
        # every rotation: a ring may hold the same point twice (degenerate corners next to a hole)
        for k in range(n):
            cands.append(tuple(seq[k:] + seq[:k]))
    return min(cands) if cands else ()


def idx_json(v) -> str:
    return json.dumps(v, separators=(',', ':'))


def examine(ctx, recipe, items) -> None:
    from emsarray.operations import geometry
    from emsarray.cli import main as cli_main
    built = G.build(recipe)
    c = G.bind(built)
    ds = built.ds
    raw = built.polys
    vbits = S.geos_valid_bits(raw)
    kept = [q if (q is not None and vbits[n] == '1') else None for n, q in enumerate(raw)]
    rings = S.rings_str(kept)
    spec = built.grids_spec()
    style = STYLE[built.conv]
    desc = {'recipe': recipe}
    expected = [(n, q) for n, q in enumerate(kept) if q is not None]
    if any(q is None for q in kept) or style == 'kinded':
        ctx.nontrivial(str(recipe))
    ctx.count(f'conv:{built.conv}')
    with CG.WorkDir() as wd:
        # ---- GeoJSON ---------------------------------------------------------------------
        p = os.path.join(wd, 'g.geojson')
        geometry.write_geojson(ds, p)
        data = json.load(open(p))
        feats = data['features']
        out = '|'.join(
            f"{f['properties']['linear_index']};{idx_json(f['properties']['index'])};"
            f"{S.ring_str(ring_of_coords(f['geometry']['coordinates'][0]))}" for f in feats) or '(none)'
        line = f'features {spec} {built.default_kind} {style} {rings}'
        items.append((line, out, {**desc, 'op': line, 'format': 'geojson'}))
        oracle_features(ctx, desc, 'geojson', c, built, expected,
                        [(f['properties']['linear_index'], f['properties']['index'],
                          ring_of_coords(f['geometry']['coordinates'][0])) for f in feats], exact=True)
        # ---- Shapefile --------------------------------------------------------------------
        p = os.path.join(wd, 's.shp')
        geometry.write_shapefile(ds, p)
        rd = shapefile.Reader(p)
        recs = rd.records()
        shapes = rd.shapes()
        rd.close()
        out = '|'.join(f"{r[0]};{'-' if r[1] is None else int(r[1])};{idx_json(json.loads(r[2])) if r[2] else 'ERR'}" for r in recs) or '(none)'
        line = f'dbf {spec} {built.default_kind} {style} {rings}'
        items.append((line, out, {**desc, 'op': line, 'format': 'shapefile'}))
        got = []
        for r, sh in zip(recs, shapes):
            try:
                idx = json.loads(r[2])
            except Exception:
                idx = None
            got.append((r[1], idx, ring_of_coords(sh.points)))
        oracle_features(ctx, desc, 'shapefile', c, built, expected, got, exact=False)
        for r, (n, _) in zip(recs, expected):
            if r[0] != f'polygon{n}':
                ctx.oracle_fail('shapefile-name', {**desc, 'format': 'shapefile'}, f'record name {r[0]} for cell {n}')
                break
        # ---- WKT / WKB ---------------------------------------------------------------------
        for fmt, writer, reader in (('wkt', geometry.write_wkt, lambda b: shapely.from_wkt(b.decode())),
                                    ('wkb', geometry.write_wkb, shapely.from_wkb)):
            p = os.path.join(wd, 'm.' + fmt)
            writer(ds, p)
            try:
                geom = reader(open(p, 'rb').read())
                members = [ring_of_coords(g.exterior.coords) for g in geom.geoms]
            except Exception as e:
                ctx.oracle_fail(f'{fmt}-unreadable', {**desc, 'format': fmt},
                                f'the {fmt.upper()} file cannot be read back: {type(e).__name__}: {str(e)[:200]}')
                line = f'members {rings}'
                items.append((line, 'UNREADABLE', {**desc, 'op': line, 'format': fmt}))
                continue
            out = '|'.join(S.ring_str(m) for m in members) or '(none)'
            line = f'members {rings}'
            items.append((line, out, {**desc, 'op': line, 'format': fmt}))
            if members != [util.expected_ring(q) for _, q in expected]:
                ctx.oracle_fail(f'{fmt}-members-differ', {**desc, 'format': fmt},
                                f'{len(members)} members read back, {len(expected)} cells have polygons, or coordinates differ')
        # ---- the command line writes the same files -------------------------------------------------
        if ctx.rng.random() < 0.4:
            src = os.path.join(wd, 'in.nc')
            # (coordinates packed / numerically filled in the file: what the command reads must be the decoded values)
            G.pack_coordinates(ds).to_netcdf(src)
            p2 = os.path.join(wd, 'cli.geojson')
            try:
                cli_main(['export-geometry', src, p2])
                code = 0
            except SystemExit as e:
                code = e.code or 0
            ctx.evaluated()
            if code != 0 or not os.path.exists(p2):
                ctx.oracle_fail('cli-export-failed', desc, f'emsarray export-geometry exited {code}')
            else:
                d2 = json.load(open(p2))
                if d2 != data:
                    ctx.oracle_fail('cli-export-differs', desc, 'export-geometry wrote a different GeoJSON than write_geojson')


def oracle_features(ctx, desc, fmt, c, built, expected, got, exact: bool) -> None:
    d = {**desc, 'format': fmt}
    if len(got) != len(expected):
        ctx.oracle_fail(f'{fmt}-feature-count', d, f'{len(got)} features for {len(expected)} cells with polygons')
        return
    for (lin, idx, ring), (n, q) in zip(got, expected):
        if lin is None or int(lin) != n:
            ctx.oracle_fail(f'{fmt}-linear-index', d, f'feature of cell {n} records linear_index {lin}')
            return
        want = util.expected_ring(q)
        if (ring != want) if exact else (cyc_canon(ring) != cyc_canon(want)):
            ctx.oracle_fail(f'{fmt}-coordinates', d, f'cell {n}: coordinates {S.ring_str(ring)} expected {S.ring_str(want)}')
            return
        # the recorded native index identifies the same cell
        try:
            if built.conv in ('cf1d', 'cf2d', 'shoc_simple'):
                native = tuple(int(v) for v in idx)
            else:
                kinds = {k.value: k for k in type(next(iter(c.grid_kinds)))}
                native = (kinds[idx[0]], *[int(v) for v in idx[1:]])
            back = int(c.ravel_index(native))
        except Exception as e:
            back = f'ERR {type(e).__name__}'
        if back != n:
            ctx.oracle_fail(f'{fmt}-native-index', d, f'cell {n}: recorded index {idx} identifies cell {back}')
            return


def make_recipe(ctx, k):
    rng = ctx.rng
    conv = G.CONVS[k % len(G.CONVS)]
    kw = {'max_w': 3, 'max_h': 2, 'coords_as': 'vars'} if conv == 'ugrid' else {'max_n': 4}
    if conv in ('cf2d', 'shoc_simple'):
        kw['twist'] = True
    recipe = G.random_recipe(rng, conv, ctx.tier, **kw)
    # dimension names that coincide with the property names of the exported features
    if rng.random() < 0.3:
        a, b = rng.choice([('index', 'column'), ('linear_index', 'index'), ('row', 'linear_index')])
        if conv == 'ugrid':
            recipe['names'] = {'face_dim': a}
        elif conv in ('cf1d', 'cf2d'):
            if conv == 'cf1d':
                recipe.update(latname='latitude', lonname='longitude')
            recipe.update(ydim=a, xdim=b)
    return recipe


def run(ctx) -> None:
    items: list = []
    for k in range(ctx.budget(80, 600)):
        recipe = make_recipe(ctx, k)
        ctx.guarded(lambda: examine(ctx, recipe, items), {'recipe': recipe})
    if ctx.searching and ctx.driver is None:
        ctx.evaluated(len(items))
        return
    ctx.check_batch(items)


def run_one(ctx, inp):
    out = {}
    if inp.get('op') and ctx.driver:
        out['model'] = ctx.model([inp['op']])[0]
    items: list = []
    sub = type(ctx)(ctx.prop, ctx.tier, ctx.seed)
    sub.known = []
    examine(sub, inp['recipe'], items)
    for line, impl, d in items:
        if line == inp.get('op') and d.get('format') == inp.get('format'):
            out['impl'] = impl
    if sub.oracle_failures:
        out['oracle'] = '; '.join(f"{f['signature']}: {f['message'][:200]}" for f in sub.oracle_failures[:3])
    return out


def replay(ctx, data) -> int:
    return util.generic_replay(ctx, data, run_one)
