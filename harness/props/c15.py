"""C15 — geometry export round-trips every cell with its indexes."""
from __future__ import annotations

import json
import os
import random
from fractions import Fraction

import shapefile
import shapely

from harness import util
from harness.gen import c15_extra as X
from harness.gen import c15_extra6 as X6
from harness.gen import clipgen as CG
from harness.gen import datasets as G
from harness.gen import geomspec as S

ID = 'C15'
MODULE = 'EmsModel.Props.C15'
DRIVER = 'C15'
REQUIRED = ['Ems.C15.index_json_roundtrip', 'Ems.C15.features_spec', 'Ems.C15.features_sorted',
            'Ems.C15.feature_index_identifies', 'Ems.C15.recorded_index_roundtrip', 'Ems.C15.multipolygon_spec',
            'Ems.C15.dbf_record_spec', 'Ems.C15.dbf_count']
EXTRA_MODULES = globals().get('EXTRA_MODULES', []) + ['EmsModel.Props.C15More']   # B6
REQUIRED += ['Ems.C15.features_injective', 'Ems.C15.records_injective', 'Ems.C15.features_complete',
             'Ems.C15.multipolygon_count', 'Ems.C15.shapefile_in_step']
EXTRA_MODULES = EXTRA_MODULES + ['EmsModel.Props.C15Regime']   # strengthen-6
REQUIRED += ['Ems.C15.features_map_coords', 'Ems.C15.dbfRecords_map_coords', 'Ems.C15.multipolygon_map_coords',
             'Ems.C15.features_linear', 'Ems.C15.features_drop_cell', 'Ems.C15.dbfRecords_drop_cell']
RULE = ('datasets of every convention (holes, invalid cells, multi-kind native indexes, sheared and concave cells) x the four '
        'formats: written with the real writer (library functions and the export-geometry command, every format in turn), read '
        'back from exactly the path exported to with an independent reader (json, pyshp Reader on the three files opened by '
        'name, shapely.from_wkt / from_wkb) and compared with the model\'s feature list; the export target is an input too '
        '(plain / dotted stems such as grid.v2.shp, spaces, non-ASCII, dotted directories, str / pathlib.Path, all formats '
        'under one base name side by side); a size ladder of large datasets past 2^10, 2^12, 2^13, 10^4 cells (thorough: '
        '2^16) of rotating conventions; oracle: the cells with polygons, in linear order, identical coordinates, linear_index '
        'and native index identify the same cell (ravel_index(index) == linear_index, and index == the row-major position '
        'in the generator\'s grid); export histories: two or three datasets exported one after the other in the same '
        'process, the later ones siblings of the first (same convention and number of cells under another grid shape, '
        'same shape with other coordinates, the same dataset again), every one of them read back and held against its own '
        'dataset; cells with finite bounds and no polygon (zero-width ghost columns / zero-height ghost rows in the stored '
        'bounds of an axis-aligned grid, coordinate values repeated three times and more); coordinate regimes (whole '
        'degrees, k/8 .. k/64 of a degree, projected metres, metres with sub-metre parts - all exact in six decimal '
        'places) and mixed histories (datasets of different conventions and regimes one after the other, then the first '
        'again). Non-trivial: a dataset with at least one cell without polygon or a kinded native index; '
        'distinct by (recipe, format).')
TRUSTED = ['json, pyshp, shapely WKT/WKB readers and writers (byte formats are the libraries\' business)']
ASSUMPTIONS = ['shapefile rings are compared up to rotation and direction (the format prescribes ring orientation); other formats exactly',
               '"reading the file back" reads the file at exactly the path handed to the writer; for a Shapefile target X.shp that is '
               'the file set X.shp, X.shx, X.dbf']

STYLE = {'cf1d': 'bare', 'cf2d': 'bare', 'shoc_simple': 'bare', 'shoc_standard': 'kinded', 'ugrid': 'kinded'}


def ring_of_coords(coords) -> list:
    pts = [(Fraction(float(x)), Fraction(float(y))) for x, y in coords]
    if len(pts) > 1 and pts[0] == pts[-1]:
        pts = pts[:-1]
    return pts


def cyc_canon(pts) -> tuple:
    """a ring up to rotation and direction"""
    pts = list(pts)
    n = len(pts)
    cands = []
    for seq in (pts, pts[::-1]):
        # every rotation: a ring may hold the same point twice (degenerate corners next to a hole)
        for k in range(n):
            cands.append(tuple(seq[k:] + seq[:k]))
    return min(cands) if cands else ()


def idx_json(v) -> str:
    return json.dumps(v, separators=(',', ':'))


# ---- where the export is written: the target's name is an input of the export like any other -------------------
# (a file set named after a version / a date has dots in its stem; every format is written under the same base name,
# next to the others, as someone exporting "all formats" does)
PLAIN_STEMS = ['g', 'out', 'cells_2', 'my grid', 'réseau-2']
DOTTED_STEMS = ['grid.v2', 'gbr4_v2.0', 'cells.2024-06', 'a.b.c', 'out.shp.bak', '.hidden']
DIRS = ['', '', 'run.1', 'v2.0 out']
FORMATS = ('geojson', 'shapefile', 'wkt', 'wkb')
PLAIN_EXPORT = {'stem': 'g', 'dir': '', 'as_path': False, 'json_ext': '.geojson', 'cli': None}


def random_export(rng, k: int) -> dict:
    """the file names of one case (all randomness here, so that a replay writes to the same names)"""
    dotted = rng.random() < 0.45
    return {
        'stem': rng.choice(DOTTED_STEMS if dotted else PLAIN_STEMS),
        'dir': rng.choice(DIRS),
        'as_path': rng.random() < 0.5,                 # pathlib.Path / str
        'json_ext': rng.choice(['.geojson', '.geojson', '.json']),
        # the command line writes the same file: one format per case, four cases in ten
        'cli': FORMATS[k % 4] if rng.random() < 0.4 else None,
    }


def ext_of(fmt: str, export: dict) -> str:
    return {'geojson': export.get('json_ext', '.geojson'), 'shapefile': '.shp', 'wkt': '.wkt', 'wkb': '.wkb'}[fmt]


def listing(wd: str) -> str:
    out = []
    for root, _, files in os.walk(wd):
        out += [os.path.relpath(os.path.join(root, f), wd) for f in files]
    return ', '.join(sorted(out)) or '(empty)'


def item_desc(desc: dict, line: str, fmt: str) -> dict:
    """what a replay needs to run one model line again (the line itself is rebuilt from the recipe when it is long)"""
    return {**desc, 'format': fmt, **({'op': line} if len(line) <= 20000 else {})}


class NotAtTarget(Exception):
    pass


def need(path: str) -> str:
    if not os.path.isfile(path):
        raise NotAtTarget(os.path.basename(path))
    return path


def read_geojson(path: str):
    """[(linear_index, index, ring)] of the file at exactly `path`, and the parsed document"""
    with open(need(path)) as f:
        data = json.load(f)
    feats = [(f['properties']['linear_index'], f['properties']['index'],
              ring_of_coords(f['geometry']['coordinates'][0])) for f in data['features']]
    return feats, data


def read_shapefile(path: str):
    """[(name, linear_index, index-or-None, index text, ring)] of the file set whose .shp is exactly `path`; the three
    files are opened by name here (the reader's own derivation of file names plays no part)"""
    base = path[:-len('.shp')]
    with open(need(path), 'rb') as shp, open(need(base + '.shx'), 'rb') as shx, open(need(base + '.dbf'), 'rb') as dbf:
        rd = shapefile.Reader(shp=shp, shx=shx, dbf=dbf)
        recs = [list(r) for r in rd.records()]
        shapes = [list(sh.points) for sh in rd.shapes()]
    if len(recs) != len(shapes):
        raise ValueError(f'{len(recs)} records for {len(shapes)} shapes')
    out = []
    for r, pts in zip(recs, shapes):
        try:
            idx = json.loads(r[2])
        except Exception:
            idx = None
        out.append((r[0], r[1], idx, r[2], ring_of_coords(pts)))
    return out


def read_members(path: str, fmt: str):
    with open(need(path), 'rb') as f:
        blob = f.read()
    geom = shapely.from_wkt(blob.decode()) if fmt == 'wkt' else shapely.from_wkb(blob)
    return [ring_of_coords(g.exterior.coords) for g in geom.geoms], blob


def read_back(ctx, d, wd, path, fmt, who='the export'):
    """what the file at `path` holds, or None after reporting why it cannot be read back"""
    try:
        if fmt == 'geojson':
            return read_geojson(path)
        if fmt == 'shapefile':
            return read_shapefile(path)
        return read_members(path, fmt)
    except NotAtTarget as e:
        ctx.oracle_fail(f'{fmt}-not-at-target', d,
                        f'{who} to {os.path.relpath(path, wd)!r} left no file {str(e)!r}; the directory holds: {listing(wd)}')
    except Exception as e:
        ctx.oracle_fail(f'{fmt}-unreadable', d,
                        f'the {fmt} file {who} wrote cannot be read back: {type(e).__name__}: {str(e)[:200]}')
    return None


def examine(ctx, recipe, items, export=None, before=None) -> None:
    """export the dataset of `recipe` in every format, read every file back, hold it against the generator's ground
    truth and queue the model's lines.  `before`: the cases ({'recipe', 'export'}) exported earlier in the same history
    (recorded with the case so that a replay goes through the same sequence of exports)"""
    import pathlib
    from emsarray.operations import geometry
    from emsarray.cli import main as cli_main
    export = dict(PLAIN_EXPORT if export is None else export)
    built = X6.build(recipe)      # (= G.build; a cf1d recipe may describe its stored bounds by cell edges: ghost cells)
    c = G.bind(built)
    ds = built.ds
    raw = built.polys
    vbits = S.geos_valid_bits(raw)
    kept = [q if (q is not None and vbits[n] == '1') else None for n, q in enumerate(raw)]
    rings = S.rings_str(kept)
    spec = built.grids_spec()
    style = STYLE[built.conv]
    desc = {'recipe': recipe, 'export': export}
    if before:
        desc['before'] = before
        ctx.count(f'history:position-{len(before) + 1}')
    expected = [(n, q) for n, q in enumerate(kept) if q is not None]
    if any(q is None for q in kept) or style == 'kinded':
        ctx.nontrivial(str(recipe))
    ctx.count(f'conv:{built.conv}')
    ctx.count('target:' + ('dotted-stem' if '.' in export['stem'] else 'plain-stem'))
    ctx.count('cells:' + ('<=1024' if len(kept) <= 1024 else '>1024' if len(kept) <= 4096 else '>4096'
                          if len(kept) <= 8192 else '>8192' if len(kept) <= 65536 else '>65536'))
    writers = {'geojson': geometry.write_geojson, 'shapefile': geometry.write_shapefile,
               'wkt': geometry.write_wkt, 'wkb': geometry.write_wkb}
    lines = {'geojson': f'features {spec} {built.default_kind} {style} {rings}',
             'shapefile': f'dbf {spec} {built.default_kind} {style} {rings}',
             'wkt': f'members {rings}', 'wkb': f'members {rings}'}
    with CG.WorkDir() as wd:
        outdir = os.path.join(wd, export['dir']) if export['dir'] else wd
        os.makedirs(outdir, exist_ok=True)
        target = {fmt: os.path.join(outdir, export['stem'] + ext_of(fmt, export)) for fmt in FORMATS}
        # ---- every format is written first (under one base name, side by side), then every file is read back from
        # exactly the path it was exported to ----
        written = {}
        for fmt in FORMATS:
            try:
                writers[fmt](ds, pathlib.Path(target[fmt]) if export['as_path'] else target[fmt])
                written[fmt] = True
            except Exception as e:
                written[fmt] = False
                ctx.oracle_fail(f'{fmt}-export-raised', {**desc, 'format': fmt},
                                f'writing {os.path.basename(target[fmt])!r} raised {type(e).__name__}: {str(e)[:200]}')
        # ---- the command line writes the same file (same file name, its own directory) -------------------------
        cli_fmt = export.get('cli')
        cli_path = None
        if cli_fmt:
            src = os.path.join(wd, 'in.nc')
            # (coordinates packed / numerically filled in the file: what the command reads must be the decoded values)
            G.pack_coordinates(ds).to_netcdf(src)
            os.makedirs(os.path.join(wd, 'cli'))
            cli_path = os.path.join(wd, 'cli', os.path.basename(target[cli_fmt]))
            try:
                cli_main(['export-geometry', src, cli_path])
                code = 0
            except SystemExit as e:
                code = e.code or 0
            except Exception as e:
                code = f'{type(e).__name__}: {str(e)[:200]}'
            ctx.evaluated()
            if code != 0:
                ctx.oracle_fail('cli-export-failed', {**desc, 'format': cli_fmt}, f'emsarray export-geometry exited {code}')
                cli_path = None
        got = {}
        for fmt in FORMATS:
            got[fmt] = read_back(ctx, {**desc, 'format': fmt}, wd, target[fmt], fmt) if written[fmt] else None
            if got[fmt] is None:
                items.append((lines[fmt], 'UNREADABLE', item_desc(desc, lines[fmt], fmt)))
        # ---- GeoJSON ---------------------------------------------------------------------
        if got['geojson'] is not None:
            feats, _ = got['geojson']
            out = '|'.join(f"{lin};{idx_json(idx)};{S.ring_str(ring)}" for lin, idx, ring in feats) or '(none)'
            items.append((lines['geojson'], out, item_desc(desc, lines['geojson'], 'geojson')))
            oracle_features(ctx, desc, 'geojson', c, built, expected, feats, exact=True)
        # ---- Shapefile --------------------------------------------------------------------
        if got['shapefile'] is not None:
            recs = got['shapefile']
            out = '|'.join(f"{name};{'-' if lin is None else int(lin)};{idx_json(idx) if text else 'ERR'}"
                           for name, lin, idx, text, _ in recs) or '(none)'
            items.append((lines['shapefile'], out, item_desc(desc, lines['shapefile'], 'shapefile')))
            oracle_features(ctx, desc, 'shapefile', c, built, expected,
                            [(lin, idx, ring) for _, lin, idx, _, ring in recs], exact=False)
            for (name, *_), (n, _) in zip(recs, expected):
                if name != f'polygon{n}':
                    ctx.oracle_fail('shapefile-name', {**desc, 'format': 'shapefile'}, f'record name {name} for cell {n}')
                    break
        # ---- WKT / WKB ---------------------------------------------------------------------
        for fmt in ('wkt', 'wkb'):
            if got[fmt] is None:
                continue
            members, _ = got[fmt]
            out = '|'.join(S.ring_str(m) for m in members) or '(none)'
            items.append((lines[fmt], out, item_desc(desc, lines[fmt], fmt)))
            if members != [util.expected_ring(q) for _, q in expected]:
                ctx.oracle_fail(f'{fmt}-members-differ', {**desc, 'format': fmt},
                                f'{len(members)} members read back, {len(expected)} cells have polygons, or coordinates differ')
        # ---- what the command wrote reads back as what the library wrote ------------------------------------
        if cli_path is not None:
            d = {**desc, 'format': cli_fmt}
            theirs = read_back(ctx, d, wd, cli_path, cli_fmt, who='export-geometry')
            ours = got[cli_fmt]
            if theirs is not None and ours is not None:
                same = (theirs[1] == ours[1]) if cli_fmt != 'shapefile' else (theirs == ours)
                if not same:
                    ctx.oracle_fail('cli-export-differs', d,
                                    f'export-geometry wrote a different {cli_fmt} file than the library function')


def oracle_features(ctx, desc, fmt, c, built, expected, got, exact: bool) -> None:
    d = {**desc, 'format': fmt}
    if desc.get('before'):
        # (the message says where in a history the export stood; the signature is that of the clause)
        inner = ctx

        class _Told:
            def oracle_fail(self, signature, dd, message):
                same = {b['recipe'].get('conv') for b in desc['before']} == {desc['recipe'].get('conv')}
                inner.oracle_fail(signature, dd, f"{message} (exported after {len(desc['before'])} other dataset(s) "
                                                 + ('of the same convention ' if same else '') + 'in this process)')
        ctx = _Told()
    if len(got) != len(expected):
        ctx.oracle_fail(f'{fmt}-feature-count', d, f'{len(got)} features for {len(expected)} cells with polygons')
        return
    shape = built.grids[built.default_kind][1]
    kinded = STYLE[built.conv] == 'kinded'
    for (lin, idx, ring), (n, q) in zip(got, expected):
        if lin is None or int(lin) != n:
            ctx.oracle_fail(f'{fmt}-linear-index', d, f'feature of cell {n} records linear_index {lin}')
            return
        want = util.expected_ring(q)
        if (ring != want) if exact else (cyc_canon(ring) != cyc_canon(want)):
            ctx.oracle_fail(f'{fmt}-coordinates', d, f'cell {n}: coordinates {S.ring_str(ring)} expected {S.ring_str(want)}')
            return
        # the recorded native index identifies the same cell
        try:
            if built.conv in ('cf1d', 'cf2d', 'shoc_simple'):
                native = tuple(int(v) for v in idx)
            else:
                kinds = {k.value: k for k in type(next(iter(c.grid_kinds)))}
                native = (kinds[idx[0]], *[int(v) for v in idx[1:]])
            back = int(c.ravel_index(native))
        except Exception as e:
            back = f'ERR {type(e).__name__}'
        if back != n:
            ctx.oracle_fail(f'{fmt}-native-index', d, f'cell {n}: recorded index {idx} identifies cell {back}')
            return
        # ... and is the position of cell n in the generator's own grid (row-major over the default grid's shape)
        truth, rest = [], n
        for size in reversed(shape):
            truth.insert(0, rest % size)
            rest //= size
        if kinded:
            truth.insert(0, built.default_kind)
        if list(idx) != truth:
            ctx.oracle_fail(f'{fmt}-native-index', d, f'cell {n}: recorded index {idx}, the cell is {truth}')
            return


def make_recipe(ctx, k):
    rng = ctx.rng
    conv = G.CONVS[k % len(G.CONVS)]
    kw = {'max_w': 3, 'max_h': 2, 'coords_as': 'vars'} if conv == 'ugrid' else {'max_n': 4}
    if conv in ('cf2d', 'shoc_simple'):
        kw['twist'] = True
    recipe = G.random_recipe(rng, conv, ctx.tier, **kw)
    # dimension names that coincide with the property names of the exported features
    if rng.random() < 0.3:
        a, b = rng.choice([('index', 'column'), ('linear_index', 'index'), ('row', 'linear_index')])
        if conv == 'ugrid':
            recipe['names'] = {'face_dim': a}
        elif conv in ('cf1d', 'cf2d'):
            if conv == 'cf1d':
                recipe.update(latname='latitude', lonname='longitude')
            recipe.update(ydim=a, xdim=b)
    return recipe


# ---- the size ladder: datasets past the sizes at which code that works a block / chunk of cells at a time starts
# its second block (2^10, 2^12, 2^13, 10^4; the thorough tier also 2^16).  Any number of cells is in the property. ----
BANDS_QUICK = [(1025, 4096), (4097, 8192), (10001, 12000)]
BANDS_THOROUGH = BANDS_QUICK + [(1025, 4096), (4097, 8192), (8193, 10000), (65537, 70000)]


def large_recipe(rng, conv: str, ncells: int) -> dict:
    """a dataset of at least `ncells` cells of convention `conv` (same recipe vocabulary as the small ones)"""
    root = max(2, int(ncells ** 0.5))
    ny = rng.randint(max(2, root // 3), root + root // 2)
    nx = -(-ncells // ny)
    if rng.random() < 0.5:
        ny, nx = nx, ny
    if conv == 'cf1d':
        r = G.random_cf1d(rng, max_n=3)
        r['lat'] = G._axis(rng, ny, rng.random() < 0.5)
        r['lon'] = G._axis(rng, nx, rng.random() < 0.5)
        return r
    if conv in ('cf2d', 'shoc_simple'):
        r = G.random_cf2d(rng, conv, max_n=3, holes=False)
        r['ny'], r['nx'] = ny, nx
        cells = rng.sample(range(ny * nx), rng.randint(0, 40))
        if cells:
            r['holes'] = [[n // nx, n % nx] for n in sorted(cells)]
        if r['bounds'] == 'stored' and rng.random() < 0.5:
            r['twist'] = [[rng.randrange(ny), rng.randrange(nx)]]
        return r
    if conv == 'shoc_standard':
        r = G.random_shoc_standard(rng, max_n=3, holes=False)
        r['ny'], r['nx'] = ny, nx
        nodes = rng.sample(range((ny + 1) * (nx + 1)), rng.randint(0, 12))
        if nodes:
            r['masked_nodes'] = [[n // (nx + 1), n % (nx + 1)] for n in sorted(nodes)]
        return r
    r = G.random_ugrid(rng, max_w=2, max_h=2, coords_as='vars')
    shear = None
    if rng.random() < 0.6:
        while True:
            shear = [rng.randint(-2, 2) for _ in range(4)]
            if shear[0] * shear[3] - shear[1] * shear[2] != 0:
                break
    # (a lattice cell gives 1.2 faces on average and one in ten is dropped: at least ncells faces)
    mesh = G.gen_mesh(rng, nx, ny, shear=shear)
    r['nodes'], r['faces'] = mesh['nodes'], mesh['faces']
    return r


def run(ctx) -> None:
    items: list = []
    rng = ctx.rng
    for k in range(ctx.budget(80, 600)):
        recipe = make_recipe(ctx, k)
        export = random_export(rng, k)
        ctx.guarded(lambda: examine(ctx, recipe, items, export), {'recipe': recipe, 'export': export})
    bands = BANDS_THOROUGH if ctx.thorough else BANDS_QUICK
    first = rng.randrange(len(G.CONVS))
    for k in range(ctx.budget(3, 7)):
        lo, hi = bands[k % len(bands)]
        recipe = large_recipe(rng, G.CONVS[(first + k) % len(G.CONVS)], rng.randint(lo, hi))
        export = {**random_export(rng, k), 'cli': None}
        ctx.guarded(lambda: examine(ctx, recipe, items, export), {'recipe': recipe, 'export': export})
    # ---- export histories: datasets exported one after the other in this process; each is held against its own
    # dataset exactly as a dataset exported alone is (what an earlier export leaves behind is no input of a later one) ----
    for k in range(ctx.budget(15, 90)):
        conv = G.CONVS[k % len(G.CONVS)]
        kw = {'max_w': 3, 'max_h': 2, 'coords_as': 'vars'} if conv == 'ugrid' else {'max_n': 4}

        def fresh():
            return G.random_recipe(rng, conv, ctx.tier, **kw)
        history = X.random_history(rng, fresh(), fresh, rng.choice([2, 3, 3]))
        before: list = []
        for how, recipe in history:
            export = random_export(rng, k)
            ctx.count(f'history:{how}')
            ctx.guarded(lambda: examine(ctx, recipe, items, export, list(before)),
                        {'recipe': recipe, 'export': export, 'before': list(before)})
            before.append({'recipe': recipe, 'export': export})
    # ---- strengthen-6: begin -------------------------------------------------------------------------------------
    # (streams of their own: nothing above draws differently because of these two blocks)
    rng6 = random.Random(f'{ctx.seed}:{int(ctx.searching)}:c15-extra6')
    # cells that are there (finite bounds) but have no polygon: ghost columns / rows of an axis-aligned grid in stored
    # bounds, coordinate values repeated three times and more; holes of the export like the NaN ones
    for k in range(ctx.budget(12, 80)):
        recipe = X6.random_flat(rng6, k)
        export = {**random_export(rng6, k), 'cli': FORMATS[k % 4] if k % 3 == 0 else None}
        ctx.count('flat:' + ('ghost-bounds' if recipe.get('flat') else 'repeated-values'))
        ctx.guarded(lambda: examine(ctx, recipe, items, export), {'recipe': recipe, 'export': export})
    # coordinate regimes (whole degrees / fine fractions of a degree / projected metres / metres with sub-metre parts)
    # and mixed histories: datasets of different conventions and regimes exported one after the other, then the first
    # one again; each held against its own dataset
    for k in range(ctx.budget(8, 50)):
        def fresh6(conv):
            kw = {'max_w': 3, 'max_h': 2, 'coords_as': 'vars'} if conv == 'ugrid' else {'max_n': 4}
            return G.random_recipe(rng6, conv, ctx.tier, **kw)
        before = []
        for how, recipe in X6.regime_history(rng6, fresh6, k):
            export = random_export(rng6, k)
            ctx.count(f'history:{how}')
            ctx.guarded(lambda: examine(ctx, recipe, items, export, list(before)),
                        {'recipe': recipe, 'export': export, 'before': list(before)})
            before.append({'recipe': recipe, 'export': export})
    # ---- strengthen-6: end ---------------------------------------------------------------------------------------
    if ctx.searching and ctx.driver is None:
        ctx.evaluated(len(items))
        return
    ctx.check_batch(items)


def run_one(ctx, inp):
    out = {}
    items: list = []
    sub = type(ctx)(ctx.prop, ctx.tier, ctx.seed)
    sub.known = []
    # the exports that went before this one in its history, in order, in this process
    for earlier in inp.get('before') or []:
        try:
            examine(type(ctx)(ctx.prop, ctx.tier, ctx.seed), earlier['recipe'], [], earlier.get('export'))
        except Exception:
            pass
    examine(sub, inp['recipe'], items, inp.get('export'), inp.get('before'))
    for line, impl, d in items:
        if d.get('format') == inp.get('format') and inp.get('op') in (None, line):
            model = ctx.model([line])[0] if ctx.driver else None
            # (long outputs are shown around the first place where they differ)
            k = next((j for j, (a, b) in enumerate(zip(impl, model or impl)) if a != b), min(len(impl), len(model or impl)))
            lo = max(0, k - 300) if model not in (None, impl) else 0

            def window(t):
                return t if len(t) <= 2000 else f'[{len(t)} characters, from {lo}] ' + t[lo:lo + 1200]
            out['impl'] = window(impl)
            if model is not None:
                out['model'] = window(model)
            break
    if sub.oracle_failures:
        out['oracle'] = '; '.join(f"{f['signature']}: {f['message'][:200]}" for f in sub.oracle_failures[:3])
    return out


def replay(ctx, data) -> int:
    return util.generic_replay(ctx, data, run_one)
